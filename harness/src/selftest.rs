//! Validates the oracles themselves before they are trusted (DESIGN.md section 6).

use crate::dev::{Image, Source};
use crate::fatref::{self, FsckMode, Snap};
use crate::fsx::{self, Recipe};
use crate::mkfs::Geom;
use crate::prng::Rng;
use crate::report::Ctx;
use std::io::Read;

struct VecSource(Vec<u8>);
impl Source for VecSource {
    fn get(&self, idx: u32) -> [u8; 512] {
        let mut b = [0u8; 512];
        let o = idx as usize * 512;
        b.copy_from_slice(&self.0[o..o + 512]);
        b
    }
    fn nblocks(&self) -> u32 {
        (self.0.len() / 512) as u32
    }
}

fn check_built(b: &fsx::Built, what: &str) -> Result<(), String> {
    let snap = Snap::open(&b.img, b.g.part_slot).map_err(|e| format!("{}: fatref cannot mount formatter output: {} [{}]", what, e, b.g.describe()))?;
    let v = &snap.vol;
    if v.fat32 != b.g.fat32 || v.clusters != b.g.clusters || v.data_blk != b.g.data_start() || v.fat_blk != b.g.fat_start() || v.root_blk != b.g.root_start() {
        return Err(format!("{}: layout disagreement fatref {:?} vs mkfs [{}]", what, v, b.g.describe()));
    }
    let (out, w) = fatref::fsck(&snap, &[], FsckMode::Live);
    if !out.findings.is_empty() {
        return Err(format!("{}: fsck findings on a fresh image: {:?} [{}]", what, &out.findings[..out.findings.len().min(3)], b.g.describe()));
    }
    if !out.unexplained_lost.is_empty() {
        return Err(format!("{}: lost clusters on a fresh image: {:?}", what, &out.unexplained_lost[..1]));
    }
    if !out.junk_exposed.is_empty() {
        return Err(format!("{}: junk exposed on a fresh image", what));
    }
    let idx = fatref::by_path(&w);
    for p in &b.placed {
        let Some(&i) = idx.get(&p.path) else { return Err(format!("{}: {} not found by fatref", what, p.path)) };
        let n = &w.nodes[i];
        if n.is_dir != p.is_dir || n.size != p.size || n.chain != p.chain || n.slot.raw != p.raw || n.slot.blk != p.slot_blk || n.slot.off != p.slot_off {
            return Err(format!("{}: {} differs: fatref {:?} vs placed chain {:?} size {}", what, p.path, n, p.chain, p.size));
        }
        if let Some(d) = &p.data {
            let got = snap.read_chain_bytes(&n.chain, n.size);
            if &got != d {
                return Err(format!("{}: contents of {} differ", what, p.path));
            }
        }
        if let Some(l) = &p.lfn {
            if n.lfn.as_deref() != Some(String::from_utf16_lossy(l).as_str()) {
                return Err(format!("{}: long name of {} not reassembled: {:?}", what, p.path, n.lfn));
            }
        }
    }
    // free-space arithmetic
    let used: u32 = w.owner.len() as u32;
    if out.allocated != used || out.free + out.allocated != v.clusters {
        return Err(format!("{}: allocated {} vs referenced {} (free {}, clusters {})", what, out.allocated, used, out.free, v.clusters));
    }
    Ok(())
}

pub fn run(ctx: &Ctx) -> i32 {
    let mut bad = 0;
    // 1. 8.3 reference validator on the library's own unit-test vectors
    for (s, ok) in [("README.TXT", true), ("a", true), ("ABCDEFGH.IJK", true), ("ABCDEFGHI", false), ("A.BCDE", false), (".A", false), ("A B", false), ("A.B.C", false)] {
        let r = crate::codec::entry::name_ref(s);
        if (r != crate::codec::entry::NameRef::Reject) != ok {
            println!("selftest: 8.3 reference wrong on {:?}", s);
            bad += 1;
        }
    }
    // 2. formatter -> independent reader round trip on every geometry family
    let mut rng = Rng::from_parts(&[ctx.seed, 0x5e1f]);
    let mut n = 0;
    for fat32 in [false, true] {
        for i in 0..40 {
            let g = Geom::random(&mut rng, Some(fat32), if fat32 { 8 } else { 128 });
            let recipe = [Recipe::Empty, Recipe::Small, Recipe::Rich][i % 3];
            let leave = if i % 4 == 1 { Some((rng.below(20) as u32, rng.below(3) as u32)) } else { None };
            let b = fsx::build(g, recipe, leave, &mut rng);
            if let Err(e) = check_built(&b, "mkfs/fatref") {
                println!("selftest: {}", e);
                bad += 1;
            }
            n += 1;
        }
    }
    println!("selftest: {} formatter images cross-checked by the independent reader", n);
    // 3. the independent reader on the repository's real (macOS-made) disk image
    let path = format!("{}/tests/disk.img.gz", ctx.repo_dir);
    match std::fs::File::open(&path) {
        Err(e) => {
            println!("selftest: cannot open {}: {}", path, e);
            bad += 1;
        }
        Ok(f) => {
            let mut dec = flate2::read::GzDecoder::new(f);
            let mut data = Vec::new();
            if dec.read_to_end(&mut data).is_err() {
                println!("selftest: cannot unpack {}", path);
                bad += 1;
            } else {
                let src = VecSource(data);
                let want: [(&str, u32, bool); 5] = [("64MB.DAT", 67108864, false), ("EMPTY.DAT", 0, false), ("README.TXT", 258, false), ("TEST", 0, true), ("TEST/TEST.DAT", 3500, false)];
                for slot in 0..2 {
                    match Snap::open(&src, slot) {
                        Err(e) => {
                            println!("selftest: fatref cannot mount partition {} of disk.img: {}", slot, e);
                            bad += 1;
                        }
                        Ok(snap) => {
                            let (out, w) = fatref::fsck(&snap, &[], FsckMode::Live);
                            let idx = fatref::by_path(&w);
                            for (p, size, is_dir) in want.iter() {
                                match idx.get(*p) {
                                    Some(&i) if w.nodes[i].size == *size && w.nodes[i].is_dir == *is_dir => {}
                                    other => {
                                        println!("selftest: disk.img partition {}: {} -> {:?}", slot, p, other.map(|&i| (&w.nodes[i].path, w.nodes[i].size)));
                                        bad += 1;
                                    }
                                }
                            }
                            let hard: Vec<_> = out.findings.iter().filter(|f| f.rule != "dotdot").collect();
                            if !hard.is_empty() {
                                println!("selftest: fsck of real image partition {} reports {:?}", slot, &hard[..hard.len().min(3)]);
                                bad += 1;
                            }
                            println!(
                                "selftest: disk.img partition {} ({}): {} nodes, {} clusters allocated, {} lost chains, findings {}",
                                slot,
                                if snap.vol.fat32 { "FAT32" } else { "FAT16" },
                                w.nodes.len(),
                                out.allocated,
                                out.lost_chains.len(),
                                out.findings.len()
                            );
                        }
                    }
                }
            }
        }
    }
    let _ = Image::new(1);
    if bad == 0 {
        println!("selftest ok");
        0
    } else {
        println!("selftest FAILED ({} problems)", bad);
        2
    }
}
