//! Run context, verdicts (three-valued), known-findings matching, evidence files.

use crate::json::J;
use std::collections::{BTreeMap, HashSet};
use std::sync::atomic::{AtomicUsize, Ordering};
use std::sync::Mutex;
use std::time::Instant;

#[derive(Clone, Copy, PartialEq, Eq, Debug)]
pub enum Tier {
    Quick,
    Thorough,
}

#[derive(Clone, Debug)]
pub struct Ctx {
    pub prop: String,
    pub tier: Tier,
    pub seed: u64,
    pub threads: usize,
    pub verif_dir: String,
    pub repo_dir: String,
    /// `--replay <file>`: re-run exactly the case stored there.
    pub replay: Option<J>,
    /// free-form extra arguments (`--leg miri` etc.)
    pub args: BTreeMap<String, String>,
    pub start: Instant,
}

impl Ctx {
    pub fn quick(&self) -> bool {
        self.tier == Tier::Quick
    }
    pub fn pick<T: Copy>(&self, q: T, t: T) -> T {
        if self.quick() {
            q
        } else {
            t
        }
    }
    pub fn arg(&self, k: &str) -> Option<&str> {
        self.args.get(k).map(|s| s.as_str())
    }
    pub fn arg_u64(&self, k: &str) -> Option<u64> {
        self.arg(k).and_then(|s| s.parse().ok())
    }
    pub fn elapsed(&self) -> f64 {
        self.start.elapsed().as_secs_f64()
    }
}

#[derive(Clone, Debug)]
pub struct Violation {
    pub prop: String,
    /// rule id, e.g. "C05.leak"
    pub rule: String,
    /// full signature `rule : call kind : detail`
    pub sig: String,
    pub msg: String,
    /// everything needed to re-run the failing case
    pub replay: J,
}

impl Violation {
    pub fn new(prop: &str, rule: &str, call: &str, detail: &str, msg: String, replay: J) -> Violation {
        Violation {
            prop: prop.to_string(),
            rule: rule.to_string(),
            sig: format!("{} : {} : {}", rule, call, detail),
            msg,
            replay,
        }
    }
}

/// Accumulated per-run observations. One per worker thread, merged at the end.
#[derive(Default, Debug)]
pub struct Report {
    pub evaluations: u64,
    pub distinct: HashSet<u64>,
    /// cases that are distinct by construction (exhaustive enumerations), counted not hashed
    pub distinct_extra: u64,
    pub samples: Vec<J>,
    pub violations: Vec<Violation>,
    pub counters: BTreeMap<String, u64>,
    /// reasons that make the run inconclusive
    pub inconclusive: Vec<String>,
    pub notes: Vec<String>,
}

impl Report {
    pub fn new() -> Report {
        Report::default()
    }
    pub fn count(&mut self, k: &str, n: u64) {
        *self.counters.entry(k.to_string()).or_insert(0) += n;
    }
    pub fn max(&mut self, k: &str, n: u64) {
        let e = self.counters.entry(k.to_string()).or_insert(0);
        if n > *e {
            *e = n;
        }
    }
    pub fn sample(&mut self, cap: usize, j: impl FnOnce() -> J) {
        if self.samples.len() < cap {
            self.samples.push(j());
        }
    }
    pub fn violate(&mut self, v: Violation) {
        // keep at most a few per signature
        let n = self.violations.iter().filter(|x| x.sig == v.sig).count();
        let own = OWN_PROP.get().map(|s| s.as_str()).unwrap_or("");
        let foreign = !own.is_empty() && v.prop != own;
        if foreign && self.violations.iter().filter(|x| x.prop != own).count() >= 40 {
            self.count("violations_of_other_properties_not_stored", 1);
        } else if n < 2 && self.violations.len() < 2000 {
            self.violations.push(v);
        } else {
            self.count("violations_not_stored", 1);
        }
    }
    pub fn merge(&mut self, o: Report) {
        self.evaluations += o.evaluations;
        self.distinct.extend(o.distinct);
        self.distinct_extra += o.distinct_extra;
        for s in o.samples {
            if self.samples.len() < 12 {
                self.samples.push(s);
            }
        }
        for v in o.violations {
            self.violate(v);
        }
        for (k, n) in o.counters {
            if k.starts_with("max_") {
                self.max(&k, n);
            } else {
                self.count(&k, n);
            }
        }
        self.inconclusive.extend(o.inconclusive);
        for n in o.notes {
            if self.notes.len() < 50 && !self.notes.contains(&n) {
                self.notes.push(n);
            }
        }
    }
}

/// The property this process is deciding (set once by `main`).
pub static OWN_PROP: std::sync::OnceLock<String> = std::sync::OnceLock::new();

/// Run `n` independent work items on `threads` workers. Each item gets its index.
pub fn parallel<F>(threads: usize, n: usize, f: F) -> Report
where
    F: Fn(usize, &mut Report) + Sync,
{
    let next = AtomicUsize::new(0);
    let total = Mutex::new(Report::new());
    let stop = AtomicUsize::new(0);
    std::thread::scope(|s| {
        for _ in 0..threads.max(1) {
            std::thread::Builder::new().stack_size(256 << 20).spawn_scoped(s, || {
                let mut local = Report::new();
                loop {
                    if stop.load(Ordering::Relaxed) != 0 {
                        break;
                    }
                    let i = next.fetch_add(1, Ordering::Relaxed);
                    if i >= n {
                        break;
                    }
                    f(i, &mut local);
                    // (violations of other properties seen on the way do not end the run)
                    let own = OWN_PROP.get().map(|s| s.as_str()).unwrap_or("");
                    if local.violations.iter().filter(|v| own.is_empty() || v.prop == own).count() >= 24 {
                        stop.store(1, Ordering::Relaxed);
                    }
                }
                total.lock().unwrap().merge(local);
            }).expect("spawn worker");
        }
    });
    total.into_inner().unwrap()
}

#[derive(Clone, Debug)]
pub struct Known {
    pub prop: String,
    pub sig: String,
    pub what: String,
}

pub fn load_known(verif_dir: &str) -> Vec<Known> {
    let p = format!("{}/known_findings.json", verif_dir);
    let mut out = Vec::new();
    let Ok(s) = std::fs::read_to_string(&p) else { return out };
    let Ok(j) = J::parse(&s) else {
        eprintln!("warning: cannot parse {}", p);
        return out;
    };
    if let Some(arr) = j.get("findings").and_then(|a| a.as_arr()) {
        for f in arr {
            let prop = f.get("property").and_then(|x| x.as_str()).unwrap_or("").to_string();
            let what = f.get("what").and_then(|x| x.as_str()).unwrap_or("").to_string();
            if let Some(sigs) = f.get("signatures").and_then(|a| a.as_arr()) {
                for s in sigs {
                    if let Some(s) = s.as_str() {
                        out.push(Known { prop: prop.clone(), sig: s.to_string(), what: what.clone() });
                    }
                }
            }
        }
    }
    out
}

fn sig_matches(pattern: &str, sig: &str) -> bool {
    if let Some(p) = pattern.strip_suffix('*') {
        sig.starts_with(p)
    } else {
        pattern == sig
    }
}

pub struct Evidence {
    pub level: &'static str,
    pub rule: String,
    pub assumptions: Vec<String>,
    pub exhaustive: Option<bool>,
    pub extra: Vec<(String, J)>,
    /// the run is inconclusive unless at least this many distinct non-trivial cases were seen
    pub min_distinct: u64,
    /// observation counters that must reach a minimum, or the monitor never saw its mechanism
    pub min_counters: Vec<(&'static str, u64)>,
}

/// Writes evidence, prints verdict lines, returns the process exit code.
pub fn finish(ctx: &Ctx, rep: Report, ev: Evidence) -> i32 {
    let known = load_known(&ctx.verif_dir);
    let mut by_sig: BTreeMap<String, Vec<&Violation>> = BTreeMap::new();
    for v in rep.violations.iter().filter(|v| v.prop == ctx.prop) {
        by_sig.entry(v.sig.clone()).or_default().push(v);
    }
    let foreign = rep.violations.iter().filter(|v| v.prop != ctx.prop).count();
    let mut new_violations = 0u64;
    let mut known_hits = 0u64;
    let mut lines = Vec::new();
    let mut viol_json = Vec::new();
    let _ = std::fs::create_dir_all(format!("{}/replays", ctx.verif_dir));
    for (sig, vs) in &by_sig {
        let v = vs[0];
        if let Some(k) = known.iter().find(|k| k.prop == ctx.prop && sig_matches(&k.sig, sig)) {
            known_hits += 1;
            lines.push(format!("KNOWN-FINDING: property={} {} [{}]", ctx.prop, k.what, sig));
            viol_json.push(J::obj().set("signature", sig.as_str()).set("known", true).set("message", v.msg.as_str()));
            continue;
        }
        new_violations += 1;
        let fname = format!(
            "{}/replays/{}-{}-{:016x}.json",
            ctx.verif_dir,
            ctx.prop,
            ctx.seed,
            crate::prng::hash_bytes(sig.as_bytes())
        );
        let rj = J::obj()
            .set("property", ctx.prop.as_str())
            .set("signature", sig.as_str())
            .set("message", v.msg.as_str())
            .set("tier", if ctx.quick() { "quick" } else { "thorough" })
            .set("seed", ctx.seed)
            .set("case", v.replay.clone());
        let _ = std::fs::write(&fname, rj.pretty());
        lines.push(format!("VIOLATION property={} replay={}", ctx.prop, fname));
        eprintln!("  [{}] {}", sig, v.msg);
        viol_json.push(J::obj().set("signature", sig.as_str()).set("known", false).set("message", v.msg.as_str()).set("replay", fname.as_str()));
    }
    let distinct = rep.distinct.len() as u64 + rep.distinct_extra;
    let mut inconclusive = rep.inconclusive.clone();
    if distinct < ev.min_distinct.max(2) {
        inconclusive.push(format!("only {} distinct non-trivial cases observed (minimum {})", distinct, ev.min_distinct.max(2)));
    }
    if rep.evaluations == 0 {
        inconclusive.push("no evaluations".into());
    }
    if ctx.replay.is_none() && new_violations == 0 {
        for (k, min) in &ev.min_counters {
            let got = rep.counters.get(*k).cloned().unwrap_or(0);
            if got < *min {
                inconclusive.push(format!("monitored mechanism hardly exercised: {} = {} (minimum {})", k, got, min));
            }
        }
    }

    let mut cov = J::obj()
        .set("evaluations", rep.evaluations)
        .set("distinct_nontrivial", distinct)
        .set("rule", ev.rule.as_str())
        .set("samples", J::Arr(rep.samples.clone()));
    if let Some(x) = ev.exhaustive {
        cov.put("exhaustive", x);
    }
    let mut counters = J::obj();
    for (k, n) in &rep.counters {
        counters.put(k, *n);
    }
    cov.put("observed", counters);
    for (k, v) in ev.extra {
        cov.put(&k, v);
    }
    if foreign > 0 {
        cov.put("violations_of_other_properties_seen", foreign as u64);
    }
    if !rep.notes.is_empty() {
        cov.put("notes", J::Arr(rep.notes.iter().map(|s| J::s(s.as_str())).collect()));
    }
    if !inconclusive.is_empty() {
        cov.put("inconclusive", J::Arr(inconclusive.iter().map(|s| J::s(s.as_str())).collect()));
    }
    if !viol_json.is_empty() {
        cov.put("violation_signatures", J::Arr(viol_json));
    }
    let evj = J::obj()
        .set("property_id", ctx.prop.as_str())
        .set("tier", if ctx.quick() { "quick" } else { "thorough" })
        .set("seed", ctx.seed)
        .set("level", ev.level)
        .set("coverage", cov)
        .set("assumptions", J::Arr(ev.assumptions.iter().map(|s| J::s(s.as_str())).collect()))
        .set("wall_s", ctx.elapsed())
        .set("violations", new_violations)
        .set("known_findings_hit", known_hits);
    if ctx.replay.is_none() && ctx.arg("no-evidence").is_none() {
        let dir = format!("{}/evidence", ctx.verif_dir);
        let _ = std::fs::create_dir_all(&dir);
        let path = format!("{}/{}.json", dir, ctx.prop);
        if let Err(e) = std::fs::write(&path, evj.pretty()) {
            eprintln!("cannot write {}: {}", path, e);
            inconclusive.push("evidence not written".into());
        }
    }
    for l in &lines {
        println!("{}", l);
    }
    let verdict = if new_violations > 0 {
        "VIOLATED"
    } else if !inconclusive.is_empty() {
        "INCONCLUSIVE"
    } else {
        "HELD"
    };
    println!(
        "{} {} tier={} seed={} evaluations={} distinct={} known_hits={} wall={:.1}s",
        verdict,
        ctx.prop,
        if ctx.quick() { "quick" } else { "thorough" },
        ctx.seed,
        rep.evaluations,
        distinct,
        known_hits,
        ctx.elapsed()
    );
    for r in &inconclusive {
        println!("INCONCLUSIVE {} reason: {}", ctx.prop, r);
    }
    if new_violations > 0 {
        1
    } else if !inconclusive.is_empty() {
        2
    } else {
        0
    }
}

/// Install a panic hook that records the message in a thread local instead of printing.
pub fn quiet_panics() {
    std::panic::set_hook(Box::new(|info| {
        let msg = if let Some(s) = info.payload().downcast_ref::<&str>() {
            s.to_string()
        } else if let Some(s) = info.payload().downcast_ref::<String>() {
            s.clone()
        } else {
            "panic".to_string()
        };
        let loc = info.location().map(|l| format!("{}:{}", l.file(), l.line())).unwrap_or_default();
        if std::thread::panicking() && CATCH_DEPTH.with(|d| d.get()) > 0 && !loc.contains("core/src/panicking.rs") {
            // a second panic while the first one (raised inside a library call) is unwinding: this
            // is the library's own Drop code panicking too, and the process is about to abort.
            // Leave a line for the driver, which turns it into a verdict.
            eprintln!("LIBRARY-DOUBLE-PANIC '{}' at {}", msg, loc);
        }
        if std::env::var_os("SDV_LOUD").is_some() {
            eprintln!("PANIC '{}' at {} (catch depth {}, already panicking: {})", msg, loc, CATCH_DEPTH.with(|d| d.get()), std::thread::panicking());
        }
        if CATCH_DEPTH.with(|d| d.get()) == 0 {
            // a panic of the harness itself: never silent
            eprintln!("HARNESS PANIC '{}' at {}", msg, loc);
        }
        LAST_PANIC.with(|p| *p.borrow_mut() = Some((msg, loc)));
    }));
}

thread_local! {
    pub static CATCH_DEPTH: std::cell::Cell<u32> = const { std::cell::Cell::new(0) };
    pub static LAST_PANIC: std::cell::RefCell<Option<(String, String)>> = const { std::cell::RefCell::new(None) };
}

pub fn take_panic() -> (String, String) {
    LAST_PANIC.with(|p| p.borrow_mut().take()).unwrap_or_else(|| ("panic".into(), String::new()))
}

/// Run `f`, turning a panic into `Err((message, file:line))`.
pub fn catch<R>(f: impl FnOnce() -> R) -> Result<R, (String, String)> {
    CATCH_DEPTH.with(|d| d.set(d.get() + 1));
    let r = std::panic::catch_unwind(std::panic::AssertUnwindSafe(f));
    CATCH_DEPTH.with(|d| d.set(d.get() - 1));
    match r {
        Ok(r) => Ok(r),
        Err(_) => Err(take_panic()),
    }
}

/// Strip a path down to the part below `src/` so signatures survive moving the repo.
pub fn short_loc(loc: &str) -> String {
    match loc.find("src/") {
        Some(i) => loc[i..].to_string(),
        None => loc.to_string(),
    }
}
