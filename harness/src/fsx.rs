//! Shared helpers for the file-system checks: tree recipes, mounting the library on an image,
//! views of library results that can be compared with the independent reader.

use crate::dev::{Disk, Image, RoDisk};
use crate::fatref::Slot;
use crate::mkfs::{name11, Alloc, Fmt, Geom, Placed};
use crate::prng::Rng;
use crate::vm::{make_vm, Clock, Fl, Nm, Vm, R};
use embedded_sdmmc::{ClusterId, DirEntry, RawDirectory, RawVolume, Timestamp, VolumeManager};
use std::cell::RefCell;
use std::rc::Rc;

/// Payload byte `pos` of write/file `tag` – a wrong byte names where it came from.
#[inline]
pub fn payload_byte(tag: u32, pos: u32) -> u8 {
    let x = (tag.wrapping_mul(0x9E37_79B1)) ^ pos.wrapping_mul(0x85EB_CA6B);
    ((x >> 13) ^ (x >> 3) ^ tag) as u8
}

pub fn payload(tag: u32, start: u32, len: usize) -> Vec<u8> {
    (0..len as u32).map(|i| payload_byte(tag, start.wrapping_add(i))).collect()
}

/// Numeric value of a ClusterId (the field is crate-private; Debug prints it).
pub fn cluster_num(c: ClusterId) -> u32 {
    if c == ClusterId::ROOT_DIR {
        return 0xFFFF_FFFC;
    }
    if c == ClusterId::EMPTY {
        return 0;
    }
    if c == ClusterId::END_OF_FILE {
        return 0xFFFF_FFFF;
    }
    if c == ClusterId::BAD {
        return 0xFFFF_FFF7;
    }
    if c == ClusterId::INVALID {
        return 0xFFFF_FFF6;
    }
    let s = format!("{:?}", c);
    let hex = s.trim_start_matches("ClusterId(").trim_end_matches(')');
    u32::from_str_radix(hex.trim(), 16).unwrap_or(0xDEAD_BEEF)
}

pub fn ts_tuple(t: &Timestamp) -> (u8, u8, u8, u8, u8, u8) {
    (t.year_since_1970, t.zero_indexed_month, t.zero_indexed_day, t.hours, t.minutes, t.seconds)
}

/// (date, time) FAT fields -> the tuple `Timestamp` should hold (tolerating month/day 0 like
/// the library documents for volume labels).
pub fn ts_from_fat(d: u16, t: u16) -> (u8, u8, u8, u8, u8, u8) {
    let mo = ((d >> 5) & 15) as u8;
    let day = (d & 31) as u8;
    (
        (10 + (d >> 9)) as u8,
        if mo == 0 { 0 } else { mo - 1 },
        if day == 0 { 0 } else { day - 1 },
        (t >> 11) as u8,
        ((t >> 5) & 63) as u8,
        (((t & 31) * 2) & 63) as u8,
    )
}

/// What the library reported for one entry, in comparable form.
#[derive(Clone, Debug, PartialEq)]
pub struct EntryView {
    pub name: [u8; 11],
    pub attr6: u8,
    pub size: u32,
    pub cluster: u32,
    pub ctime: (u8, u8, u8, u8, u8, u8),
    pub mtime: (u8, u8, u8, u8, u8, u8),
    pub blk: u32,
    pub off: u32,
}

pub fn view(e: &DirEntry) -> EntryView {
    let a = e.attributes;
    let attr6 = (a.is_read_only() as u8) | (a.is_hidden() as u8) << 1 | (a.is_system() as u8) << 2 | (a.is_volume() as u8) << 3 | (a.is_directory() as u8) << 4 | (a.is_archive() as u8) << 5;
    EntryView {
        name: crate::codec::entry::sfn_bytes(&e.name),
        attr6,
        size: e.size,
        cluster: cluster_num(e.cluster),
        ctime: ts_tuple(&e.ctime),
        mtime: ts_tuple(&e.mtime),
        blk: e.entry_block.0,
        off: e.entry_offset,
    }
}

/// What the independent reader expects the library to report for a live short slot.
pub fn view_of_slot(s: &Slot, fat32: bool) -> EntryView {
    let r = &s.raw;
    let rd = |o: usize| u16::from_le_bytes([r[o], r[o + 1]]);
    let mut cluster = s.cluster(fat32);
    if cluster == 0 && (r[11] & 0x10) != 0 {
        cluster = 0xFFFF_FFFC; // "cluster 0 on a directory entry means the root"
    }
    EntryView { name: s.name(), attr6: r[11] & 0x3F, size: s.size(), cluster, ctime: ts_from_fat(rd(16), rd(14)), mtime: ts_from_fat(rd(24), rd(22)), blk: s.blk, off: s.off }
}

pub struct Mounted {
    pub vm: Box<dyn Vm>,
    pub disk: Disk,
    pub clock: Clock,
}

pub fn mount_image(img: Image, limits: (usize, usize, usize), id_offset: u32) -> Mounted {
    let disk = Disk::new(img);
    let clock = Clock::new(0);
    let vm = make_vm(limits, disk.clone(), clock.clone(), id_offset);
    Mounted { vm, disk, clock }
}

/// A fresh default VolumeManager over a read-only view of a shared image (crash re-mounts).
pub fn mount_ro(base: Rc<RefCell<Image>>) -> (Box<dyn Vm>, RoDisk) {
    let ro = RoDisk::new(base);
    let vm: Box<dyn Vm> = Box::new(VolumeManager::<RoDisk, Clock, 4, 4, 1>::new_with_limits(ro.clone(), Clock::new(0), 100));
    (vm, ro)
}

pub fn list_dir(vm: &dyn Vm, d: RawDirectory) -> R<Vec<EntryView>> {
    let mut v = Vec::new();
    vm.iterate(Fl::Raw, d, &mut |e| v.push(view(e)))?;
    Ok(v)
}

/// Read a whole file through the library (raw API).
pub fn read_all(vm: &dyn Vm, d: RawDirectory, name: Nm, chunk: usize) -> R<Vec<u8>> {
    let f = vm.open_file(Fl::Raw, d, name, embedded_sdmmc::Mode::ReadOnly)?;
    let mut out = Vec::new();
    let mut buf = vec![0u8; chunk.max(1)];
    let res = loop {
        match vm.read(Fl::Raw, f, &mut buf) {
            Ok(0) => break Ok(()),
            Ok(n) => out.extend_from_slice(&buf[..n]),
            Err(e) => break Err(e),
        }
        if out.len() > 64 << 20 {
            break Ok(());
        }
    };
    let _ = vm.close_file(Fl::Raw, f);
    res.map(|_| out)
}

/// Open the directory named by a '/'-separated path of 8.3 names, starting from the root.
pub fn open_path(vm: &dyn Vm, vol: RawVolume, path: &str) -> R<RawDirectory> {
    let mut d = vm.open_root_dir(Fl::Raw, vol)?;
    for comp in path.split('/').filter(|c| !c.is_empty()) {
        let n = vm.open_dir(Fl::Raw, d, Nm::Str(comp));
        let _ = vm.close_dir(Fl::Raw, d);
        d = n?;
    }
    Ok(d)
}

// ---------------------------------------------------------------------------------------------
// tree recipes
// ---------------------------------------------------------------------------------------------

#[derive(Clone, Copy, Debug, PartialEq)]
pub enum Recipe {
    Empty,
    /// a handful of files and two directory levels
    Small,
    /// nested dirs, LFN entries, deleted slots, labels, RO/hidden files, fragmented chains,
    /// a multi-cluster fragmented directory
    Rich,
}

pub const SIZES_HINT: [u32; 10] = [0, 1, 511, 512, 513, 1000, 4095, 4096, 4097, 70000];

fn pick_alloc(rng: &mut Rng) -> Alloc {
    match rng.below(4) {
        0 => Alloc::Seq,
        1 => Alloc::Tail,
        _ => Alloc::Scatter,
    }
}

fn file_sizes(rng: &mut Rng, cb: u32) -> u32 {
    match rng.below(9) {
        0 => 0,
        1 => 1,
        2 => 511 + rng.below(3) as u32,
        3 => cb - 1,
        4 => cb,
        5 => cb + 1,
        6 => (2 * cb + rng.below(cb as u64) as u32).min(300_000),
        7 => (3 * cb).min(400_000),
        _ => rng.below(3000) as u32,
    }
}

pub fn populate(f: &mut Fmt, recipe: Recipe, rng: &mut Rng) {
    if recipe == Recipe::Empty {
        return;
    }
    let cb = f.g.cluster_bytes();
    let root_room = |f: &Fmt| f.dir_capacity(0).saturating_sub(f.dirs[0].used) as i64;
    let fat16_root = !f.g.fat32;
    let mut tag = 1000u32;
    let mut next_tag = || {
        tag += 1;
        tag
    };
    // root files
    let nroot = if recipe == Recipe::Small { 3 } else { 5 };
    for i in 0..nroot {
        if fat16_root && root_room(f) < 8 {
            break;
        }
        let sz = if i == 0 { 258 } else { file_sizes(rng, cb) };
        let t = next_tag();
        let how = pick_alloc(rng);
        f.add_file(0, &name11(&format!("PRE{}.DAT", i)), 0x20, &payload(t, 0, sz as usize), how);
    }
    // a multi-cluster file at the very top of the volume: its links are the highest cluster numbers
    if !fat16_root || root_room(f) >= 9 {
        let t = next_tag();
        f.add_file(0, &name11("TOP.DAT"), 0x20, &payload(t, 0, (3 * cb + 5).min(200_000) as usize), Alloc::Tail);
    }
    if recipe == Recipe::Rich && (!fat16_root || root_room(f) >= 10) {
        f.add_label(0, b"VERIFLABEL ");
        f.add_deleted(0, &name11("GONE.TXT"));
        // what a driver that knows nothing of long names leaves behind when it deletes a file:
        // the long-name fragments still live, the short entry gone
        {
            let short = name11("OLDLFN~1.TXT");
            let long: Vec<u16> = "Old long file name.txt".encode_utf16().collect();
            for s in crate::mkfs::lfn_slots(&long, &short) {
                f.put_slot(0, &s, Alloc::Seq);
            }
            f.add_deleted(0, &short);
        }
        let t = next_tag();
        f.add_file(0, &name11("RO.DAT"), 0x21, &payload(t, 0, 700), Alloc::Seq);
        let t = next_tag();
        f.add_file(0, &name11("HIDSYS.DAT"), 0x26, &payload(t, 0, cb as usize + 5), Alloc::Scatter);
        if !fat16_root || root_room(f) >= 8 {
            let long: Vec<u16> = "A long file name with \u{e9}\u{20ac} and \u{1F600}.text".encode_utf16().collect();
            let t = next_tag();
            f.add_file_lfn(0, &name11("ALONGF~1.TEX"), 0x20, &payload(t, 0, 300), Alloc::Seq, Some(&long));
        }
        // a stretch of the root where long-name runs follow each other closely, so that runs
        // straddle directory block boundaries (two neighbours straddling consecutive boundaries included)
        if !fat16_root || root_room(f) >= 100 {
            let n = 7 + rng.usize_below(4);
            for i in 0..n {
                let units = 14 + rng.usize_below(90);
                let long: Vec<u16> = format!("packed long name number {} {}", i, "x".repeat(units)).chars().take(units.max(27)).collect::<String>().encode_utf16().collect();
                let t = next_tag();
                f.add_file_lfn(0, &name11(&format!("LP{}~1.TXT", i)), 0x20, &payload(t, 0, 20 + 13 * i), Alloc::Seq, Some(&long));
            }
        }
    }
    // directories
    if fat16_root && root_room(f) < 4 {
        return;
    }
    let sub0 = f.mkdir(0, &name11("SUB0"), 0, pick_alloc(rng));
    let t = next_tag();
    f.add_file(sub0, &name11("INSUB.DAT"), 0x20, &payload(t, 0, 3500), pick_alloc(rng));
    let t = next_tag();
    f.add_file(sub0, &name11("EMPTY.DAT"), 0x20, &payload(t, 0, 0), Alloc::Seq);
    if recipe == Recipe::Rich {
        let deep = f.mkdir(sub0, &name11("DEEP"), 0, pick_alloc(rng));
        let t = next_tag();
        f.add_file(deep, &name11("LEAF.BIN"), 0x20, &payload(t, 0, (2 * cb + 17).min(200_000) as usize), Alloc::Scatter);
        f.add_deleted(sub0, &name11("OLD.TMP"));
        let long: Vec<u16> = "mixedCase.name".encode_utf16().collect();
        let t = next_tag();
        f.add_file_lfn(sub0, &name11("MIXEDC~1.NAM"), 0x20, &payload(t, 0, 64), Alloc::Seq, Some(&long));
        // a directory spanning several fragmented clusters (only affordable for small clusters)
        if f.g.spc <= 4 && (!fat16_root || root_room(f) >= 3) {
            let big = f.mkdir(0, &name11("BIGDIR"), 0, Alloc::Scatter);
            let per = f.g.spc as usize * 16;
            let want = per * 2 + 3 + rng.usize_below(per);
            for i in 0..want {
                if i % 7 == 3 {
                    f.add_deleted(big, &name11(&format!("D{}.DEL", i)));
                } else {
                    let t = next_tag();
                    let sz = if i % 5 == 0 { 600 } else { 10 + (i as u32 % 50) };
                    f.add_file(big, &name11(&format!("E{}.DAT", i)), 0x20, &payload(t, 0, sz as usize), if i % 3 == 0 { Alloc::Scatter } else { Alloc::Seq });
                }
            }
        }
    }
    if !fat16_root || root_room(f) >= 3 {
        let sub1 = f.mkdir(0, &name11("SUB1"), 0, Alloc::Seq);
        let _ = sub1;
    }
    if recipe == Recipe::Rich && (!fat16_root || root_room(f) >= 3) {
        // directories carrying other attribute bits too (read-only, hidden)
        let ro = f.mkdir(0, &name11("RODIR"), 0x01, Alloc::Seq);
        let t = next_tag();
        f.add_file(ro, &name11("INRO.DAT"), 0x20, &payload(t, 0, 100), Alloc::Seq);
        if !fat16_root || root_room(f) >= 3 {
            f.mkdir(0, &name11("HIDDIR"), 0x02, Alloc::Scatter);
        }
    }
}

pub struct Built {
    pub img: Image,
    pub g: Geom,
    pub placed: Vec<Placed>,
}

/// Format + populate + optionally leave only `leave_free` clusters.
pub fn build(g: Geom, recipe: Recipe, leave_free: Option<(u32, u32)>, rng: &mut Rng) -> Built {
    let mut f = Fmt::new(g, Rng::new(rng.next_u64()));
    populate(&mut f, recipe, rng);
    if let Some((k, which)) = leave_free {
        f.fill_leaving(k, which);
    }
    let (img, g, placed) = f.finish();
    Built { img, g, placed }
}
