//! C19 – CRC-7 / CRC-16 against independent polynomial division.
//!
//! Two independent references are used and cross-checked against each other:
//!  * `longdiv_*`: schoolbook long division of the message polynomial (as one big integer for
//!    short messages) by the generator,
//!  * `serial_*`: bit-serial division with a shift register (for long messages).

use crate::json::J;
use crate::prng::Rng;
use crate::report::{self, Ctx, Evidence, Report, Violation};
use embedded_sdmmc::sdcard::proto::{crc16, crc7};

const P7: u64 = 0b1000_1001; // x^7 + x^3 + 1
const P16: u64 = 0x1_1021; // x^16 + x^12 + x^5 + 1

/// Remainder of m(x)·x^w mod p(x), message ≤ 5 bytes, schoolbook long division on an integer.
fn longdiv(msg: &[u8], poly: u64, w: u32) -> u64 {
    let mut v: u64 = 0;
    for &b in msg {
        v = (v << 8) | b as u64;
    }
    let nbits = (msg.len() * 8) as u32;
    v <<= w;
    // eliminate from the top bit of the message downwards
    for bit in (0..nbits).rev() {
        if (v >> (bit + w)) & 1 == 1 {
            v ^= poly << bit;
        }
    }
    v
}

/// Bit-serial remainder of m(x)·x^w mod p(x) with a w-bit register, zero initial value.
fn serial(msg: &[u8], poly: u64, w: u32) -> u64 {
    let mask = (1u64 << w) - 1;
    let low = poly & mask;
    let mut r = 0u64;
    for &b in msg {
        for k in (0..8).rev() {
            let inb = ((b >> k) & 1) as u64;
            let top = (r >> (w - 1)) & 1;
            r = (r << 1) & mask;
            if top ^ inb == 1 {
                r ^= low;
            }
        }
    }
    r
}

fn ref7(msg: &[u8]) -> u8 {
    ((serial(msg, P7, 7) as u8) << 1) | 1
}
fn ref16(msg: &[u8]) -> u16 {
    serial(msg, P16, 16) as u16
}

fn viol(rule: &str, detail: &str, msg: String, m: &[u8]) -> Violation {
    let hex: String = m.iter().take(64).map(|b| format!("{:02x}", b)).collect();
    Violation::new("C19", rule, if rule.contains("crc7") { "crc7" } else { "crc16" }, detail, msg, J::obj().set("message_hex", hex).set("len", m.len()))
}

fn check_msg(m: &[u8], rep: &mut Report, detail: &str) {
    let (l7, l16) = match report::catch(|| (crc7(m), crc16(m))) {
        Ok(x) => x,
        Err((pm, loc)) => {
            rep.violate(viol("C19.crc16", "panic", format!("panic {} at {}", pm, report::short_loc(&loc)), m));
            return;
        }
    };
    let r7 = ref7(m);
    let r16 = ref16(m);
    if l7 != r7 {
        rep.violate(viol("C19.crc7", detail, format!("crc7 = {:#04x}, polynomial division gives {:#04x} (len {})", l7, r7, m.len()), m));
    }
    if l16 != r16 {
        rep.violate(viol("C19.crc16", detail, format!("crc16 = {:#06x}, polynomial division gives {:#06x} (len {})", l16, r16, m.len()), m));
    }
    // appending the big-endian checksum gives checksum zero
    let mut ext = m.to_vec();
    ext.extend_from_slice(&l16.to_be_bytes());
    let z = crc16(&ext);
    if z != 0 {
        rep.violate(viol("C19.append-zero", detail, format!("crc16(m || be(crc16(m))) = {:#06x} != 0 (len {})", z, m.len()), m));
    }
}

pub fn run(ctx: &Ctx) -> i32 {
    if ctx.arg("leg") == Some("noop") {
        return 0;
    }
    let mut total = Report::new();

    // ---- 0. the two references agree with each other and with published vectors -------------
    {
        let mut rng = Rng::from_parts(&[ctx.seed, 19, 0]);
        for _ in 0..20000 {
            let n = rng.usize_below(6);
            let mut m = vec![0u8; n];
            rng.fill(&mut m);
            if longdiv(&m, P7, 7) != serial(&m, P7, 7) || longdiv(&m, P16, 16) != serial(&m, P16, 16) {
                total.inconclusive.push("reference self-check failed (long division vs bit-serial)".into());
            }
        }
        // SD spec: CMD0 arg 0 -> 0x95, CMD8 0x1AA -> 0x87, CMD17 arg 0 -> crc7 0x2A (frame byte 0x55)
        if ref7(&[0x40, 0, 0, 0, 0]) != 0x95 || ref7(&[0x48, 0, 0, 1, 0xAA]) != 0x87 || ref7(&[0x51, 0, 0, 0, 0]) != 0x55 {
            total.inconclusive.push("CRC-7 reference does not reproduce the SD specification vectors".into());
        }
        // SD spec: 512 bytes of 0xFF -> CRC16 0x7FA1
        if ref16(&[0xFF; 512]) != 0x7FA1 || ref16(b"123456789") != 0x31C3 {
            total.inconclusive.push("CRC-16 reference does not reproduce the published vectors".into());
        }
    }

    // ---- 1. exhaustive: all messages of length 0..=3 ----------------------------------------
    // 256 work items (first byte) for lengths 3; lengths 0..2 in item 0.
    let r = report::parallel(ctx.threads, 256, |i, rep| {
        let b0 = i as u8;
        if i == 0 {
            check_msg(&[], rep, "len0");
            rep.evaluations += 1;
            rep.distinct_extra += 1;
            for a in 0..=255u8 {
                check_msg(&[a], rep, "len1");
                for b in 0..=255u8 {
                    check_msg(&[a, b], rep, "len2");
                }
            }
            rep.evaluations += 256 + 65536;
            rep.distinct_extra += 256 + 65536;
        }
        for b1 in 0..=255u8 {
            for b2 in 0..=255u8 {
                let m = [b0, b1, b2];
                // fast path: compare against long division on the integer
                let l7 = crc7(&m);
                let l16 = crc16(&m);
                let r7 = ((longdiv(&m, P7, 7) as u8) << 1) | 1;
                let r16 = longdiv(&m, P16, 16) as u16;
                if l7 != r7 || l16 != r16 {
                    check_msg(&m, rep, "len3");
                }
            }
        }
        rep.evaluations += 65536;
        rep.distinct_extra += 65536;
        rep.count("exhaustive_len_le3_messages", 65536 + if i == 0 { 1 + 256 + 65536 } else { 0 });
    });
    total.merge(r);

    // ---- 2. every (running remainder, next byte) pair is reached by the 2-byte prefixes ------
    {
        let mut seen16 = vec![false; 65536];
        let mut seen7 = [false; 128];
        for a in 0..=255u8 {
            for b in 0..=255u8 {
                seen16[ref16(&[a, b]) as usize] = true;
                seen7[(ref7(&[a, b]) >> 1) as usize] = true;
            }
        }
        let n16 = seen16.iter().filter(|x| **x).count() as u64;
        let n7 = seen7.iter().filter(|x| **x).count() as u64;
        total.count("crc16_remainders_reached_by_2byte_prefixes", n16);
        total.count("crc7_remainders_reached_by_2byte_prefixes", n7);
        if n16 != 65536 || n7 != 128 {
            total.inconclusive.push("2-byte prefixes do not reach every remainder".into());
        }
    }

    // ---- 2b. long messages: lengths around every power of two up to 2^18 (a length or index
    // counter narrower than usize shows here and nowhere else)
    {
        let mut lens: Vec<usize> = Vec::new();
        for p in 8..=18u32 {
            for d in [-1i64, 0, 1, 7] {
                lens.push(((1i64 << p) + d) as usize);
            }
        }
        lens.extend_from_slice(&[3000, 4096 + 512, 70_000, 100_001, 200_000]);
        let r = report::parallel(ctx.threads, lens.len(), |i, rep| {
            let n = lens[i];
            let mut rng = Rng::from_parts(&[ctx.seed, 19, 0x10_0000 + n as u64]);
            let mut m = vec![0u8; n];
            rng.fill(&mut m);
            check_msg(&m, rep, "long");
            // ... and an all-zero body with one set bit near the front: a dropped prefix is fatal
            let mut z = vec![0u8; n];
            z[0] = 0x80;
            check_msg(&z, rep, "long");
            rep.count("long_messages", 2);
            rep.max("max_message_length", n as u64);
        });
        total.merge(r);
    }

    // ---- 3. single-bit basis messages of lengths 5, 16, 512, 514 -----------------------------
    let lens = [5usize, 16, 512, 514];
    let r = report::parallel(ctx.threads, lens.len(), |i, rep| {
        let n = lens[i];
        for bit in 0..n * 8 {
            let mut m = vec![0u8; n];
            m[bit / 8] = 0x80 >> (bit % 8);
            check_msg(&m, rep, "basis");
            rep.evaluations += 1;
            rep.distinct_extra += 1;
        }
        rep.count("basis_messages", (n * 8) as u64);
    });
    total.merge(r);

    // ---- 4. random messages up to 2 KiB -------------------------------------------------------
    let nrand = ctx.pick(40_000usize, 1_000_000usize);
    let chunks = 64usize;
    let r = report::parallel(ctx.threads, chunks, |i, rep| {
        let mut rng = Rng::from_parts(&[ctx.seed, 19, 4, i as u64]);
        for k in 0..nrand / chunks {
            let n = match rng.below(6) {
                0 => rng.usize_below(8),
                1 => 5,
                2 => 16,
                3 => 512 + rng.usize_below(4),
                _ => rng.usize_below(2049),
            };
            let mut m = vec![0u8; n];
            match rng.below(4) {
                0 => {
                    // sparse
                    for _ in 0..rng.usize_below(4) {
                        if n > 0 {
                            let p = rng.usize_below(n);
                            m[p] = rng.next_u32() as u8;
                        }
                    }
                }
                1 => m.iter_mut().for_each(|b| *b = 0xFF),
                _ => rng.fill(&mut m),
            }
            check_msg(&m, rep, "random");
            rep.evaluations += 1;
            rep.distinct.insert(crate::prng::hash_bytes(&m) ^ n as u64);
            if i == 0 && k < 2 {
                let hex: String = m.iter().take(24).map(|b| format!("{:02x}", b)).collect();
                rep.samples.push(
                    J::obj()
                        .set("kind", "random message")
                        .set("len", n)
                        .set("first_bytes_hex", hex)
                        .set("crc7", format!("{:#04x}", crc7(&m)))
                        .set("crc16", format!("{:#06x}", crc16(&m)))
                        .set("reference_crc7", format!("{:#04x}", ref7(&m)))
                        .set("reference_crc16", format!("{:#06x}", ref16(&m))),
                );
            }
        }
        rep.count("random_messages", (nrand / chunks) as u64);
    });
    total.merge(r);

    // ---- 5. linearity of the library's crc16 (zero init => linear), on random pairs ----------
    let npairs = ctx.pick(100_000usize, 1_000_000usize);
    let r = report::parallel(ctx.threads, 32, |i, rep| {
        let mut rng = Rng::from_parts(&[ctx.seed, 19, 5, i as u64]);
        for _ in 0..npairs / 32 {
            let big = rng.chance(1, 8);
            let n = 1 + rng.usize_below(if big { 514 } else { 40 });
            let mut a = vec![0u8; n];
            let mut b = vec![0u8; n];
            rng.fill(&mut a);
            rng.fill(&mut b);
            let x: Vec<u8> = a.iter().zip(b.iter()).map(|(p, q)| p ^ q).collect();
            if crc16(&x) != crc16(&a) ^ crc16(&b) {
                rep.violate(viol("C19.crc16", "linearity", format!("crc16(a^b) != crc16(a)^crc16(b) at len {}", n), &x));
            }
            rep.evaluations += 1;
        }
        rep.count("linearity_pairs", (npairs / 32) as u64);
    });
    total.merge(r);

    // ---- 6. error detection in a 512+2 byte frame ---------------------------------------------
    // basis remainders from the LIBRARY: frame with exactly one bit set.
    const FR: usize = 514;
    let mut basis = vec![0u16; FR * 8];
    for bit in 0..FR * 8 {
        let mut m = vec![0u8; FR];
        m[bit / 8] = 0x80 >> (bit % 8);
        basis[bit] = crc16(&m);
    }
    {
        let mut seen = std::collections::HashMap::new();
        for (bit, &r) in basis.iter().enumerate() {
            if r == 0 {
                total.violate(viol("C19.undetected", "single-bit", format!("single-bit error at bit {} of a 514-byte frame leaves crc16 unchanged", bit), &[]));
            }
            if let Some(prev) = seen.insert(r, bit) {
                total.violate(viol("C19.undetected", "double-bit", format!("double-bit error at bits {} and {} leaves crc16 unchanged", prev, bit), &[]));
            }
        }
        total.evaluations += (FR * 8) as u64;
        total.count("single_bit_errors_checked", (FR * 8) as u64);
        total.count("double_bit_errors_covered_by_pairwise_distinct_basis", ((FR * 8) * (FR * 8 - 1) / 2) as u64);
    }
    // bursts: every non-zero 16-bit pattern at every start position, by linearity of the basis;
    // a sample of them re-evaluated directly with the library.
    let direct_per_pos = ctx.pick(8u64, 256u64);
    let basis_ref = &basis;
    let r = report::parallel(ctx.threads, FR * 8, |start, rep| {
        let mut rng = Rng::from_parts(&[ctx.seed, 19, 6, start as u64]);
        let avail = (FR * 8 - start).min(16);
        let npat: u32 = 1 << avail;
        for pat in 1..npat {
            // bit k of the burst (k = 0 is the first bit) = bit (avail-1-k) of pat
            let mut r16 = 0u16;
            for k in 0..avail {
                if (pat >> (avail - 1 - k)) & 1 == 1 {
                    r16 ^= basis_ref[start + k];
                }
            }
            if r16 == 0 {
                rep.violate(viol("C19.undetected", "burst", format!("burst pattern {:#x} ({} bits) at bit {} leaves crc16 unchanged", pat, avail, start), &[]));
            }
        }
        rep.count("burst_patterns_by_linearity", (npat - 1) as u64);
        for _ in 0..direct_per_pos {
            let pat = 1 + rng.below((npat - 1) as u64) as u32;
            let mut m = vec![0u8; FR];
            for k in 0..avail {
                if (pat >> (avail - 1 - k)) & 1 == 1 {
                    let bit = start + k;
                    m[bit / 8] |= 0x80 >> (bit % 8);
                }
            }
            let c = crc16(&m);
            if c == 0 || c != ref16(&m) {
                rep.violate(viol("C19.undetected", "burst-direct", format!("burst {:#x} at bit {}: crc16 = {:#06x}, reference {:#06x}", pat, start, c, ref16(&m)), &m));
            }
            rep.evaluations += 1;
        }
        rep.count("burst_patterns_direct", direct_per_pos);
    });
    total.merge(r);

    total.samples.insert(
        0,
        J::obj()
            .set("kind", "exhaustive enumeration")
            .set("what", "every byte string of length 0,1,2,3 compared: library crc7/crc16 vs long division by x^7+x^3+1 / x^16+x^12+x^5+1")
            .set("example", "crc7([0x40,0,0,0,0]) = 0x95, crc16(9 x '1'..'9') = 0x31c3"),
    );

    report::finish(
        ctx,
        total,
        Evidence {
            level: "exploration",
            rule: "cases = byte strings fed to crc7 and crc16; all strings of length 0..=3 are enumerated exhaustively (distinct by construction), plus every single-bit message of lengths 5/16/512/514, random strings up to 2 KiB (distinct by content hash), random linearity pairs, and all single-bit, double-bit and <=16-bit burst error patterns of a 514-byte frame; every case is non-trivial (each is a separate comparison against an independent polynomial division)".into(),
            assumptions: vec![
                "the two hand-written reference dividers (schoolbook long division and bit-serial) are correct; they are cross-checked against each other and against the SD specification's published vectors on every run".into(),
                "burst coverage over 514-byte frames uses linearity of the library's crc16, which is itself checked on random pairs in the same run".into(),
            ],
            exhaustive: Some(true),
            extra: vec![("exhaustive_scope".into(), J::s("all messages of length 0..=3; all single/double-bit and <=16-bit burst errors in a 514-byte frame"))],
            min_distinct: 1000,
            min_counters: vec![],
        },
    )
}
