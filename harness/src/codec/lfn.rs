//! C17 – long-file-name decoding: unit level (LfnBuffer) here, directory level in `lfn_dir`.

use crate::json::J;
use crate::prng::Rng;
use crate::report::{self, Ctx, Evidence, Report, Violation};
use embedded_sdmmc::LfnBuffer;

pub type Frag = [u16; 13];

/// Reference: fragments are pushed last-first; the name is the fragments in reverse push order,
/// each cut at its first NUL, decoded lossily by the standard library.
pub fn ref_units(pushed: &[Frag]) -> Vec<u16> {
    let mut units = Vec::new();
    for f in pushed.iter().rev() {
        let cut = f.iter().position(|&u| u == 0).unwrap_or(13);
        units.extend_from_slice(&f[..cut]);
    }
    units
}
pub fn ref_name(pushed: &[Frag]) -> String {
    String::from_utf16_lossy(&ref_units(pushed))
}

fn is_high(u: u16) -> bool {
    (0xD800..0xDC00).contains(&u)
}
fn is_low(u: u16) -> bool {
    (0xDC00..0xE000).contains(&u)
}

/// Class of an input, used as the discriminating detail in signatures.
pub fn classify(pushed: &[Frag]) -> String {
    let units = ref_units(pushed);
    let mut c = Vec::new();
    if let Some(&u0) = units.first() {
        let unpaired = is_low(u0) || (is_high(u0) && !units.get(1).map(|&x| is_low(x)).unwrap_or(false));
        if unpaired {
            c.push("name starts with an unpaired surrogate");
        }
    }
    // a fragment with 13 decodable units followed (in name order) by a fragment starting with an
    // unpaired surrogate that cannot pair with it
    for w in 0..pushed.len() {
        let f = &pushed[w];
        let cut = f.iter().position(|&u| u == 0).unwrap_or(13);
        if cut == 13 && w > 0 {
            let nxt = &pushed[w - 1]; // pushed earlier = later in the name
            let n0 = nxt[0];
            let carried = n0 != 0 && (is_low(n0) || (is_high(n0) && !is_low(nxt[1])));
            if carried {
                c.push("full 13-unit fragment receives a carried surrogate");
                break;
            }
        }
    }
    if c.is_empty() {
        "other".into()
    } else {
        c.join(" + ")
    }
}

fn frag_hex(pushed: &[Frag]) -> J {
    J::Arr(pushed.iter().map(|f| J::s(f.iter().map(|u| format!("{:04x}", u)).collect::<Vec<_>>().join(" "))).collect())
}

/// One unit-level case: push `pushed` (in push order) into a buffer of `size` bytes.
/// Returns true when a violation was recorded.
pub fn unit_case(pushed: &[Frag], size: usize, storage: &mut [u8], rep: &mut Report) -> bool {
    let want_full = ref_name(pushed);
    let want: &str = if want_full.len() <= size { &want_full } else { "" };
    let case = || J::obj().set("fragments_in_push_order", frag_hex(pushed)).set("buffer_size", size);
    let r = report::catch(|| {
        let mut b = LfnBuffer::new(&mut storage[..size]);
        for f in pushed {
            b.push(f);
        }
        let s = b.as_str();
        (s.as_bytes().to_vec(), s.len())
    });
    match r {
        Err((pm, loc)) => {
            let l = report::short_loc(&loc);
            let file = l.split(':').next().unwrap_or("").to_string();
            rep.violate(Violation::new(
                "C17",
                "C17.panic",
                "LfnBuffer::push",
                &format!("{} [{}]", file, classify(pushed)),
                format!("panic '{}' at {} ({} fragments, buffer {} bytes)", pm, l, pushed.len(), size),
                case(),
            ));
            true
        }
        Ok((bytes, _)) => {
            match std::str::from_utf8(&bytes) {
                Err(e) => {
                    rep.violate(Violation::new("C17", "C17.utf8", "LfnBuffer::as_str", &classify(pushed), format!("as_str() is not valid UTF-8: {} ({:02x?})", e, &bytes[..bytes.len().min(32)]), case()));
                    true
                }
                Ok(got) => {
                    if got != want {
                        let rule = if want.is_empty() && want_full.len() > size { "C17.not-empty-on-overflow" } else { "C17.text" };
                        rep.violate(Violation::new(
                            "C17",
                            rule,
                            "LfnBuffer::push/as_str",
                            &classify(pushed),
                            format!("decoded {:?}, lossy UTF-16 decoding of the joined fragments gives {:?} (needs {} bytes, buffer {})", got, want, want_full.len(), size),
                            case(),
                        ));
                        true
                    } else {
                        false
                    }
                }
            }
        }
    }
}

const CLASSES: [u16; 7] = [0x0061, 0x00E9, 0x20AC, 0xFFFF, 0xD83D, 0xDE00, 0x0000];
const POS4: [usize; 4] = [0, 1, 11, 12];

fn sizes_for(fit: usize) -> Vec<usize> {
    let mut v = vec![0, 1, 2, 3, 4, fit.saturating_sub(1), fit, fit + 1, 780];
    v.sort();
    v.dedup();
    v.retain(|&s| s <= 780);
    v
}

pub fn run(ctx: &Ctx) -> i32 {
    if ctx.arg("leg") == Some("mini") {
        return run_mini(ctx);
    }
    let mut total = Report::new();

    // ---- 1. one fragment: classes at positions {0,1,11,12}, every buffer size in the list ----
    let r = report::parallel(ctx.threads, 7 * 7, |i, rep| {
        let mut storage = vec![0u8; 800];
        for c in 0..49 {
            let cls = [CLASSES[i / 7], CLASSES[i % 7], CLASSES[c / 7], CLASSES[c % 7]];
            let mut f: Frag = [0x0078; 13];
            for (k, &p) in POS4.iter().enumerate() {
                f[p] = cls[k];
            }
            let fit = ref_name(&[f]).len();
            for s in sizes_for(fit) {
                unit_case(&[f], s, &mut storage, rep);
                rep.evaluations += 1;
            }
            rep.distinct_extra += 1;
        }
        rep.count("one_fragment_patterns", 49);
    });
    total.merge(r);

    // ---- 2. two fragments: 7^8 class patterns at positions {0,1,11,12} of both ----------------
    let r = report::parallel(ctx.threads, 7usize.pow(4), |i, rep| {
        let mut storage = vec![0u8; 800];
        let a = [CLASSES[i / 343], CLASSES[(i / 49) % 7], CLASSES[(i / 7) % 7], CLASSES[i % 7]];
        let mut f1: Frag = [0x0079; 13]; // pushed first = last in name
        for (k, &p) in POS4.iter().enumerate() {
            f1[p] = a[k];
        }
        for j in 0..7usize.pow(4) {
            let b = [CLASSES[j / 343], CLASSES[(j / 49) % 7], CLASSES[(j / 7) % 7], CLASSES[j % 7]];
            let mut f2: Frag = [0x0078; 13];
            for (k, &p) in POS4.iter().enumerate() {
                f2[p] = b[k];
            }
            let pushed = [f1, f2];
            let fit = ref_name(&pushed).len();
            let all_sizes = (i * 2401 + j) % 61 == (ctx.seed % 61) as usize;
            if all_sizes {
                for s in sizes_for(fit) {
                    unit_case(&pushed, s, &mut storage, rep);
                    rep.evaluations += 1;
                }
            } else {
                unit_case(&pushed, fit, &mut storage, rep);
                unit_case(&pushed, 780, &mut storage, rep);
                rep.evaluations += 2;
            }
            rep.distinct_extra += 1;
        }
        rep.count("two_fragment_patterns", 2401);
    });
    total.merge(r);

    // ---- 3. three fragments: classes at positions {0,12} of each (7^6) ------------------------
    let r = report::parallel(ctx.threads, 49, |i, rep| {
        let mut storage = vec![0u8; 800];
        for j in 0..2401usize {
            let cl = [CLASSES[i / 7], CLASSES[i % 7], CLASSES[j / 343], CLASSES[(j / 49) % 7], CLASSES[(j / 7) % 7], CLASSES[j % 7]];
            let mut fs: [Frag; 3] = [[0x007A; 13], [0x0079; 13], [0x0078; 13]];
            for k in 0..3 {
                fs[k][0] = cl[2 * k];
                fs[k][12] = cl[2 * k + 1];
            }
            let fit = ref_name(&fs).len();
            for s in [fit, fit.saturating_sub(1), 780] {
                unit_case(&fs, s, &mut storage, rep);
                rep.evaluations += 1;
            }
            rep.distinct_extra += 1;
        }
        rep.count("three_fragment_patterns", 2401);
    });
    total.merge(r);

    // ---- 4. buffer-size sweep 0..=780 for a sample of names ------------------------------------
    let nsweep = ctx.pick(24usize, 400usize);
    let r = report::parallel(ctx.threads, nsweep, |i, rep| {
        let mut rng = Rng::from_parts(&[ctx.seed, 17, 4, i as u64]);
        let mut storage = vec![0u8; 800];
        let n = 1 + rng.usize_below(20);
        let pushed = random_frags(&mut rng, n);
        for s in 0..=780usize {
            unit_case(&pushed, s, &mut storage, rep);
            rep.evaluations += 1;
        }
        rep.distinct.insert(hash_frags(&pushed));
        rep.count("size_sweeps", 1);
    });
    total.merge(r);

    // ---- 5. random sequences of 1..20 fragments of arbitrary u16 values ------------------------
    let nrand = ctx.pick(200_000usize, 10_000_000usize);
    let r = report::parallel(ctx.threads, 64, |i, rep| {
        let mut rng = Rng::from_parts(&[ctx.seed, 17, 5, i as u64]);
        let mut storage = vec![0u8; 800];
        for k in 0..nrand / 64 {
            let n = 1 + rng.usize_below(20);
            let pushed = random_frags(&mut rng, n);
            let fit = ref_name(&pushed).len();
            let size = match rng.below(6) {
                0 => fit,
                1 => fit.saturating_sub(1 + rng.usize_below(4)),
                2 => rng.usize_below(781),
                3 => 0,
                _ => 780,
            }
            .min(780);
            let bad = unit_case(&pushed, size, &mut storage, rep);
            rep.evaluations += 1;
            rep.distinct.insert(hash_frags(&pushed) ^ size as u64);
            if i == 0 && k < 3 && !bad {
                rep.samples.push(
                    J::obj()
                        .set("kind", "unit-level fragment sequence")
                        .set("fragments_in_push_order", frag_hex(&pushed))
                        .set("buffer_size", size)
                        .set("reference_decoding", ref_name(&pushed)),
                );
            }
        }
        rep.count("random_sequences", (nrand / 64) as u64);
    });
    total.merge(r);

    // ---- 6. buffer reuse: clear() then a second name behaves like a fresh buffer ----------------
    let r = report::parallel(ctx.threads, 16, |i, rep| {
        let mut rng = Rng::from_parts(&[ctx.seed, 17, 6, i as u64]);
        for _ in 0..ctx.pick(2000, 50_000) {
            let na = 1 + rng.usize_below(4);
            let nb = 1 + rng.usize_below(4);
            let a = random_frags(&mut rng, na);
            let b = random_frags(&mut rng, nb);
            let size = rng.usize_below(200);
            let mut st = vec![0u8; size];
            let want_full = ref_name(&b);
            let want = if want_full.len() <= size { want_full.clone() } else { String::new() };
            let r = report::catch(|| {
                let mut buf = LfnBuffer::new(&mut st);
                for f in &a {
                    buf.push(f);
                }
                buf.clear();
                for f in &b {
                    buf.push(f);
                }
                buf.as_str().to_string()
            });
            rep.evaluations += 1;
            match r {
                Ok(got) if got == want => {}
                Ok(got) => {
                    // only report here when the fresh-buffer run is right (otherwise case 5 reports it)
                    let mut st2 = vec![0u8; size];
                    let fresh = report::catch(|| {
                        let mut buf = LfnBuffer::new(&mut st2);
                        for f in &b {
                            buf.push(f);
                        }
                        buf.as_str().to_string()
                    });
                    if fresh.as_deref().ok() == Some(want.as_str()) {
                        rep.violate(Violation::new("C17", "C17.text", "LfnBuffer::clear", "state survives clear()", format!("after clear(): {:?}, fresh buffer: {:?}", got, want), J::obj().set("first", frag_hex(&a)).set("second", frag_hex(&b)).set("buffer_size", size)));
                    }
                }
                Err(_) => {}
            }
        }
        rep.count("reuse_cases", ctx.pick(2000, 50_000));
    });
    total.merge(r);

    // ---- 7. directory level (iterate_dir_lfn over crafted directories) -------------------------
    crate::codec::lfn_dir::run_into(ctx, &mut total);

    report::finish(
        ctx,
        total,
        Evidence {
            level: "exploration",
            rule: "unit level: a case is (sequence of 13-unit fragments in push order, buffer size); the code-unit classes {ASCII, 2-byte, 3-byte, 0xFFFF, high surrogate, low surrogate, NUL} are enumerated exhaustively at positions 0,1,11,12 of one and two fragments and 0,12 of three fragments (distinct by construction), plus random sequences of 1..20 arbitrary fragments (distinct by content hash) and full buffer-size sweeps 0..=780; directory level: a case is one generated directory (slot sequence) listed with iterate_dir_lfn on FAT16 or FAT32; a case is non-trivial when at least one fragment is decoded".into(),
            assumptions: vec![
                "std's String::from_utf16_lossy is the reference decoder; the name is the fragments in reverse push order, each cut at its first NUL".into(),
                "directory level: a long name is demanded only for well-formed runs of at most 19 fragments that fit the buffer (documented behaviour); 'Some(name) only for a complete matching run' is demanded unconditionally".into(),
            ],
            exhaustive: None,
            extra: vec![],
            min_distinct: 1000,
            min_counters: vec![],
        },
    )
}

/// Reduced unit-level workload for the Miri / sanitizer legs (argv: --leg mini --n N).
fn run_mini(ctx: &Ctx) -> i32 {
    let mut rep = Report::new();
    let n = ctx.arg_u64("n").unwrap_or(200) as usize;
    let mut rng = Rng::from_parts(&[ctx.seed, 17, 99]);
    let mut storage = vec![0u8; 800];
    let shard = ctx.arg_u64("shard").unwrap_or(0) as usize;
    let shards = ctx.arg_u64("shards").unwrap_or(1).max(1) as usize;
    rng = Rng::from_parts(&[ctx.seed, 17, 99, shard as u64]);
    // boundary patterns first (split over the shards)
    for i in (0..49usize).filter(|i| i % shards == shard) {
        let mut f1: Frag = [0x0079; 13];
        let mut f2: Frag = [0x0078; 13];
        f1[0] = CLASSES[i / 7];
        f2[12] = CLASSES[i % 7];
        let pushed = [f1, f2];
        let fit = ref_name(&pushed).len();
        for s in [0, fit.saturating_sub(1), fit, 780] {
            unit_case(&pushed, s, &mut storage, &mut rep);
            rep.evaluations += 1;
        }
        rep.distinct_extra += 1;
    }
    for _ in 0..n {
        let k = 1 + rng.usize_below(6);
        let pushed = random_frags(&mut rng, k);
        let fit = ref_name(&pushed).len();
        let size = if rng.chance(1, 2) { fit } else { rng.usize_below(200) };
        unit_case(&pushed, size.min(780), &mut storage, &mut rep);
        rep.evaluations += 1;
        rep.distinct.insert(hash_frags(&pushed));
    }
    for v in &rep.violations {
        println!("MINI-VIOLATION {} :: {}", v.sig, v.msg);
    }
    println!("MINI-DONE evaluations={} violations={}", rep.evaluations, rep.violations.len());
    if rep.violations.is_empty() {
        0
    } else {
        1
    }
}

pub fn hash_frags(p: &[Frag]) -> u64 {
    let mut h = 0u64;
    for f in p {
        for &u in f {
            h = crate::prng::mix(&[h, u as u64]);
        }
    }
    h
}

pub fn random_unit(rng: &mut Rng) -> u16 {
    match rng.below(12) {
        0 => 0,
        1 => 0xD800 + rng.below(0x400) as u16,
        2 => 0xDC00 + rng.below(0x400) as u16,
        3 => 0xFFFF,
        4 => rng.next_u32() as u16,
        5 => 0x80 + rng.below(0x780) as u16,
        6 => 0x800 + rng.below(0xD000) as u16,
        _ => 0x20 + rng.below(0x5F) as u16,
    }
}

pub fn random_frags(rng: &mut Rng, n: usize) -> Vec<Frag> {
    let mut v = Vec::with_capacity(n);
    let style = rng.below(4);
    for _ in 0..n {
        let mut f: Frag = [0; 13];
        for u in f.iter_mut() {
            *u = match style {
                0 => rng.next_u32() as u16,
                1 => {
                    // mostly text, NUL rare
                    let x = random_unit(rng);
                    if x == 0 && rng.chance(3, 4) {
                        0x41
                    } else {
                        x
                    }
                }
                2 => *rng.pick(&[0xD83D, 0xDE00, 0x0041, 0xFFFF, 0xD800, 0xDFFF]),
                _ => random_unit(rng),
            };
        }
        v.push(f);
    }
    v
}
