//! C18 – directory-entry, timestamp and 8.3-name codecs against independent encoders/decoders.

use crate::cal;
use crate::json::J;
use crate::prng::Rng;
use crate::report::{self, Ctx, Evidence, Report, Violation};
use embedded_sdmmc::fat::{FatType, OnDiskDirEntry};
use embedded_sdmmc::{BlockIdx, ClusterId, DirEntry, ShortFileName, Timestamp};

/// The 11 raw bytes of a short file name (public API gives no direct accessor; the volume-label
/// view returns the contents with trailing ASCII whitespace trimmed, which we pad back).
pub fn sfn_bytes(n: &ShortFileName) -> [u8; 11] {
    // The function is `unsafe` only as an API-contract marker (labels may hold characters names
    // may not); it performs a plain move of the 11 bytes.
    let v = unsafe { n.clone().to_volume_label() };
    let t = v.name();
    let mut out = [b' '; 11];
    out[..t.len()].copy_from_slice(t);
    out
}

fn v(rule: &str, call: &str, detail: &str, msg: String, case: J) -> Violation {
    Violation::new("C18", rule, call, detail, msg, case)
}

// ---------------------------------------------------------------------------------------------
// (a) timestamps
// ---------------------------------------------------------------------------------------------

#[inline]
fn ts_fields_valid(d: u16, t: u16) -> bool {
    let mo = (d >> 5) & 15;
    let day = d & 31;
    let h = t >> 11;
    let mi = (t >> 5) & 63;
    let s2 = t & 31;
    (1..=12).contains(&mo) && (1..=31).contains(&day) && h <= 23 && mi <= 59 && s2 <= 29
}

/// Returns a description of the first discrepancy for the pair, if any.
#[inline]
fn ts_check(d: u16, t: u16) -> Option<(&'static str, String)> {
    let ts = Timestamp::from_fat(d, t);
    if !ts_fields_valid(d, t) {
        return None; // only totality (no panic) is demanded here
    }
    let y = 1980 + (d >> 9) as u32;
    let exp = (
        (y - 1970) as u8,
        (((d >> 5) & 15) - 1) as u8,
        ((d & 31) - 1) as u8,
        (t >> 11) as u8,
        ((t >> 5) & 63) as u8,
        ((t & 31) * 2) as u8,
    );
    let got = (ts.year_since_1970, ts.zero_indexed_month, ts.zero_indexed_day, ts.hours, ts.minutes, ts.seconds);
    if got != exp {
        return Some(("decode", format!("from_fat(date={:#06x}, time={:#06x}) = {:?}, FAT layout says {:?}", d, t, got, exp)));
    }
    let b = ts.serialize_to_fat();
    let want = [t as u8, (t >> 8) as u8, d as u8, (d >> 8) as u8];
    if b != want {
        return Some(("encode", format!("serialize_to_fat(from_fat(date={:#06x}, time={:#06x})) = {:02x?}, expected {:02x?}", d, t, b, want)));
    }
    None
}

fn ts_range(dates: &[u16], times: &[u16], rep: &mut Report) {
    // run the whole slab under one catch; on panic, bisect element-wise
    let res = report::catch(|| {
        let mut first: Option<(u16, u16, &'static str, String)> = None;
        let mut bad = 0u64;
        for &d in dates {
            for &t in times {
                if let Some((k, m)) = ts_check(d, t) {
                    bad += 1;
                    if first.is_none() {
                        first = Some((d, t, k, m));
                    }
                }
            }
        }
        (first, bad)
    });
    match res {
        Ok((None, _)) => {}
        Ok((Some((d, t, k, m)), bad)) => {
            rep.count("ts_pairs_wrong", bad);
            rep.violate(v("C18.ts-roundtrip", "Timestamp::from_fat/serialize_to_fat", k, m, J::obj().set("date", d as u64).set("time", t as u64)));
        }
        Err(_) => {
            for &d in dates {
                for &t in times {
                    if let Err((pm, loc)) = report::catch(|| ts_check(d, t)) {
                        rep.violate(v(
                            "C18.ts-panic",
                            "Timestamp::from_fat",
                            &report::short_loc(&loc),
                            format!("panic '{}' for date={:#06x} time={:#06x}", pm, d, t),
                            J::obj().set("date", d as u64).set("time", t as u64),
                        ));
                        return;
                    }
                }
            }
        }
    }
}

// ---------------------------------------------------------------------------------------------
// (b) entry codec
// ---------------------------------------------------------------------------------------------

#[derive(Clone, Debug)]
pub struct RawFields {
    pub name: [u8; 11],
    pub attr: u8,
    pub cdate: u16,
    pub ctime: u16,
    pub mdate: u16,
    pub mtime: u16,
    pub cluster: u32,
    pub size: u32,
}

/// Independent encoder, straight from the FAT specification's directory-entry table.
pub fn enc_entry(f: &RawFields, fat32: bool) -> [u8; 32] {
    let mut b = [0u8; 32];
    b[0..11].copy_from_slice(&f.name); // DIR_Name
    b[11] = f.attr; // DIR_Attr
    b[12] = 0; // DIR_NTRes
    b[13] = 0; // DIR_CrtTimeTenth
    b[14..16].copy_from_slice(&f.ctime.to_le_bytes()); // DIR_CrtTime
    b[16..18].copy_from_slice(&f.cdate.to_le_bytes()); // DIR_CrtDate
    b[18..20].copy_from_slice(&[0, 0]); // DIR_LstAccDate
    let hi = if fat32 { (f.cluster >> 16) as u16 } else { 0 };
    b[20..22].copy_from_slice(&hi.to_le_bytes()); // DIR_FstClusHI
    b[22..24].copy_from_slice(&f.mtime.to_le_bytes()); // DIR_WrtTime
    b[24..26].copy_from_slice(&f.mdate.to_le_bytes()); // DIR_WrtDate
    b[26..28].copy_from_slice(&(f.cluster as u16).to_le_bytes()); // DIR_FstClusLO
    b[28..32].copy_from_slice(&f.size.to_le_bytes()); // DIR_FileSize
    b
}

fn ts_tuple(ts: &Timestamp) -> (u8, u8, u8, u8, u8, u8) {
    (ts.year_since_1970, ts.zero_indexed_month, ts.zero_indexed_day, ts.hours, ts.minutes, ts.seconds)
}
fn ts_expect(d: u16, t: u16) -> (u8, u8, u8, u8, u8, u8) {
    (
        (10 + (d >> 9)) as u8,
        (((d >> 5) & 15) - 1) as u8,
        ((d & 31) - 1) as u8,
        (t >> 11) as u8,
        ((t >> 5) & 63) as u8,
        ((t & 31) * 2) as u8,
    )
}

fn attr_bits(e: &DirEntry) -> u8 {
    let a = e.attributes;
    (a.is_read_only() as u8)
        | (a.is_hidden() as u8) << 1
        | (a.is_system() as u8) << 2
        | (a.is_volume() as u8) << 3
        | (a.is_directory() as u8) << 4
        | (a.is_archive() as u8) << 5
}

fn entry_case(f: &RawFields, fat32: bool, rep: &mut Report) {
    let ft = if fat32 { FatType::Fat32 } else { FatType::Fat16 };
    let raw = enc_entry(f, fat32);
    let blk = 0x1234_5600u32 ^ f.size;
    let off = ((f.attr as u32) % 16) * 32;
    let case = || {
        J::obj()
            .set("fat32", fat32)
            .set("raw_hex", raw.iter().map(|b| format!("{:02x}", b)).collect::<String>())
    };
    let r = report::catch(|| {
        let e = OnDiskDirEntry::new(&raw).get_entry(ft, BlockIdx(blk), off);
        let s = e.verif_serialize(ft);
        (e, s)
    });
    let (e, ser) = match r {
        Ok(x) => x,
        Err((pm, loc)) => {
            rep.violate(v("C18.entry-roundtrip", "get_entry/serialize", "panic", format!("panic '{}' at {}", pm, report::short_loc(&loc)), case()));
            return;
        }
    };
    // ---- decode side
    let visible_cluster = if fat32 { f.cluster } else { f.cluster & 0xFFFF };
    let expect_cluster = if visible_cluster == 0 && (f.attr & 0x10) != 0 { ClusterId::ROOT_DIR } else { ClusterId::EMPTY + visible_cluster };
    let mut bad = Vec::new();
    if sfn_bytes(&e.name) != f.name && !f.name.ends_with(&[b'\t']) {
        bad.push(format!("name {:02x?} != {:02x?}", sfn_bytes(&e.name), f.name));
    }
    if attr_bits(&e) != f.attr & 0x3F {
        bad.push(format!("attribute bits {:#04x} != {:#04x}", attr_bits(&e), f.attr & 0x3F));
    }
    if e.cluster != expect_cluster {
        bad.push(format!("cluster {:?} != {:?}", e.cluster, expect_cluster));
    }
    if e.size != f.size {
        bad.push(format!("size {} != {}", e.size, f.size));
    }
    if ts_tuple(&e.ctime) != ts_expect(f.cdate, f.ctime) {
        bad.push(format!("ctime {:?} != {:?}", ts_tuple(&e.ctime), ts_expect(f.cdate, f.ctime)));
    }
    if ts_tuple(&e.mtime) != ts_expect(f.mdate, f.mtime) {
        bad.push(format!("mtime {:?} != {:?}", ts_tuple(&e.mtime), ts_expect(f.mdate, f.mtime)));
    }
    if e.entry_block != BlockIdx(blk) || e.entry_offset != off {
        bad.push("entry_block/entry_offset not echoed".to_string());
    }
    if !bad.is_empty() {
        rep.violate(v(
            "C18.entry-roundtrip",
            "OnDiskDirEntry::get_entry",
            if fat32 { "decode fat32" } else { "decode fat16" },
            format!("decoding an independently encoded slot: {}", bad.join("; ")),
            case(),
        ));
        return;
    }
    // ---- encode side: the re-encoded bytes must sit at the specification's offsets
    let remapped = expect_cluster == ClusterId::ROOT_DIR;
    let fields: [(&str, std::ops::Range<usize>); 10] = [
        ("name", 0..11),
        ("attr", 11..12),
        ("reserved12-13", 12..14),
        ("ctime", 14..18),
        ("lastaccess18-19", 18..20),
        ("cluster_hi", 20..22),
        ("mtime", 22..26),
        ("cluster_lo", 26..28),
        ("size", 28..32),
        ("whole", 0..32),
    ];
    for (nm, rg) in fields.iter() {
        if remapped && (nm.starts_with("cluster") || *nm == "whole") {
            continue; // "cluster 0 + directory" decodes to the root sentinel: outside the quantifier
        }
        if ser[rg.clone()] != raw[rg.clone()] {
            rep.violate(v(
                "C18.entry-layout",
                "DirEntry::serialize",
                &format!("{} {}", nm, if fat32 { "fat32" } else { "fat16" }),
                format!("field {} re-encoded as {:02x?}, specification layout gives {:02x?}", nm, &ser[rg.clone()], &raw[rg.clone()]),
                case(),
            ));
            return;
        }
    }
    // ---- and decoding the library's own encoding returns the same entry
    let e2 = OnDiskDirEntry::new(&ser).get_entry(ft, BlockIdx(blk), off);
    if e2 != e && !remapped {
        rep.violate(v("C18.entry-roundtrip", "serialize→get_entry", if fat32 { "fat32" } else { "fat16" }, format!("decode(encode(e)) = {:?} != e = {:?}", e2, e), case()));
    }
}

/// Encode→decode for entries assembled through the public fields (covers FAT16 with clusters
/// above 2^16, where only the low half is stored).
fn built_entry_case(template: &DirEntry, name: &str, cluster: u32, size: u32, cd: (u16, u16), md: (u16, u16), fat32: bool, rep: &mut Report) {
    let ft = if fat32 { FatType::Fat32 } else { FatType::Fat16 };
    let Ok(sfn) = ShortFileName::create_from_str(name) else { return };
    let mk = |d: u16, t: u16| Timestamp {
        year_since_1970: (10 + (d >> 9)) as u8,
        zero_indexed_month: (((d >> 5) & 15) - 1) as u8,
        zero_indexed_day: ((d & 31) - 1) as u8,
        hours: (t >> 11) as u8,
        minutes: ((t >> 5) & 63) as u8,
        seconds: ((t & 31) * 2) as u8,
    };
    let e = DirEntry {
        name: sfn.clone(),
        mtime: mk(md.0, md.1),
        ctime: mk(cd.0, cd.1),
        attributes: template.attributes,
        cluster: ClusterId::EMPTY + cluster,
        size,
        entry_block: BlockIdx(77),
        entry_offset: 96,
    };
    let case = || J::obj().set("built", true).set("name", name).set("cluster", cluster).set("size", size).set("fat32", fat32);
    let ser = match report::catch(|| e.verif_serialize(ft)) {
        Ok(s) => s,
        Err((pm, loc)) => {
            rep.violate(v("C18.entry-roundtrip", "DirEntry::serialize", "panic", format!("panic '{}' at {}", pm, report::short_loc(&loc)), case()));
            return;
        }
    };
    let attr = ser[11];
    let want = enc_entry(
        &RawFields { name: sfn_bytes(&sfn), attr, cdate: cd.0, ctime: cd.1, mdate: md.0, mtime: md.1, cluster, size },
        fat32,
    );
    if ser != want {
        rep.violate(v(
            "C18.entry-layout",
            "DirEntry::serialize",
            if fat32 { "built fat32" } else { "built fat16" },
            format!("serialize gave {:02x?}, specification layout gives {:02x?}", ser, want),
            case(),
        ));
        return;
    }
    let back = OnDiskDirEntry::new(&ser).get_entry(ft, BlockIdx(77), 96);
    let vis = if fat32 { cluster } else { cluster & 0xFFFF };
    let is_dir = attr & 0x10 != 0;
    let exp_cluster = if vis == 0 && is_dir { ClusterId::ROOT_DIR } else { ClusterId::EMPTY + vis };
    if back.name != e.name || back.size != e.size || back.ctime != e.ctime || back.mtime != e.mtime || back.attributes != e.attributes || back.cluster != exp_cluster {
        rep.violate(v(
            "C18.entry-roundtrip",
            "serialize→get_entry",
            if fat32 { "built fat32" } else { "built fat16" },
            format!("decode(encode(e)) = {:?} for e = {:?}", back, e),
            case(),
        ));
    }
}

// ---------------------------------------------------------------------------------------------
// (c) 8.3 names
// ---------------------------------------------------------------------------------------------

#[derive(Debug, PartialEq)]
pub enum NameRef {
    Reject,
    /// per position: the set of acceptable bytes
    Accept([Vec<u8>; 11]),
    /// statement silent (DEL) – only totality is required
    DontCare,
}

const FORBIDDEN: &[char] = &['"', '*', '+', ',', '/', ':', ';', '<', '=', '>', '?', '[', '\\', ']', '|', ' '];

fn byte_choices(c: char, first: bool) -> Vec<u8> {
    let b = c as u32 as u8;
    let mut v = vec![];
    if c.is_ascii_lowercase() {
        v.push(b.to_ascii_uppercase());
    } else if (0xE0..=0xFE).contains(&b) && b != 0xF7 {
        // "over ISO-8859-1, upper-cases them": the Latin-1 lower-case letters have their upper-case
        // forms 0x20 below (0xF7 is the division sign; 0xDF and 0xFF have no upper-case form here)
        v.push(b - 0x20);
    } else {
        v.push(b);
    }
    let _ = first;
    v
}

/// Independent 8.3 validator / encoder (Microsoft FAT specification, "short name" rules).
pub fn name_ref(s: &str) -> NameRef {
    let pad = |s: &[u8]| -> [Vec<u8>; 11] {
        let mut o: [Vec<u8>; 11] = Default::default();
        for i in 0..11 {
            o[i] = vec![*s.get(i).unwrap_or(&b' ')];
        }
        o
    };
    if s.is_empty() || s == "." {
        return NameRef::Accept(pad(b"."));
    }
    if s == ".." {
        return NameRef::Accept(pad(b".."));
    }
    let chars: Vec<char> = s.chars().collect();
    let mut dontcare = false;
    for &c in &chars {
        if (c as u32) > 0xFF || (c as u32) < 0x20 || FORBIDDEN.contains(&c) {
            return NameRef::Reject;
        }
        if c as u32 == 0x7F {
            dontcare = true;
        }
    }
    let dots = chars.iter().filter(|c| **c == '.').count();
    if dots > 1 {
        return NameRef::Reject;
    }
    let (base, ext): (&[char], &[char]) = match chars.iter().position(|c| *c == '.') {
        Some(p) => (&chars[..p], &chars[p + 1..]),
        None => (&chars[..], &[]),
    };
    if base.is_empty() || base.len() > 8 || ext.len() > 3 {
        return NameRef::Reject;
    }
    if dontcare {
        return NameRef::DontCare;
    }
    let mut o: [Vec<u8>; 11] = Default::default();
    for i in 0..11 {
        o[i] = vec![b' '];
    }
    for (i, &c) in base.iter().enumerate() {
        o[i] = byte_choices(c, i == 0);
    }
    for (i, &c) in ext.iter().enumerate() {
        o[8 + i] = byte_choices(c, false);
    }
    NameRef::Accept(o)
}

fn name_case(s: &str, rep: &mut Report) -> bool {
    let r = report::catch(|| ShortFileName::create_from_str(s));
    let lib = match r {
        Ok(x) => x,
        Err((pm, loc)) => {
            rep.violate(v("C18.name-accept", "ShortFileName::create_from_str", "panic", format!("panic '{}' at {} for {:?}", pm, report::short_loc(&loc), s), J::obj().set("name", s)));
            return true;
        }
    };
    let want = name_ref(s);
    match (&want, &lib) {
        (NameRef::DontCare, _) => false,
        (NameRef::Reject, Err(_)) => false,
        (NameRef::Reject, Ok(n)) => {
            let cls = classify(s);
            rep.violate(v(
                "C18.name-accept",
                "ShortFileName::create_from_str",
                &format!("accepted invalid: {}", cls),
                format!("{:?} is not a valid 8.3 name ({}) but was accepted as {:02x?}", s, cls, sfn_bytes(n)),
                J::obj().set("name", s),
            ));
            true
        }
        (NameRef::Accept(_), Err(e)) => {
            rep.violate(v(
                "C18.name-accept",
                "ShortFileName::create_from_str",
                &format!("rejected valid: {}", classify(s)),
                format!("{:?} is a valid 8.3 name but was rejected with {:?}", s, e),
                J::obj().set("name", s),
            ));
            true
        }
        (NameRef::Accept(sets), Ok(n)) => {
            let b = sfn_bytes(n);
            for i in 0..11 {
                if !sets[i].contains(&b[i]) {
                    rep.violate(v(
                        "C18.name-bytes",
                        "ShortFileName::create_from_str",
                        &format!("byte {}", i),
                        format!("{:?} encoded as {:02x?}; byte {} should be one of {:02x?}", s, b, i, sets[i]),
                        J::obj().set("name", s),
                    ));
                    return true;
                }
            }
            // print and parse again
            let printed = format!("{}", n);
            // a width / fill in the format spec pads the whole name (on the right), nothing else
            let nchars = printed.chars().count();
            for (spec, got) in [("{:1}", format!("{:1}", n)), ("{:13}", format!("{:13}", n)), ("{:*<14}", format!("{:*<14}", n))] {
                let (width, fill) = match spec {
                    "{:1}" => (1usize, ' '),
                    "{:13}" => (13, ' '),
                    _ => (14, '*'),
                };
                let want: String = printed.chars().chain(std::iter::repeat(fill).take(width.saturating_sub(nchars))).collect();
                if got != want {
                    rep.violate(v("C18.name-reparse", "Display with width", spec, format!("{:?} printed with {} gives {:?}, expected {:?}", s, spec, got, want), J::obj().set("name", s)));
                    return true;
                }
            }
            match ShortFileName::create_from_str(&printed) {
                Ok(n2) if sfn_bytes(&n2) == b => false,
                other => {
                    rep.violate(v(
                        "C18.name-reparse",
                        "Display→create_from_str",
                        &classify(s),
                        format!("{:?} parsed to {:02x?}, prints as {:?}, which parses to {:?}", s, b, printed, other.map(|x| sfn_bytes(&x))),
                        J::obj().set("name", s),
                    ));
                    true
                }
            }
        }
    }
}

/// Coarse class of a string, used as the discriminating detail of a signature.
fn classify(s: &str) -> String {
    let chars: Vec<char> = s.chars().collect();
    let dots = chars.iter().filter(|c| **c == '.').count();
    let mut why = Vec::new();
    if chars.iter().any(|c| (*c as u32) > 0xFF) {
        why.push("non-Latin-1 char".to_string());
    }
    if chars.iter().any(|c| (*c as u32) < 0x20) {
        why.push("control char".to_string());
    }
    if chars.iter().any(|c| FORBIDDEN.contains(c)) {
        why.push("forbidden char".to_string());
    }
    if dots > 1 {
        let adjacent = s.contains("..");
        why.push(if adjacent { "two adjacent dots".to_string() } else { "two separated dots".to_string() });
    }
    let (b, e) = match chars.iter().position(|c| *c == '.') {
        Some(p) => (p, chars.len() - p - 1 - chars[p + 1..].iter().filter(|c| **c == '.').count()),
        None => (chars.len(), 0),
    };
    if b == 0 {
        why.push("empty base".into());
    }
    if b > 8 {
        why.push("base > 8".into());
    }
    if e > 3 {
        why.push("ext > 3".into());
    }
    if why.is_empty() {
        "well-formed".into()
    } else {
        why.join(", ")
    }
}

const ALPHABET: &[char] = &[
    'A', 'b', '7', '~', '.', ' ', '"', '*', '+', ',', '/', ':', ';', '<', '=', '>', '?', '[', '\\', ']', '|', '\u{1}', '\u{e9}', '\u{100}',
];

fn enum_names(prefix: &mut String, depth: usize, rep: &mut Report) {
    name_case(prefix, rep);
    rep.evaluations += 1;
    rep.distinct_extra += 1;
    if depth == 0 {
        return;
    }
    for &c in ALPHABET {
        prefix.push(c);
        enum_names(prefix, depth - 1, rep);
        prefix.pop();
    }
}

pub fn run(ctx: &Ctx) -> i32 {
    let mut total = Report::new();

    // ---------------- (a) all / stratified (date,time) pairs --------------------------------
    let all_dates: Vec<u16> = (0..=u16::MAX).collect();
    let all_times: Vec<u16> = (0..=u16::MAX).collect();
    let full = ctx.arg("sample-ts").is_none();
    if full {
        // 2^32 pairs: 4096 slabs of 16 dates x all times
        let r = report::parallel(ctx.threads, 4096, |i, rep| {
            let ds = &all_dates[i * 16..(i + 1) * 16];
            ts_range(ds, &all_times, rep);
            rep.evaluations += 16 * 65536;
            rep.distinct_extra += 16 * 65536;
            rep.count("ts_pairs_checked", 16 * 65536);
        });
        total.merge(r);
    } else {
        // all dates x 384 times, and all times x 384 dates (boundary values + seeded random)
        let mut rng = Rng::from_parts(&[ctx.seed, 18, 1]);
        let mut sel_t: Vec<u16> = vec![0, 1, 29, 30, 31, 0x7FF, 0x800, 59 << 5, 60 << 5, 63 << 5, 23 << 11, 24 << 11, 31 << 11, 0xFFFF, 0xBF7D, (23 << 11) | (59 << 5) | 29];
        let mut sel_d: Vec<u16> = vec![0, 1, 31, 32, 33, (1 << 5) | 1, (12 << 5) | 31, (13 << 5) | 1, (15 << 5) | 31, 0xFE00 | (12 << 5) | 31, 0xFFFF, (127 << 9) | (1 << 5) | 1, (20 << 9) | (2 << 5) | 29];
        while sel_t.len() < 384 {
            sel_t.push(rng.next_u32() as u16);
        }
        while sel_d.len() < 384 {
            sel_d.push(rng.next_u32() as u16);
        }
        let sel_t2 = sel_t.clone();
        let r = report::parallel(ctx.threads, 256, |i, rep| {
            let ds = &all_dates[i * 256..(i + 1) * 256];
            ts_range(ds, &sel_t2, rep);
            rep.evaluations += 256 * sel_t2.len() as u64;
            rep.distinct_extra += 256 * sel_t2.len() as u64;
            rep.count("ts_pairs_checked", 256 * sel_t2.len() as u64);
        });
        total.merge(r);
        let r = report::parallel(ctx.threads, 384, |i, rep| {
            ts_range(&sel_d[i..i + 1], &all_times, rep);
            rep.evaluations += 65536;
            rep.distinct_extra += 65536;
            rep.count("ts_pairs_checked", 65536);
        });
        total.merge(r);
    }
    total.samples.push(
        J::obj()
            .set("kind", "timestamp pair")
            .set("date", "0x5521 (2022-09-01)")
            .set("time", "0xbf7d (23:59:58)")
            .set("decoded", format!("{}", Timestamp::from_fat(0x5521, 0xBF7D)))
            .set("re-encoded", format!("{:02x?}", Timestamp::from_fat(0x5521, 0xBF7D).serialize_to_fat())),
    );

    // ---------------- (a2) calendar timestamps 1980-01-01 .. 2107-12-31 ----------------------
    let ndays = cal::total_days_1980_2107();
    let full_days = ctx.pick(8u32, 400u32);
    let r = report::parallel(ctx.threads, 64, |chunk, rep| {
        let mut rng = Rng::from_parts(&[ctx.seed, 18, 2, chunk as u64]);
        let lo = ndays as u64 * chunk as u64 / 64;
        let hi = ndays as u64 * (chunk as u64 + 1) / 64;
        for dn in lo..hi {
            let (y, m, d) = cal::civil_from_days(dn as u32);
            let mut times: Vec<(u32, u32, u32)> = vec![(0, 0, 0), (23, 59, 59), (12, 34, 57), (rng.below(24) as u32, rng.below(60) as u32, rng.below(60) as u32)];
            if rng.below(ndays as u64) < full_days as u64 * 4 || dn == 0 || dn + 1 == ndays as u64 {
                times.clear();
                for s in 0..86400u32 {
                    times.push((s / 3600, (s / 60) % 60, s % 60));
                }
                rep.count("days_with_every_second", 1);
            }
            for (h, mi, s) in times {
                rep.evaluations += 1;
                rep.distinct_extra += 1;
                let r = report::catch(|| {
                    let ts = Timestamp::from_calendar(y as u16, m as u8, d as u8, h as u8, mi as u8, s as u8)?;
                    let b = ts.serialize_to_fat();
                    let back = Timestamp::from_fat(u16::from_le_bytes([b[2], b[3]]), u16::from_le_bytes([b[0], b[1]]));
                    Ok::<_, &'static str>((ts, b, back))
                });
                let case = J::obj().set("calendar", format!("{:04}-{:02}-{:02} {:02}:{:02}:{:02}", y, m, d, h, mi, s));
                match r {
                    Err((pm, loc)) => {
                        rep.violate(v("C18.ts-panic", "Timestamp::from_calendar", &report::short_loc(&loc), format!("panic '{}'", pm), case));
                        return;
                    }
                    Ok(Err(e)) => {
                        rep.violate(v("C18.cal-roundtrip", "Timestamp::from_calendar", "rejected", format!("valid calendar time rejected: {}", e), case));
                        return;
                    }
                    Ok(Ok((ts, b, back))) => {
                        let want_d = cal::fat_date(y, m, d);
                        let want_t = cal::fat_time(h, mi, s);
                        let want = [want_t as u8, (want_t >> 8) as u8, want_d as u8, (want_d >> 8) as u8];
                        let exp_back = ((y - 1970) as u8, (m - 1) as u8, (d - 1) as u8, h as u8, mi as u8, (s & !1) as u8);
                        if ts_tuple(&ts) != ((y - 1970) as u8, (m - 1) as u8, (d - 1) as u8, h as u8, mi as u8, s as u8) {
                            rep.violate(v("C18.cal-roundtrip", "Timestamp::from_calendar", "fields", format!("from_calendar stored {:?}", ts_tuple(&ts)), case));
                            return;
                        } else if b != want {
                            rep.violate(v("C18.cal-roundtrip", "Timestamp::serialize_to_fat", "encode", format!("encoded as {:02x?}, FAT layout gives {:02x?}", b, want), case));
                            return;
                        } else if ts_tuple(&back) != exp_back {
                            rep.violate(v("C18.cal-roundtrip", "Timestamp::from_fat", "decode", format!("decoded back as {:?}, expected {:?}", ts_tuple(&back), exp_back), case));
                            return;
                        }
                    }
                }
            }
        }
        rep.count("calendar_days", hi - lo);
    });
    total.merge(r);

    // ---------------- (b) entry codec ----------------------------------------------------------
    let clusters: Vec<u32> = vec![0, 1, 2, 3, 0xFFFF, 0x1_0000, 0x1_0001, 0x00FF_00FF, 0x0FFF_FFF7, 0x0FFF_FFFF, 0x0ABC_DEF0];
    let sizes: Vec<u32> = vec![0, 1, 511, 512, 0xFFFF, 0x1_0000, 0x7FFF_FFFF, 0x8000_0000, 0xFFFF_FFFF, 0x0102_0304];
    let names: Vec<[u8; 11]> = vec![
        *b"README  TXT",
        *b"A          ",
        *b"ABCDEFGHIJK",
        *b".          ",
        *b"..         ",
        *b"\x05BC     \xE9\xFF ",
        *b"NO EXT  A B",
        *b"12345678   ",
        *b"\xE9\xC9~_-!#$%&'",
    ];
    let mut stamps: Vec<(u16, u16)> = Vec::new();
    {
        let mut rng = Rng::from_parts(&[ctx.seed, 18, 3]);
        let ds = [cal::fat_date(1980, 1, 1), cal::fat_date(2107, 12, 31), cal::fat_date(2000, 2, 29), cal::fat_date(1999, 12, 31)];
        let tsv = [0u16, cal::fat_time(23, 59, 58), cal::fat_time(12, 0, 0), 1, 1 << 5, 1 << 11];
        for d in ds {
            for t in tsv {
                stamps.push((d, t));
            }
        }
        while stamps.len() < 64 {
            let d = cal::fat_date(1980 + rng.below(128) as u32, 1 + rng.below(12) as u32, 1 + rng.below(31) as u32);
            let t = cal::fat_time(rng.below(24) as u32, rng.below(60) as u32, rng.below(60) as u32);
            stamps.push((d, t));
        }
    }
    let nrand_entries = ctx.pick(200_000usize, 5_000_000usize);
    let stamps_ref = &stamps;
    let names_ref = &names;
    let r = report::parallel(ctx.threads, 256 + 64, |i, rep| {
        if i < 256 {
            let attr = i as u8;
            let mut k = i;
            for &cl in &clusters {
                for &sz in &sizes {
                    for fat32 in [false, true] {
                        k += 1;
                        let (cd, ct) = stamps_ref[k % stamps_ref.len()];
                        let (md, mt) = stamps_ref[(k * 7 + 3) % stamps_ref.len()];
                        let f = RawFields { name: names_ref[k % names_ref.len()], attr, cdate: cd, ctime: ct, mdate: md, mtime: mt, cluster: cl, size: sz };
                        entry_case(&f, fat32, rep);
                        rep.evaluations += 1;
                        rep.distinct_extra += 1;
                        // same values through hand-built DirEntry values
                        let tmpl = OnDiskDirEntry::new(&enc_entry(&f, fat32)).get_entry(FatType::Fat32, BlockIdx(0), 0);
                        built_entry_case(&tmpl, ["README.TXT", "a", "ABCDEFGH.IJK", "x.y", "\u{e9}t\u{e9}.d"][k % 5], cl, sz, (cd, ct), (md, mt), fat32, rep);
                        rep.evaluations += 1;
                    }
                }
            }
            rep.count("entry_boundary_cases", (clusters.len() * sizes.len() * 2) as u64);
        } else {
            let mut rng = Rng::from_parts(&[ctx.seed, 18, 4, i as u64]);
            for _ in 0..nrand_entries / 64 {
                let mut name = [0u8; 11];
                rng.fill(&mut name);
                for b in name.iter_mut() {
                    if *b == b'\t' || *b == b'\n' || *b == b'\r' || *b == 0x0c {
                        *b = b'_';
                    }
                }
                let (cd, ct) = stamps_ref[rng.usize_below(stamps_ref.len())];
                let (md, mt) = stamps_ref[rng.usize_below(stamps_ref.len())];
                let f = RawFields {
                    name,
                    attr: rng.next_u32() as u8,
                    cdate: cd,
                    ctime: ct,
                    mdate: md,
                    mtime: mt,
                    cluster: if rng.chance(1, 2) { rng.next_u32() & 0x0FFF_FFFF } else { *rng.pick(&clusters) },
                    size: if rng.chance(1, 2) { rng.next_u32() } else { *rng.pick(&sizes) },
                };
                let fat32 = rng.chance(1, 2);
                entry_case(&f, fat32, rep);
                rep.evaluations += 1;
                rep.distinct.insert(crate::prng::hash_bytes(&enc_entry(&f, fat32)) ^ fat32 as u64);
            }
            rep.count("entry_random_cases", (nrand_entries / 64) as u64);
        }
    });
    total.merge(r);
    {
        let f = RawFields { name: *b"README  TXT", attr: 0x21, cdate: cal::fat_date(2003, 4, 4), ctime: cal::fat_time(13, 30, 4), mdate: cal::fat_date(2024, 2, 29), mtime: cal::fat_time(23, 59, 58), cluster: 0x0123_4567, size: 258 };
        let raw = enc_entry(&f, true);
        let e = OnDiskDirEntry::new(&raw).get_entry(FatType::Fat32, BlockIdx(9), 64);
        total.samples.push(
            J::obj()
                .set("kind", "directory entry")
                .set("independent_encoding_hex", raw.iter().map(|b| format!("{:02x}", b)).collect::<String>())
                .set("library_decoding", format!("{:?}", e))
                .set("library_reencoding_hex", e.verif_serialize(FatType::Fat32).iter().map(|b| format!("{:02x}", b)).collect::<String>()),
        );
    }

    // ---------------- (b2) entry codec end to end, without the hook ---------------------------------
    // craft a raw slot, open it for append, write nothing, flush: the rewritten slot must equal the
    // original except modification time and the archive bit.
    let ne2e = ctx.pick(400usize, 6000usize);
    let r = report::parallel(ctx.threads, ne2e, |i, rep| {
        use crate::fsx;
        use crate::mkfs::{name11, Alloc, Fmt, Geom};
        use crate::vm::{Fl, Nm};
        let mut rng = Rng::from_parts(&[ctx.seed, 18, 7, i as u64]);
        let fat32 = i % 2 == 0;
        let mut g = if fat32 { Geom::base_fat32(65525 + 40_000 + rng.below(500) as u32, 1) } else { Geom::base_fat16(4085 + rng.below(3000) as u32, *rng.pick(&[1u32, 2, 8])) };
        g.neighbours = false;
        g.part_start = 1;
        let mut f = Fmt::new(g, Rng::new(rng.next_u64()));
        let attr = *rng.pick(&[0x00u8, 0x20, 0x02, 0x04, 0x06, 0x22, 0x26]);
        let len = *rng.pick(&[1usize, 511, 512, 513, 3000]);
        // Tail allocation on FAT32 puts the chain above cluster 65535: the high word matters
        let how = if fat32 { Alloc::Tail } else { *rng.pick(&[Alloc::Seq, Alloc::Scatter, Alloc::Tail]) };
        let pi = f.add_file(0, &name11("E2E.DAT"), attr, &fsx::payload(i as u32, 0, len), how);
        let (blk, off) = (f.placed[pi].slot_blk, f.placed[pi].slot_off as usize);
        let (cd, ct) = stamps_ref[rng.usize_below(stamps_ref.len())];
        let (md, mt) = stamps_ref[rng.usize_below(stamps_ref.len())];
        let mut slot = f.placed[pi].raw;
        slot[14..16].copy_from_slice(&ct.to_le_bytes());
        slot[16..18].copy_from_slice(&cd.to_le_bytes());
        slot[22..24].copy_from_slice(&mt.to_le_bytes());
        slot[24..26].copy_from_slice(&md.to_le_bytes());
        f.img.write_bytes(blk, off, &slot);
        let (img, g, _) = f.finish();
        let m = fsx::mount_image(img, (4, 4, 1), 5000);
        let res = report::catch(|| -> Result<(), crate::vm::E> {
            let v = m.vm.open_volume(Fl::Raw, g.part_slot)?;
            let d = m.vm.open_root_dir(Fl::Raw, v)?;
            let fh = m.vm.open_file(Fl::Raw, d, Nm::Str("E2E.DAT"), embedded_sdmmc::Mode::ReadWriteAppend)?;
            m.vm.write(Fl::Raw, fh, &[])?;
            m.vm.flush(Fl::Raw, fh)?;
            m.vm.close_file(Fl::Raw, fh)?;
            m.vm.close_dir(Fl::Raw, d)?;
            m.vm.close_volume(Fl::Raw, v)
        });
        rep.evaluations += 1;
        let case = || J::obj().set("end_to_end", true).set("geometry", g.describe()).set("slot_hex", slot.iter().map(|b| format!("{:02x}", b)).collect::<String>());
        match res {
            Ok(Ok(())) => {}
            other => {
                rep.violate(v("C18.entry-roundtrip", "open/append/flush", "end to end failed", format!("{:?}", other.map(|x| x.map_err(|e| crate::vm::ek(&e)))), case()));
                return;
            }
        }
        let after = m.disk.image().read(blk);
        let now = &after[off..off + 32];
        for (nm, rg) in [("name", 0..11usize), ("ctime", 14..18), ("cluster_hi", 20..22), ("cluster_lo", 26..28), ("size", 28..32)] {
            if now[rg.clone()] != slot[rg.clone()] {
                rep.violate(v("C18.entry-layout", "flush_file (end to end)", &format!("{} {}", nm, if fat32 { "fat32" } else { "fat16" }), format!("after open-append / empty write / flush the slot's {} changed from {:02x?} to {:02x?}", nm, &slot[rg.clone()], &now[rg.clone()]), case()));
                return;
            }
        }
        if now[11] | 0x20 != slot[11] | 0x20 {
            rep.violate(v("C18.entry-layout", "flush_file (end to end)", "attr", format!("attribute byte changed from {:#04x} to {:#04x}", slot[11], now[11]), case()));
            return;
        }
        rep.distinct.insert(crate::prng::hash_bytes(&slot) ^ fat32 as u64);
        rep.count("end_to_end_slot_rewrites", 1);
    });
    total.merge(r);

    // ---------------- (c) 8.3 names ------------------------------------------------------------
    let depth = ctx.pick(5usize, 6usize); // after the 2-symbol prefix handed to each worker
    let r = report::parallel(ctx.threads, ALPHABET.len() * ALPHABET.len(), |i, rep| {
        let a = ALPHABET[i / ALPHABET.len()];
        let b = ALPHABET[i % ALPHABET.len()];
        let mut p = String::new();
        if i == 0 {
            // length 0 and 1
            name_case("", rep);
            rep.evaluations += 1;
            rep.distinct_extra += 1;
            for &c in ALPHABET {
                name_case(&c.to_string(), rep);
                rep.evaluations += 1;
                rep.distinct_extra += 1;
            }
        }
        p.push(a);
        p.push(b);
        let before = rep.evaluations;
        enum_names(&mut p, depth - 2 + 0, rep);
        rep.count("names_enumerated_exhaustively", rep.evaluations - before);
    });
    total.merge(r);
    // structured strings up to length 13 with one injected symbol
    let r = report::parallel(ctx.threads, 10, |base_len, rep| {
        let bad: Vec<char> = ALPHABET.iter().cloned().chain(['\u{e5}', '\u{ff}', '\u{7f}', '\u{a0}', '\u{f7}', '\u{0}', '\u{1f}', 'z', '-', '_', '\u{20ac}', '\u{1f600}']).collect();
        for dots in 0..=2usize {
            for ext_len in 0..=4usize {
                let mut cs: Vec<char> = Vec::new();
                for i in 0..base_len {
                    cs.push((b'A' + (i as u8 % 26)) as char);
                }
                for _ in 0..dots.min(1) {
                    cs.push('.');
                }
                for i in 0..ext_len {
                    cs.push((b'p' + i as u8) as char);
                }
                if dots == 2 {
                    cs.push('.');
                }
                let variants = |cs: &Vec<char>, rep: &mut Report| {
                    let s: String = cs.iter().collect();
                    name_case(&s, rep);
                    rep.evaluations += 1;
                    rep.distinct.insert(crate::prng::hash_bytes(s.as_bytes()));
                    for pos in 0..=cs.len() {
                        for &b in &bad {
                            // insertion
                            let mut c2 = cs.clone();
                            c2.insert(pos, b);
                            let s: String = c2.iter().collect();
                            name_case(&s, rep);
                            rep.evaluations += 1;
                            rep.distinct.insert(crate::prng::hash_bytes(s.as_bytes()));
                            // replacement
                            if pos < cs.len() {
                                let mut c3 = cs.clone();
                                c3[pos] = b;
                                let s: String = c3.iter().collect();
                                name_case(&s, rep);
                                rep.evaluations += 1;
                                rep.distinct.insert(crate::prng::hash_bytes(s.as_bytes()));
                            }
                        }
                    }
                };
                variants(&cs, rep);
            }
        }
        rep.count("structured_name_shapes", 15);
    });
    total.merge(r);
    // random Latin-1 / non-Latin-1 strings
    let nrand = ctx.pick(300_000usize, 5_000_000usize);
    let r = report::parallel(ctx.threads, 64, |i, rep| {
        let mut rng = Rng::from_parts(&[ctx.seed, 18, 5, i as u64]);
        for k in 0..nrand / 64 {
            let n = rng.usize_below(14);
            let mut s = String::new();
            let style = rng.below(4);
            let dot_at = if rng.chance(2, 3) { rng.usize_below(10) } else { 99 };
            for j in 0..n {
                if j == dot_at {
                    s.push('.');
                    continue;
                }
                let c = match style {
                    0 => char::from_u32(0x21 + rng.below(0x5E) as u32).unwrap(),
                    1 => char::from_u32(0x20 + rng.below(0xE0) as u32).unwrap(),
                    2 => *rng.pick(&['A', 'z', '0', '_', '-', '\u{e5}', '\u{c5}', '\u{e9}', '\u{ff}', '\u{df}', '\u{f7}', '\u{d7}']),
                    _ => {
                        if rng.chance(1, 10) {
                            char::from_u32(rng.below(0x3000) as u32).unwrap_or('x')
                        } else {
                            (b'a' + rng.below(26) as u8) as char
                        }
                    }
                };
                s.push(c);
            }
            let bad = name_case(&s, rep);
            rep.evaluations += 1;
            rep.distinct.insert(crate::prng::hash_bytes(s.as_bytes()));
            if i == 0 && k < 3 && !bad {
                let lib = ShortFileName::create_from_str(&s).map(|n| format!("{:02x?}", sfn_bytes(&n))).unwrap_or_else(|e| format!("Err({:?})", e));
                rep.samples.push(J::obj().set("kind", "8.3 name").set("input", s.as_str()).set("library", lib).set("reference", format!("{:?}", name_ref(&s))));
            }
        }
        rep.count("random_names", (nrand / 64) as u64);
    });
    total.merge(r);

    report::finish(
        ctx,
        total,
        Evidence {
            level: "exploration",
            rule: "cases = (date,time) field pairs, calendar timestamps, directory-entry field tuples (via hook H1 verif_serialize and the public decoder), and candidate file-name strings; enumerated cases are distinct by construction, random ones by content hash; each case is a separate comparison against an independent encoder/decoder/validator written from the FAT specification".into(),
            assumptions: vec![
                "the independent entry encoder, timestamp decoder and 8.3 validator follow the Microsoft FAT specification".into(),
                "Latin-1 lower-case letters (0xE0..0xFE except 0xF7) must be stored upper-cased; DEL (0x7f) may or may not be accepted (statement does not fix it)".into(),
                "ShortFileName bytes are read through the volume-label view (trailing ASCII whitespace padded back)".into(),
            ],
            exhaustive: Some(full),
            extra: vec![(
                "exhaustive_scope".into(),
                J::s(if full { "all 2^32 (date,time) pairs; all strings up to the enumerated length over the 24-symbol class alphabet" } else { "all dates x 384 times and all times x 384 dates; all strings up to the enumerated length over the 24-symbol class alphabet" }),
            )],
            min_distinct: 1000,
            min_counters: vec![],
        },
    )
}
