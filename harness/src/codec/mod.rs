//! Differential monitors for the pure codecs: C17 (LFN), C18 (entry/timestamp/8.3), C19 (CRC).
pub mod crc;
pub mod entry;
pub mod lfn;
pub mod lfn_dir;
