//! C17 directory level: iterate_dir_lfn over crafted directories vs the independent assembler.

use crate::fatref::{self, Slot, Snap};
use crate::fsx;
use crate::json::J;
use crate::mkfs::{lfn_slot_raw, lfn_slots, name11, Alloc, Fmt, Geom};
use crate::prng::Rng;
use crate::report::{self, Ctx, Report, Violation};
use crate::vm::Fl;

use super::lfn::random_unit;

#[derive(Clone, Debug)]
struct Got {
    name: [u8; 11],
    lfn: Option<String>,
}

fn slot_hex(slots: &[[u8; 32]]) -> J {
    J::Arr(slots.iter().map(|s| J::s(s.iter().map(|b| format!("{:02x}", b)).collect::<String>())).collect())
}

/// Build one directory's slot list (after the dot entries).
fn gen_slots(rng: &mut Rng, f: &mut Fmt, n_groups: usize) -> Vec<[u8; 32]> {
    let mut out: Vec<[u8; 32]> = Vec::new();
    let mut serial = 0u32;
    let mut short = |f: &mut Fmt, rng: &mut Rng, serial: &mut u32| -> [u8; 32] {
        *serial += 1;
        let nm = match rng.below(6) {
            4 | 5 => {
                // first byte 0x05 (the stored form of a leading 0xE5) and other high bytes: the
                // long-name checksum is defined over the bytes as stored
                let mut n = name11(&format!("X{}.TXT", serial));
                n[0] = *rng.pick(&[0x05u8, 0x05, 0xC5, 0xFF, 0x80]);
                n
            }
            0 => name11(&format!("S{}.TXT", serial)),
            1 => name11(&format!("LONGNA~{}.DAT", *serial % 10)),
            _ => name11(&format!("F{:05}.BIN", serial)),
        };
        f.raw_entry(&nm, 0x20, 0, 0)
    };
    for _ in 0..n_groups {
        match rng.below(14) {
            // well-formed run
            0..=3 => {
                let len = match rng.below(5) {
                    0 => 1 + rng.usize_below(13),
                    1 => 13 * (1 + rng.usize_below(3)),
                    2 => 240 + rng.usize_below(8), // 19 fragments
                    3 => 248 + rng.usize_below(8), // 20 fragments: the longest names FAT allows (255 units)
                    _ => 1 + rng.usize_below(60),
                };
                let name: Vec<u16> = (0..len)
                    .map(|_| {
                        let u = random_unit(rng);
                        if u == 0 {
                            0x41
                        } else {
                            u
                        }
                    })
                    .collect();
                let s = short(f, rng, &mut serial);
                let mut nm = [0u8; 11];
                nm.copy_from_slice(&s[..11]);
                out.extend(lfn_slots(&name, &nm));
                out.push(s);
            }
            // run with a defect
            4..=8 => {
                let len = 14 + rng.usize_below(40);
                let name: Vec<u16> = (0..len).map(|i| 0x61 + (i as u16 % 26)).collect();
                let s = short(f, rng, &mut serial);
                let mut nm = [0u8; 11];
                nm.copy_from_slice(&s[..11]);
                let mut run = lfn_slots(&name, &nm);
                let k = rng.usize_below(run.len());
                match rng.below(11) {
                    9 | 10 => {
                        // a live short entry in the middle of the run: it ends the run, the rest
                        // belongs to nobody
                        let mid = short(f, rng, &mut serial);
                        let at = if run.len() > 1 { 1 + rng.usize_below(run.len() - 1) } else { 1.min(run.len()) };
                        run.insert(at, mid);
                    }
                    0 => {
                        run.remove(k); // gap
                    }
                    1 => {
                        let d = run[k];
                        run.insert(k, d); // duplicate
                    }
                    2 => run[0][0] &= !0x40, // missing start flag
                    3 => run[0][13] ^= 0x5A, // checksum mismatch in the first fragment
                    4 => {
                        let last = run.len() - 1;
                        run[last][13] ^= 0x5A; // checksum mismatch in a later fragment
                    }
                    5 => run.reverse(), // wrong order
                    6 => {
                        // a deleted slot in the middle of the run (skipped by the walk)
                        let mut d = short(f, rng, &mut serial);
                        d[0] = 0xE5;
                        run.insert(k, d);
                    }
                    7 => {
                        // 0x40 flag also on a later fragment
                        let last = run.len() - 1;
                        run[last][0] |= 0x40;
                    }
                    _ => {
                        // sequence number 0 / wrong numbering
                        run[k][0] = (run[k][0] & 0x40) | (rng.below(32) as u8);
                    }
                }
                out.extend(run);
                out.push(s);
            }
            // orphan run followed by a deleted slot, then a short entry
            9 => {
                let name: Vec<u16> = "orphaned long name.txt".encode_utf16().collect();
                let s = short(f, rng, &mut serial);
                let mut nm = [0u8; 11];
                nm.copy_from_slice(&s[..11]);
                out.extend(lfn_slots(&name, &nm));
                let mut del = s;
                del[0] = 0xE5;
                out.push(del);
                out.push(short(f, rng, &mut serial));
            }
            // two consecutive short entries with equal LFN checksums, the first with a long name
            10 => {
                let s = short(f, rng, &mut serial);
                let mut nm = [0u8; 11];
                nm.copy_from_slice(&s[..11]);
                let name: Vec<u16> = "first of twins".encode_utf16().collect();
                out.extend(lfn_slots(&name, &nm));
                out.push(s);
                // second: different name, same checksum – swap two bytes whose contribution commutes
                // is hard in general; simply reuse the same 11 bytes with the directory bit clear/other attr
                let mut twin = f.raw_entry(&nm, 0x20, 0, 0);
                twin[11] = 0x22;
                out.push(twin);
            }
            // random slot bytes with the LFN attribute
            11 => {
                let mut r = [0u8; 32];
                rng.fill(&mut r);
                r[11] = 0x0F;
                if r[0] == 0 || r[0] == 0xE5 {
                    r[0] = 0x41;
                }
                out.push(r);
                if rng.chance(1, 2) {
                    out.push(short(f, rng, &mut serial));
                }
            }
            // fully random units in a well-formed run
            12 => {
                let n = 1 + rng.usize_below(4);
                let s = short(f, rng, &mut serial);
                let mut nm = [0u8; 11];
                nm.copy_from_slice(&s[..11]);
                let cs = fatref::lfn_checksum(&nm);
                for seq in (1..=n).rev() {
                    let mut u = [0u16; 13];
                    for x in u.iter_mut() {
                        *x = rng.next_u32() as u16;
                    }
                    out.push(lfn_slot_raw(seq as u8 | if seq == n { 0x40 } else { 0 }, cs, &u));
                }
                out.push(s);
            }
            _ => out.push(short(f, rng, &mut serial)),
        }
    }
    out
}

pub fn run_into(ctx: &Ctx, total: &mut Report) {
    let ndirs = ctx.pick(20_000usize, 400_000usize);
    let r = report::parallel(ctx.threads, ndirs, |i, rep| {
        let mut rng = Rng::from_parts(&[ctx.seed, 17, 7, i as u64]);
        let fat32 = i % 3 == 0;
        let mut g = if fat32 { Geom::base_fat32(65525 + rng.below(200) as u32, 1) } else { Geom::base_fat16(4085 + rng.below(600) as u32, *rng.pick(&[1u32, 2, 4])) };
        g.neighbours = false;
        g.part_start = 1;
        let mut f = Fmt::new(g, Rng::new(rng.next_u64()));
        let d = f.mkdir(0, &name11("LFNDIR"), 0, Alloc::Seq);
        let ngroups = 1 + rng.usize_below(12);
        let slots = gen_slots(&mut rng, &mut f, ngroups);
        for s in &slots {
            f.put_slot(d, s, Alloc::Scatter);
        }
        let (img, g, _) = f.finish();
        let bufsize = match rng.below(5) {
            0 => 780,
            1 => rng.usize_below(40),
            2 => 64,
            _ => 255 * 3,
        };
        // reference
        let snap = match Snap::open(&img, g.part_slot) {
            Ok(s) => s,
            Err(e) => {
                rep.inconclusive.push(format!("fatref cannot mount generated image: {}", e));
                return;
            }
        };
        let w = snap.walk();
        let Some(dn) = w.nodes.iter().find(|n| n.path == "LFNDIR") else {
            rep.inconclusive.push("generated directory not found".into());
            return;
        };
        let (all, _, _) = snap.dir_slots(fatref::DirLoc::Cluster(dn.start));
        let live = Snap::live_slots(&all);
        // expected per short entry: (name, sound_units, wellformed_units)
        struct Exp {
            name: [u8; 11],
            sound: Option<Vec<u16>>,
            well: Option<Vec<u16>>,
            nfrag: usize,
        }
        let mut exp: Vec<Exp> = Vec::new();
        let mut run: Vec<Slot> = Vec::new();
        for s in &live {
            if s.is_lfn() {
                run.push(s.clone());
                continue;
            }
            let well = fatref::assemble_lfn_units(&run, &s.name());
            // a name may be reported only for a complete, ordered run in which EVERY fragment carries
            // the checksum of the short entry (each long-name slot has its own copy of it)
            let sound = well.clone();
            let nfrag = run.iter().rposition(|x| x.raw[0] & 0x40 != 0).map(|p| run.len() - p).unwrap_or(0);
            exp.push(Exp { name: s.name(), sound, well, nfrag });
            run.clear();
        }
        // library
        let m = fsx::mount_image(img, (4, 4, 1), 5000);
        let res = report::catch(|| {
            let v = m.vm.open_volume(Fl::Raw, g.part_slot)?;
            let d = fsx::open_path(&*m.vm, v, "LFNDIR")?;
            let mut buf = vec![0u8; bufsize];
            let mut got: Vec<Got> = Vec::new();
            let fl = if i % 2 == 0 { Fl::Raw } else { Fl::Wrap };
            m.vm.iterate_lfn(fl, d, &mut buf, &mut |e, n| {
                got.push(Got { name: crate::codec::entry::sfn_bytes(&e.name), lfn: n.map(|s| s.to_string()) });
            })?;
            let plain = fsx::list_dir(&*m.vm, d)?;
            Ok::<_, crate::vm::E>((got, plain))
        });
        rep.evaluations += 1;
        let case = || J::obj().set("geometry", g.describe()).set("buffer_size", bufsize).set("slots_after_dot_entries", slot_hex(&slots));
        let (got, plain) = match res {
            Err((pm, loc)) => {
                let l = report::short_loc(&loc);
                rep.violate(Violation::new("C17", "C17.panic", "iterate_dir_lfn", l.split(':').next().unwrap_or(""), format!("listing panicked: '{}' at {}", pm, l), case()));
                return;
            }
            Ok(Err(e)) => {
                rep.violate(Violation::new("C17", "C17.seq", "iterate_dir_lfn", "error", format!("listing a crafted directory failed: {:?}", e), case()));
                return;
            }
            Ok(Ok(x)) => x,
        };
        // same sequence of short entries as the plain listing and as the reference
        let names_lfn: Vec<[u8; 11]> = got.iter().map(|g| g.name).collect();
        let names_plain: Vec<[u8; 11]> = plain.iter().map(|e| e.name).collect();
        let names_ref: Vec<[u8; 11]> = exp.iter().map(|e| e.name).collect();
        if names_lfn != names_plain || names_lfn != names_ref {
            rep.violate(Violation::new(
                "C17",
                "C17.seq",
                "iterate_dir_lfn",
                "short-entry sequence",
                format!("iterate_dir_lfn delivered {} short entries, iterate_dir {}, independent reader {}", names_lfn.len(), names_plain.len(), names_ref.len()),
                case(),
            ));
            return;
        }
        let mut nontrivial = false;
        for (k, (g1, e)) in got.iter().zip(exp.iter()).enumerate() {
            let nm = fatref::display_name(&e.name);
            if e.nfrag > 0 {
                nontrivial = true;
            }
            match &g1.lfn {
                Some(s) => {
                    match &e.sound {
                        None => {
                            let detail = if e.nfrag == 0 { "short entry not preceded by any long-name run" } else { "incomplete/misordered/mismatching run" };
                            rep.violate(Violation::new("C17", "C17.lfn-unsound", "iterate_dir_lfn", detail, format!("entry #{} {} reported with long name {:?} although no complete matching run precedes it", k, nm, s), case()));
                            return;
                        }
                        Some(u) => {
                            let want = String::from_utf16_lossy(u);
                            let fits = want.len() <= bufsize;
                            if (fits && *s != want) || (!fits && !s.is_empty()) {
                                rep.violate(Violation::new("C17", "C17.text", "iterate_dir_lfn", "name differs from reference decoding", format!("entry #{} {}: long name {:?}, reference {:?} (buffer {})", k, nm, s, want, bufsize), case()));
                                return;
                            }
                            rep.count("long_names_confirmed", 1);
                        }
                    }
                }
                None => {
                    if let Some(u) = &e.well {
                        let want = String::from_utf16_lossy(u);
                        if e.nfrag <= 20 && want.len() <= bufsize {
                            rep.violate(Violation::new("C17", "C17.lfn-missing", "iterate_dir_lfn", &format!("{} fragments", if e.nfrag <= 1 { "1".to_string() } else if e.nfrag <= 19 { "2..19".to_string() } else { "20".to_string() }), format!("entry #{} {}: well-formed {}-fragment run {:?} not reported", k, nm, e.nfrag, want), case()));
                            return;
                        }
                    }
                    rep.count("entries_without_long_name", 1);
                }
            }
        }
        if nontrivial {
            rep.distinct.insert(crate::prng::hash_bytes(&slots.concat()));
        }
        rep.count("directories_listed", 1);
        rep.count("short_entries_delivered", got.len() as u64);
        if i < 2 {
            rep.samples.push(
                J::obj()
                    .set("kind", "directory-level case")
                    .set("geometry", g.describe())
                    .set("buffer_size", bufsize)
                    .set("slots", slots.len())
                    .set("delivered", J::Arr(got.iter().map(|x| J::obj().set("short", fatref::display_name(&x.name)).set("long", x.lfn.clone().map(J::Str).unwrap_or(J::Null))).collect())),
            );
        }
    });
    total.merge(r);
}

impl From<Option<J>> for J {
    fn from(o: Option<J>) -> J {
        o.unwrap_or(J::Null)
    }
}
