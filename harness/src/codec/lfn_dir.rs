//! C17 directory level – filled in once the file-system harness (mkfs/fatref) exists.
use crate::report::{Ctx, Report};
pub fn run_into(_ctx: &Ctx, _total: &mut Report) {}
