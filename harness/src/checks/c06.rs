//! C06 – directory listing and lookup report exactly the live entries.

use crate::fatref::{self, DirLoc, Slot, Snap};
use crate::fsx::{self, EntryView};
use crate::json::J;
use crate::mkfs::{lfn_slots, name11, Alloc, Fmt, Geom};
use crate::prng::Rng;
use crate::report::{self, Ctx, Evidence, Report, Violation};
use crate::vm::{ek, Ek, Fl, Nm, Vm, E};
use embedded_sdmmc::{Mode, RawDirectory, RawVolume, ShortFileName};

fn v(rule: &str, call: &str, detail: &str, msg: String, case: J) -> Violation {
    Violation::new("C06", rule, call, detail, msg, case)
}

/// Expected `iterate_dir` output for a directory: live, non-LFN slots before the end marker.
fn expected_listing(snap: &Snap, loc: DirLoc) -> Vec<EntryView> {
    let (all, _, _) = snap.dir_slots(loc);
    Snap::live_slots(&all).iter().filter(|s| !s.is_lfn()).map(|s| fsx::view_of_slot(s, snap.vol.fat32)).collect()
}

fn diff_listing(got: &[EntryView], want: &[EntryView]) -> Option<(String, String)> {
    if got.len() != want.len() {
        // classify
        let kind = if got.len() < want.len() { "entries missing" } else { "extra entries" };
        return Some((kind.to_string(), format!("library delivered {} entries, the medium holds {} live ones", got.len(), want.len())));
    }
    for (i, (g, w)) in got.iter().zip(want.iter()).enumerate() {
        if g != w {
            let field = if g.name != w.name {
                "name/order"
            } else if g.attr6 != w.attr6 {
                "attributes"
            } else if g.size != w.size {
                "size"
            } else if g.cluster != w.cluster {
                "start cluster"
            } else if g.ctime != w.ctime || g.mtime != w.mtime {
                "timestamps"
            } else {
                "entry location"
            };
            return Some((field.to_string(), format!("entry #{}: library {:?}, medium {:?}", i, g, w)));
        }
    }
    None
}

/// A directory made of a random mix of slot kinds. Returns (path, raw slots appended).
fn gen_dir(f: &mut Fmt, parent: usize, name: &str, rng: &mut Rng, target_slots: usize, stale_after_end: bool) -> usize {
    let d = if name.is_empty() { parent } else { f.mkdir(parent, &name11(name), 0, Alloc::Scatter) };
    let mut serial = 0;
    let cap_root16 = f.dirs[d].start == 0;
    while f.dirs[d].used < target_slots {
        if cap_root16 && f.dirs[d].used + 4 >= f.dir_capacity(d) {
            break;
        }
        serial += 1;
        match rng.below(10) {
            0 => {
                f.add_deleted(d, &name11(&format!("DEL{}.TMP", serial)));
            }
            1 => {
                let nm = name11(&format!("LFN{}~1.TXT", serial));
                let long: Vec<u16> = format!("long name number {} \u{e9}", serial).encode_utf16().collect();
                if f.dirs[d].used + 4 < target_slots {
                    f.add_file_lfn(d, &nm, 0x20, &fsx::payload(serial as u32, 0, 20), Alloc::Seq, Some(&long));
                }
            }
            2 => {
                if f.dirs[d].parent.is_none() {
                    f.add_label(d, b"LABEL INDIR");
                } else {
                    f.add_deleted(d, &name11("X.Y"));
                }
            }
            3 => {
                if f.free_count() > 10 {
                    f.mkdir(d, &name11(&format!("D{}", serial)), if rng.chance(1, 4) { 0x02 } else { 0 }, Alloc::Scatter);
                }
            }
            4 => {
                // orphan LFN fragments
                let long: Vec<u16> = "orphan".encode_utf16().collect();
                for s in lfn_slots(&long, &name11("NOBODY.TXT")) {
                    f.put_slot(d, &s, Alloc::Scatter);
                }
            }
            5 => {
                // odd attribute combinations and raw name bytes
                let mut nm = name11(&format!("ODD{}.BIN", serial));
                if rng.chance(1, 2) {
                    nm[3] = b' '; // interior space
                }
                let attr = *rng.pick(&[0x01u8, 0x02, 0x04, 0x07, 0x21, 0x27, 0x00, 0x40, 0x80, 0xC0, 0xE0, 0x2F, 0x3F, 0x1F, 0x2F]);
                let raw = f.raw_entry(&nm, attr, 0, rng.next_u32() % 5000);
                f.put_slot(d, &raw, Alloc::Scatter);
            }
            _ => {
                let sz = *rng.pick(&[0usize, 1, 100, 513, 2000]);
                f.add_file(d, &name11(&format!("F{}.DAT", serial)), 0x20, &fsx::payload(serial as u32, 0, sz), if rng.chance(1, 2) { Alloc::Scatter } else { Alloc::Seq });
            }
        }
    }
    if stale_after_end && f.dirs[d].used + 3 < f.dir_capacity(d) {
        // an end marker followed by stale, live-looking slots: a reader must stop at the marker
        let (blk, off) = f.slot_loc(d, f.dirs[d].used + 1);
        let stale = f.raw_entry(&name11("STALE.OLD"), 0x20, 0, 77);
        f.img.write_bytes(blk, off as usize, &stale);
        let (blk, off) = f.slot_loc(d, f.dirs[d].used + 2);
        let stale = f.raw_entry(&name11("STALE2.OLD"), 0x10, 3, 0);
        f.img.write_bytes(blk, off as usize, &stale);
        // ... also in a later block and in the very last slot of the directory's extent
        let cap = f.dir_capacity(d);
        if f.dirs[d].used + 1 + 16 < cap {
            let (blk, off) = f.slot_loc(d, f.dirs[d].used + 1 + 16);
            let stale = f.raw_entry(&name11("STALE3.OLD"), 0x20, 0, 5);
            f.img.write_bytes(blk, off as usize, &stale);
        }
        if f.dirs[d].used + 3 < cap - 1 {
            let (blk, off) = f.slot_loc(d, cap - 1);
            let stale = f.raw_entry(&name11("STALE4.OLD"), 0x10, 3, 0);
            f.img.write_bytes(blk, off as usize, &stale);
        }
    }
    d
}

struct DirCase {
    path: String,
    stale: bool,
}

fn check_dir(vm: &dyn Vm, vol: RawVolume, snap: &Snap, path: &str, loc: DirLoc, parent_loc: Option<DirLoc>, rng: &mut Rng, probes: &[ShortFileName], rep: &mut Report, case: &dyn Fn() -> J, max_ballast: usize) -> Result<bool, E> {
    // other directory handles held open meanwhile (opened first, so they sit in front of `d` in
    // the library's table): what a handle designates must not depend on its neighbours
    let mut held: Vec<RawDirectory> = Vec::new();
    let ballast = rng.usize_below(max_ballast + 1);
    for _ in 0..ballast {
        held.push(vm.open_root_dir(Fl::Raw, vol)?);
    }
    let r = check_dir_inner(vm, vol, snap, path, loc, parent_loc, rng, probes, rep, case);
    for h in held {
        let _ = vm.close_dir(Fl::Raw, h);
    }
    r
}

fn check_dir_inner(vm: &dyn Vm, vol: RawVolume, snap: &Snap, path: &str, loc: DirLoc, parent_loc: Option<DirLoc>, rng: &mut Rng, probes: &[ShortFileName], rep: &mut Report, case: &dyn Fn() -> J) -> Result<bool, E> {
    let d = fsx::open_path(vm, vol, path)?;
    let want = expected_listing(snap, loc);
    let fl = *rng.pick(&[Fl::Raw, Fl::Wrap]);
    // 1. iterate_dir
    let mut got = Vec::new();
    vm.iterate(fl, d, &mut |e| got.push(fsx::view(e)))?;
    rep.count("entries_delivered", got.len() as u64);
    if let Some((field, msg)) = diff_listing(&got, &want) {
        rep.violate(v(if field.contains("entries") || field == "name/order" { "C06.seq" } else { "C06.field" }, "iterate_dir", &field, format!("{}: {}", if path.is_empty() { "<root>" } else { path }, msg), case()));
        let _ = vm.close_dir(Fl::Raw, d);
        return Ok(true);
    }
    // 2. iterate_dir_lfn delivers the same short entries
    let mut buf = vec![0u8; 256];
    let mut got2 = Vec::new();
    vm.iterate_lfn(fl, d, &mut buf, &mut |e, _| got2.push(fsx::view(e)))?;
    if got2 != got {
        rep.violate(v("C06.seq", "iterate_dir_lfn", "differs from iterate_dir", format!("{}: iterate_dir_lfn delivered {} entries, iterate_dir {}", path, got2.len(), got.len()), case()));
        let _ = vm.close_dir(Fl::Raw, d);
        return Ok(true);
    }
    // 3. lookups: every listed name must resolve to the FIRST matching listed slot; absent names NotFound
    let mut bad = false;
    let listed_names: Vec<[u8; 11]> = want.iter().map(|e| e.name).collect();
    // obtain ShortFileName objects for the listed names from the library's own listing
    let mut sfns: Vec<ShortFileName> = Vec::new();
    vm.iterate(Fl::Raw, d, &mut |e| sfns.push(e.name.clone()))?;
    let mut lookup = |name: Nm, key: [u8; 11], rep: &mut Report| -> Result<bool, E> {
        let r = vm.find(fl, d, name);
        let first = want.iter().find(|e| e.name == key);
        rep.count("lookups", 1);
        match (r, first) {
            (Ok(e), Some(w)) => {
                let g = fsx::view(&e);
                if &g != w {
                    rep.violate(v("C06.lookup", "find_directory_entry", "not the first matching entry", format!("{}: lookup of {:?} returned {:?}, first live match is {:?}", path, fatref::display_name(&key), g, w), case()));
                    return Ok(true);
                }
            }
            (Err(e), None) if ek(&e) == Ek::NotFound => {}
            (Ok(e), None) => {
                rep.violate(v("C06.lookup", "find_directory_entry", "found a name that is not listed", format!("{}: lookup of {:02x?} succeeded ({:?}) but no listed entry has that name", path, key, fsx::view(&e)), case()));
                return Ok(true);
            }
            (Err(e), Some(_)) => {
                rep.violate(v("C06.lookup", "find_directory_entry", "listed name not found", format!("{}: lookup of listed name {:?} failed with {:?}", path, fatref::display_name(&key), e), case()));
                return Ok(true);
            }
            (Err(e), None) => {
                rep.violate(v("C06.lookup", "find_directory_entry", "wrong error", format!("{}: lookup of absent name failed with {:?} instead of NotFound", path, e), case()));
                return Ok(true);
            }
        }
        Ok(false)
    };
    for (i, s) in sfns.iter().enumerate() {
        if i > 40 && i % 7 != 0 {
            continue;
        }
        bad |= lookup(Nm::Sfn(s), crate::codec::entry::sfn_bytes(s), rep)?;
        if bad {
            break;
        }
    }
    if !bad {
        // deleted names (first byte restored), absent names, patterns from LFN slots / foreign dirs
        let (all, _, _) = snap.dir_slots(loc);
        for s in all.iter().filter(|s| s.is_deleted()).take(6) {
            let mut nm = s.name();
            nm[0] = b'D';
            let txt = fatref::display_name(&nm);
            if !listed_names.contains(&nm) && crate::codec::entry::name_ref(&txt) != crate::codec::entry::NameRef::Reject {
                bad |= lookup(Nm::Str(&txt), nm, rep)?;
            }
        }
        // names of stale slots behind the end marker (same block, a later block, the last slot)
        for txt in ["STALE.OLD", "STALE2.OLD", "STALE3.OLD", "STALE4.OLD", "GHOST.BIN"] {
            let nm = name11(txt);
            if !listed_names.contains(&nm) {
                bad |= lookup(Nm::Str(txt), nm, rep)?;
                if !bad {
                    if let Ok(nd) = vm.open_dir(fl, d, Nm::Str(txt)) {
                        let _ = vm.close_dir(Fl::Raw, nd);
                        rep.violate(v("C06.opendir", "open_dir", "absent name", format!("{}: open_dir({:?}) succeeded although the listing has no such entry (a slot behind the end marker)", path, txt), case()));
                        bad = true;
                    }
                }
            }
            if bad {
                break;
            }
        }
        for k in 0..4 {
            if bad {
                break;
            }
            let txt = format!("ABSENT{}.Q{}", k, k);
            let nm = name11(&txt);
            if !listed_names.contains(&nm) {
                bad |= lookup(Nm::Str(&txt), nm, rep)?;
            }
        }
        for p in probes.iter().take(24) {
            let key = crate::codec::entry::sfn_bytes(p);
            bad |= lookup(Nm::Sfn(p), key, rep)?;
            if bad {
                break;
            }
        }
    }
    // 4. open_dir for every listed entry
    if !bad {
        for (i, w) in want.iter().enumerate() {
            if i > 30 && i % 5 != 0 {
                continue;
            }
            if w.attr6 & 0x08 != 0 {
                continue; // volume labels: statement silent
            }
            let first = want.iter().find(|e| e.name == w.name).unwrap();
            let is_dir = first.attr6 & 0x10 != 0;
            let r = vm.open_dir(fl, d, Nm::Sfn(&sfns[i]));
            rep.count("open_dir_calls", 1);
            match r {
                Ok(nd) => {
                    if !is_dir {
                        rep.violate(v("C06.opendir", "open_dir", "file opened as directory", format!("{}: open_dir({:?}) succeeded on a file", path, fatref::display_name(&w.name)), case()));
                        bad = true;
                    } else {
                        // which directory did we get?
                        let target = if &w.name == b".          " {
                            loc
                        } else if first.cluster == 0xFFFF_FFFC {
                            snap.root_loc()
                        } else {
                            DirLoc::Cluster(first.cluster)
                        };
                        let _ = parent_loc;
                        let valid_target = match target {
                            DirLoc::Cluster(c) => snap.vol.in_range(c),
                            DirLoc::Root16 => true,
                        };
                        if valid_target {
                            let want2 = expected_listing(snap, target);
                            let mut got3 = Vec::new();
                            vm.iterate(Fl::Raw, nd, &mut |e| got3.push(fsx::view(e)))?;
                            if let Some((field, msg)) = diff_listing(&got3, &want2) {
                                rep.violate(v("C06.opendir", "open_dir", &format!("leads elsewhere ({})", if &w.name == b"..         " { "dot-dot" } else if &w.name == b".          " { "dot" } else { "named" }), format!("{}: open_dir({:?}) lists differently from the designated directory: {} {}", path, fatref::display_name(&w.name), field, msg), case()));
                                bad = true;
                            }
                        }
                    }
                    vm.close_dir(Fl::Raw, nd)?;
                }
                Err(e) => {
                    let k = ek(&e);
                    if is_dir {
                        rep.violate(v("C06.opendir", "open_dir", "directory not opened", format!("{}: open_dir({:?}) failed with {:?}", path, fatref::display_name(&w.name), e), case()));
                        bad = true;
                    } else if k != Ek::OpenedFileAsDir {
                        rep.violate(v("C06.opendir", "open_dir", "wrong error for a file", format!("{}: open_dir on a file gave {:?}", path, e), case()));
                        bad = true;
                    }
                }
            }
            if bad {
                break;
            }
        }
        // "." by name designates the directory itself (also in the root, which has no such entry)
        if !bad {
            match vm.open_dir(fl, d, Nm::Str(".")) {
                Ok(nd) => {
                    let mut got3 = Vec::new();
                    vm.iterate(Fl::Raw, nd, &mut |e| got3.push(fsx::view(e)))?;
                    rep.count("open_dir_calls", 1);
                    if let Some((field, msg)) = diff_listing(&got3, &want) {
                        rep.violate(v("C06.opendir", "open_dir", "leads elsewhere (dot by name)", format!("{}: open_dir(\".\") lists differently from the directory itself: {} {}", if path.is_empty() { "<root>" } else { path }, field, msg), case()));
                        bad = true;
                    }
                    vm.close_dir(Fl::Raw, nd)?;
                }
                Err(e) => {
                    rep.violate(v("C06.opendir", "open_dir", "directory not opened", format!("{}: open_dir(\".\") failed with {:?}", path, e), case()));
                    bad = true;
                }
            }
        }
        // absent directory
        if !bad {
            match vm.open_dir(fl, d, Nm::Str("NOSUCH.DIR")) {
                Err(e) if ek(&e) == Ek::NotFound => {}
                other => {
                    if !listed_names.contains(&name11("NOSUCH.DIR")) {
                        rep.violate(v("C06.opendir", "open_dir", "absent name", format!("{}: open_dir of an absent name gave {:?}", path, other.map(|_| "Ok")), case()));
                        bad = true;
                    }
                }
            }
        }
    }
    vm.close_dir(Fl::Raw, d)?;
    Ok(bad)
}

fn one_case(ctx: &Ctx, i: usize, rep: &mut Report) {
    let mut rng = Rng::from_parts(&[ctx.seed, 6, i as u64]);
    let fat32 = i % 3 == 1;
    let mut g = Geom::random(&mut rng, Some(fat32), if fat32 { 2 } else { 4 });
    if !fat32 {
        // (also counts that do not fill the last root block: the library must round the region UP;
        // the formatter zero-fills the rest of that block, so both readers agree on the listing)
        g.root_entries = *rng.pick(&[16u32, 32, 112, 512, 40, 24, 100, 200, 1024, 2048, 4096, 2040]);
    }
    let spc = g.spc as usize;
    let per = spc * 16;
    let mut f = Fmt::new(g, Rng::new(rng.next_u64()));
    // the root itself gets a mix too
    let root_target = if f.g.fat32 { *rng.pick(&[per - 1, per, per + 1, 3, 2 * per + 1]) } else { (f.g.root_entries as usize).min(*rng.pick(&[5usize, 15, 16, 31, 40, 111, 200, 512])) };
    gen_dir(&mut f, 0, "", &mut rng, root_target.saturating_sub(6), false);
    let mut cases: Vec<DirCase> = Vec::new();
    let ndirs = 1 + rng.usize_below(3);
    for k in 0..ndirs {
        if !f.g.fat32 && f.dirs[0].used + 2 >= f.dir_capacity(0) {
            break;
        }
        // end marker in every interesting position: last slot of a cluster, first of the next, ...
        let clusters = 1 + rng.usize_below(6);
        let target = match rng.below(6) {
            0 => clusters * per - 1,
            1 => clusters * per,
            2 => clusters * per + 1,
            3 => 2,
            4 => rng.usize_below(200.min(clusters * per)) + 2,
            _ => clusters * per - 2,
        }
        .min(220 + per);
        let name = format!("DIR{}", k);
        let stale = rng.chance(1, 3);
        let d = gen_dir(&mut f, 0, &name, &mut rng, target, stale);
        cases.push(DirCase { path: f.dirs[d].path.clone(), stale });
    }
    // a "probe" directory whose SHORT entries carry byte patterns that elsewhere occur only in
    // LFN slots / deleted slots – listing it yields ShortFileName objects with those bytes
    let mut probe_raws: Vec<[u8; 32]> = Vec::new();
    if f.g.fat32 || f.dirs[0].used + 2 < f.dir_capacity(0) {
        let long: Vec<u16> = "long name number 1 \u{e9}".encode_utf16().collect();
        for s in lfn_slots(&long, &name11("LFN1~1.TXT")).into_iter().chain(lfn_slots(&"orphan".encode_utf16().collect::<Vec<u16>>(), &name11("NOBODY.TXT"))) {
            let mut nm = [0u8; 11];
            nm.copy_from_slice(&s[..11]);
            probe_raws.push(f.raw_entry(&nm, 0x20, 0, 1));
        }
        let pd = f.mkdir(0, &name11("PROBES"), 0, Alloc::Seq);
        for r in &probe_raws {
            f.put_slot(pd, r, Alloc::Seq);
        }
    }
    // a FAT16 root whose entry count does not fill its last block: fill it to the very last slot and
    // put a live-looking entry into the padding behind it - that is not part of the directory
    let mut ghost: Option<(u32, usize)> = None;
    if !f.g.fat32 && f.g.root_entries % 16 != 0 && rng.chance(1, 2) {
        let mut k = 0;
        while f.dirs[0].used < f.dir_capacity(0) {
            f.add_file(0, &name11(&format!("ZF{}.E", k)), 0x20, &[], Alloc::Seq);
            k += 1;
        }
        let idx = f.g.root_entries;
        let (blk, off) = (f.g.root_start() + idx / 16, ((idx % 16) * 32) as usize);
        let raw = f.raw_entry(&name11("GHOST.BIN"), 0x20, 77, 5);
        f.img.write_bytes(blk, off, &raw);
        ghost = Some((blk, off));
    }
    let (img, g, _) = f.finish();
    let snap = match Snap::open(&img, g.part_slot) {
        Ok(s) => s,
        Err(e) => {
            rep.inconclusive.push(format!("independent reader rejects formatter output: {}", e));
            return;
        }
    };
    let w = snap.walk();
    let case = || J::obj().set("geometry", g.describe()).set("case_index", i);
    let limits = *rng.pick(&[(4usize, 4usize, 1usize), (8, 8, 4), (2, 2, 1), (3, 5, 2)]);
    let m = fsx::mount_image(img.clone(), limits, 5000);
    let max_ballast = limits.0.saturating_sub(2);
    let res = report::catch(|| -> Result<bool, E> {
        let vol = m.vm.open_volume(Fl::Raw, g.part_slot)?;
        // probe names
        let mut probes: Vec<ShortFileName> = Vec::new();
        if !probe_raws.is_empty() {
            let pd = fsx::open_path(&*m.vm, vol, "PROBES")?;
            m.vm.iterate(Fl::Raw, pd, &mut |e| {
                if e.name != ShortFileName::this_dir() && e.name != ShortFileName::parent_dir() {
                    probes.push(e.name.clone())
                }
            })?;
            m.vm.close_dir(Fl::Raw, pd)?;
        }
        let mut bad = check_dir(&*m.vm, vol, &snap, "", snap.root_loc(), None, &mut rng, &probes, rep, &case, max_ballast)?;
        rep.evaluations += 1;
        // every directory in the tree (generated ones and their children)
        for n in w.nodes.iter().filter(|n| n.is_dir) {
            if bad {
                break;
            }
            if n.depth > 1 && rng.chance(1, 2) {
                continue;
            }
            if !snap.vol.in_range(n.start) {
                continue;
            }
            bad |= check_dir(&*m.vm, vol, &snap, &n.path, DirLoc::Cluster(n.start), Some(n.parent_dir), &mut rng, &probes, rep, &case, max_ballast)?;
            rep.evaluations += 1;
            rep.distinct.insert(crate::prng::mix(&[g.hash(), crate::prng::hash_bytes(n.path.as_bytes()), i as u64]));
        }
        // then a short API history in one generated directory and the same comparison again
        // (not in directories where we planted stale slots behind the end marker: consuming the
        // marker slot legitimately revives them)
        let cases: Vec<&DirCase> = cases.iter().filter(|c| !c.stale).collect();
        if !bad && !cases.is_empty() {
            let dc = cases[rng.usize_below(cases.len())];
            let d = fsx::open_path(&*m.vm, vol, &dc.path)?;
            let mut created: Vec<String> = Vec::new();
            for k in 0..(3 + rng.usize_below(10)) {
                let nm = format!("NEW{}.X", k);
                match rng.below(4) {
                    0 if !created.is_empty() => {
                        let victim = created.remove(rng.usize_below(created.len()));
                        m.vm.delete(Fl::Raw, d, Nm::Str(&victim))?;
                    }
                    1 => match m.vm.mkdir(Fl::Raw, d, Nm::Str(&format!("ND{}", k))) {
                        Ok(()) => {}
                        Err(e) if crate::vm::is_space_error(ek(&e)) => {}
                        Err(e) => return Err(e),
                    },
                    _ => match m.vm.open_file(Fl::Raw, d, Nm::Str(&nm), Mode::ReadWriteCreate) {
                        Ok(fh) => {
                            let _ = m.vm.write(Fl::Raw, fh, &fsx::payload(k as u32, 0, 10 + k * 100));
                            m.vm.close_file(Fl::Raw, fh)?;
                            created.push(nm);
                        }
                        Err(e) if crate::vm::is_space_error(ek(&e)) => {}
                        Err(e) => return Err(e),
                    },
                }
            }
            m.vm.close_dir(Fl::Raw, d)?;
            let img2 = m.disk.image();
            let snap2 = Snap::open(&img2, g.part_slot).map_err(|_| embedded_sdmmc::Error::FormatError("fatref"))?;
            let w2 = snap2.walk();
            let case2 = || J::obj().set("geometry", g.describe()).set("case_index", i).set("after_history_in", dc.path.clone());
            if let Some(n) = w2.nodes.iter().find(|n| n.path == dc.path) {
                bad |= check_dir(&*m.vm, vol, &snap2, &dc.path, DirLoc::Cluster(n.start), Some(n.parent_dir), &mut rng, &[], rep, &case2, max_ballast)?;
                rep.evaluations += 1;
                rep.count("directories_rechecked_after_api_history", 1);
            }
        }
        // the full fixed-size root takes no further entry, and the padding behind it stays as it is
        // (a deleted slot among the root entries is a free slot: then one more entry does fit)
        let root_full = {
            let (slots, _, _) = snap.dir_slots(snap.root_loc());
            !slots.iter().any(|s| s.is_deleted() || s.is_end())
        };
        if let (false, Some((blk, off)), true) = (bad, ghost, root_full) {
            let before = m.disk.image().read(blk);
            let root = m.vm.open_root_dir(Fl::Raw, vol)?;
            let r = m.vm.open_file(Fl::Raw, root, Nm::Str("ONEMORE.X"), Mode::ReadWriteCreate);
            rep.count("creates_in_a_full_fat16_root", 1);
            match r {
                Err(e) if crate::vm::is_space_error(ek(&e)) => {}
                other => {
                    if let Ok(fh) = other.as_ref() {
                        let _ = m.vm.close_file(Fl::Raw, *fh);
                    }
                    rep.violate(v("C06.seq", "open_file_in_dir", "entry created behind the last root slot", format!("the FAT16 root has {} entries, all in use, yet creating one more gave {:?}", g.root_entries, other.map(|_| "Ok").map_err(|e| ek(&e))), case()));
                    bad = true;
                }
            }
            let after = m.disk.image().read(blk);
            if !bad && after[off..] != before[off..] {
                rep.violate(v("C06.seq", "open_file_in_dir", "padding behind the root changed", format!("bytes behind the last of the {} root entries changed", g.root_entries), case()));
                bad = true;
            }
            m.vm.close_dir(Fl::Raw, root)?;
        }
        m.vm.close_volume(Fl::Raw, vol)?;
        Ok(bad)
    });
    match res {
        Err((pm, loc)) => rep.violate(v("C06.seq", "iterate_dir/find/open_dir", &format!("panic {}", report::short_loc(&loc)), format!("panic '{}'", pm), case())),
        Ok(Err(e)) => rep.violate(v("C06.seq", "iterate_dir/find/open_dir", &format!("error {:?}", ek(&e)), format!("unexpected error {:?} on a well-formed volume", e), case())),
        Ok(Ok(_)) => {}
    }
    if i < 2 {
        rep.samples.push(J::obj().set("kind", "directory set").set("geometry", g.describe()).set("directories", J::Arr(w.nodes.iter().filter(|n| n.is_dir).take(8).map(|n| J::s(n.path.as_str())).collect())).set("root_live_entries", expected_listing(&snap, snap.root_loc()).len()));
    }
    let _ = Slot { blk: 0, off: 0, raw: [0; 32] };
    let _: Option<RawDirectory> = None;
}

pub fn run(ctx: &Ctx) -> i32 {
    let n = ctx.pick(6000usize, 150_000usize);
    let total = report::parallel(ctx.threads, n, |i, rep| one_case(ctx, i, rep));
    report::finish(
        ctx,
        total,
        Evidence {
            level: "exploration",
            rule: "a case is one directory (root or sub-directory of a formatter-made volume with a random mix of live/deleted/LFN/label slots, fragmented multi-cluster chains, end marker at cluster edges, FAT16 roots of 16/32/112/512 entries, FAT32 roots at several start clusters) compared entry-for-entry (all fields and the slot location) between iterate_dir/iterate_dir_lfn/find_directory_entry/open_dir and the independent reader; distinct = distinct (geometry, directory path, case) triples; a case is non-trivial because each performs a full listing comparison".into(),
            assumptions: vec![
                "the independent reader (fatref) is correct; it is cross-validated in selftest against the formatter and the repository's macOS-made image".into(),
                "slots count as long-name fragments when (attr & 0x3F) == 0x0F, as the specification says; attribute bytes 0x1F, 0x2F, 0x3F are generated".into(),
                "volume-label slots are never opened by name".into(),
            ],
            exhaustive: None,
            extra: vec![],
            min_distinct: 100,
            min_counters: vec![],
        },
    )
}
