//! C15 – mounting: every valid layout is located, bad sectors never panic.

use crate::dev::{Image, Source};
use crate::fatref::{self, Snap};
use crate::fsx::{self, Recipe};
use crate::json::J;
use crate::mkfs::{name11, Alloc, Fmt, FsInfoInit, Geom};
use crate::prng::Rng;
use crate::report::{self, Ctx, Evidence, Report, Violation};
use crate::vm::{Fl, Nm};
use std::collections::HashSet;

fn v(rule: &str, call: &str, detail: &str, msg: String, case: J) -> Violation {
    Violation::new("C15", rule, call, detail, msg, case)
}

fn geometry_list(ctx: &Ctx, rng: &mut Rng) -> Vec<Geom> {
    let mut out = Vec::new();
    // classification boundaries, both widths
    for (clusters, fat32) in [(4085u32, false), (4086, false), (65524, false), (65525, true), (65526, true), (65519, false), (65521, false), (65523, false)] {
        for spc in [1u32, 2] {
            let mut g = if fat32 { Geom::base_fat32(clusters, spc) } else { Geom::base_fat16(clusters, spc) };
            g.part_slot = rng.usize_below(4);
            g.nfats = 1 + rng.below(2) as u32;
            out.push(g);
        }
    }
    // root directories whose size does not fill the last block, and very large ones, at the
    // classification boundaries (the root size enters the cluster count)
    for clusters in [4085u32, 65524] {
        for root in [24u32, 40, 100, 200, 2048, 4096] {
            for spc in [1u32, 2, 4] {
                let mut g = Geom::base_fat16(clusters, spc);
                g.root_entries = root;
                g.tail = spc - 1;
                g.nfats = 1 + rng.below(2) as u32;
                g.part_slot = rng.usize_below(4);
                out.push(g);
            }
        }
    }
    // the systematic sweep of the statement
    let spcs = [1u32, 2, 4, 8, 16, 32, 64, 128];
    for &spc in &spcs {
        for fat32 in [false, true] {
            for nfats in [1u32, 2, 3, 4] {
                let per = if fat32 { 128 } else { 256 };
                let lo = if fat32 { 65525 } else { 4085 };
                let clusters = lo + rng.below(2 * per as u64) as u32;
                let mut g = if fat32 { Geom::base_fat32(clusters, spc) } else { Geom::base_fat16(clusters, spc) };
                g.nfats = nfats;
                g.reserved = if fat32 { *rng.pick(&[2u32, 7, 32, 65535]) } else { *rng.pick(&[1u32, 2, 32, 65535]) };
                g.root_entries = if fat32 { 0 } else { *rng.pick(&[16u32, 32, 112, 512, 1024, 2048]) };
                g.force_total32 = rng.chance(1, 2);
                g.part_slot = rng.usize_below(4);
                g.part_start = *rng.pick(&[1u32, 63, 2048, 0xFFF0_0000]);
                if g.part_start as u64 + g.part_len() as u64 + 200 > u32::MAX as u64 {
                    g.part_start = 2048;
                }
                g.part_type = if fat32 { *rng.pick(&[0x0Bu8, 0x0C]) } else { *rng.pick(&[0x04u8, 0x06, 0x0E]) };
                g.tail = if spc > 1 { rng.below(spc as u64) as u32 } else { 0 };
                g.mbr_len_extra = *rng.pick(&[0u32, 0, 1, 5, 64, 1000]);
                g.fat_extra = rng.below(3) as u32;
                if fat32 {
                    g.root_cluster = *rng.pick(&[2u32, 5, clusters + 1, 2 + clusters / 2]);
                    g.fsinfo = match rng.below(4) {
                        0 => FsInfoInit::Unknown,
                        1 => FsInfoInit::Custom { count: rng.next_u32(), hint: rng.next_u32() },
                        _ => FsInfoInit::Correct,
                    };
                    g.high_nibbles = rng.chance(1, 2);
                }
                g.eoc_variants = rng.chance(1, 2);
                out.push(g);
            }
        }
    }
    let extra = ctx.pick(400usize, 6000usize);
    for _ in 0..extra {
        let fat32 = rng.chance(1, 3);
        let mut g = Geom::random(rng, Some(fat32), 128);
        if fat32 && rng.chance(1, 4) {
            g.fsinfo = FsInfoInit::Custom { count: *rng.pick(&[0u32, 1, 0xFFFF_FFFE, g.clusters + 5]), hint: *rng.pick(&[0u32, 1, 2, g.clusters + 2, 0x0FFF_FFF8]) };
        }
        out.push(g);
    }
    out
}

fn valid_case(g: Geom, idx: usize, seed: u64, rep: &mut Report) {
    let mut rng = Rng::from_parts(&[seed, 15, 1, idx as u64]);
    let mut f = Fmt::new(g, Rng::new(rng.next_u64()));
    fsx::populate(&mut f, if idx % 2 == 0 { Recipe::Small } else { Recipe::Rich }, &mut rng);
    // a file in the first and one in the last data cluster, and one whose chain jumps between
    // distant FAT sectors
    let room = f.dir_capacity(0).saturating_sub(f.dirs[0].used);
    let sub0 = f.dirs.iter().position(|d| d.path == "SUB0").unwrap_or(0);
    let target = if room >= 4 || f.g.fat32 { 0 } else { sub0 };
    let cb = f.g.cluster_bytes() as usize;
    if f.fat[2] == 0 {
        f.add_file(target, &name11("FIRSTCL.BIN"), 0x20, &fsx::payload(7001, 0, cb.min(2000)), Alloc::Seq);
    }
    let last = (f.g.clusters + 1) as usize;
    if f.fat[last] == 0 {
        f.add_file(target, &name11("LASTCL.BIN"), 0x20, &fsx::payload(7002, 0, cb.min(3000)), Alloc::Tail);
    }
    // a chain that runs through the highest cluster numbers of the volume
    f.add_file(target, &name11("TAILCHN.BIN"), 0x20, &fsx::payload(7004, 0, (4 * cb + 9).min(500_000)), Alloc::Tail);
    f.add_file(target, &name11("JUMPY.BIN"), 0x20, &fsx::payload(7003, 0, (5 * cb + 11).min(700_000)), Alloc::Scatter);
    let (img, g, placed) = f.finish();
    let case = || J::obj().set("geometry", g.describe()).set("case_index", idx);
    let snap = match Snap::open(&img, g.part_slot) {
        Ok(s) => s,
        Err(e) => {
            rep.inconclusive.push(format!("independent reader rejects formatter output: {} [{}]", e, g.describe()));
            return;
        }
    };
    let w = snap.walk();
    // blocks the library may legitimately read: MBR, boot sector, FSInfo, FAT copy 0, root region,
    // clusters that belong to some object
    let mut allowed_clusters: HashSet<u32> = w.owner.keys().cloned().collect();
    if g.fat32 {
        allowed_clusters.insert(g.root_cluster);
    }
    let m = fsx::mount_image(img.clone(), (4, 4, 1), 5000);
    m.disk.with(|s| s.record_reads = true);
    let res = report::catch(|| {
        let vol = m.vm.open_volume(if idx % 2 == 0 { Fl::Raw } else { Fl::Wrap }, g.part_slot)?;
        let mut seen: Vec<(String, u32, Vec<u8>)> = Vec::new();
        // walk every directory the formatter made
        let mut dirs: Vec<String> = vec![String::new()];
        dirs.extend(placed.iter().filter(|p| p.is_dir).map(|p| p.path.clone()));
        for dp in dirs {
            let d = fsx::open_path(&*m.vm, vol, &dp)?;
            let listing = fsx::list_dir(&*m.vm, d)?;
            for e in listing {
                if e.attr6 & 0x18 != 0 || e.attr6 & 0x0F == 0x0F {
                    continue;
                }
                let nm = fatref::display_name(&e.name);
                let full = if dp.is_empty() { nm.clone() } else { format!("{}/{}", dp, nm) };
                let want = placed.iter().find(|p| p.path == full);
                let data = match want {
                    Some(p) if p.data.is_some() => fsx::read_all(&*m.vm, d, Nm::Str(&nm), 4096 + (idx % 3) * 1000)?,
                    _ => Vec::new(),
                };
                seen.push((full, e.size, data));
            }
            m.vm.close_dir(Fl::Raw, d)?;
        }
        m.vm.close_volume(Fl::Raw, vol)?;
        Ok::<_, crate::vm::E>(seen)
    });
    rep.evaluations += 1;
    match res {
        Err((pm, loc)) => {
            rep.violate(v("C15.panic", "open_volume/list/read (valid image)", &report::short_loc(&loc), format!("panic '{}' on a well-formed volume", pm), case()));
            return;
        }
        Ok(Err(e)) => {
            rep.violate(v("C15.valid-refused", "open_volume/list/read", &format!("{:?}", crate::vm::ek(&e)), format!("well-formed volume failed with {:?}", e), case()));
            return;
        }
        Ok(Ok(seen)) => {
            for p in placed.iter().filter(|p| !p.is_dir) {
                match seen.iter().find(|s| s.0 == p.path) {
                    None => {
                        rep.violate(v("C15.valid-misread", "iterate_dir", "file not listed", format!("{} placed by the formatter is not listed", p.path), case()));
                        return;
                    }
                    Some(s) => {
                        if s.1 != p.size {
                            rep.violate(v("C15.valid-misread", "iterate_dir", "size", format!("{}: size {} != {}", p.path, s.1, p.size), case()));
                            return;
                        }
                        if let Some(d) = &p.data {
                            if &s.2 != d {
                                let at = s.2.iter().zip(d.iter()).position(|(a, b)| a != b).unwrap_or(s.2.len().min(d.len()));
                                rep.violate(v("C15.valid-misread", "read", "contents", format!("{}: contents differ at byte {} (read {} of {})", p.path, at, s.2.len(), d.len()), case()));
                                return;
                            }
                        }
                    }
                }
            }
        }
    }
    // where did the library look?
    let reads: Vec<(u32, u32)> = m.disk.with(|s| s.reads.clone());
    let vol = &snap.vol;
    for (_, idx_blk) in &reads {
        let b = *idx_blk;
        let ok = b == 0
            || b == vol.part_start
            || (vol.fat32 && b == vol.fsinfo_blk)
            || (b >= vol.fat_blk && b < vol.fat_blk + vol.fat_size)
            || (!vol.fat32 && b >= vol.root_blk && b < vol.root_blk + vol.root_blocks)
            || (b >= vol.data_blk && b < vol.data_end() && allowed_clusters.contains(&(2 + (b - vol.data_blk) / vol.spc)));
        if !ok {
            let region = if b < vol.part_start || b >= vol.part_start + vol.part_len {
                "outside the partition"
            } else if b < vol.fat_blk {
                "reserved area"
            } else if b < vol.root_blk {
                "second FAT copy"
            } else if b >= vol.data_end() {
                "past the last cluster"
            } else {
                "cluster that belongs to no object"
            };
            rep.violate(v("C15.region", "open_volume/list/read", region, format!("library read block {} ({})", b, region), case()));
            return;
        }
    }
    rep.count("valid_volumes_mounted", 1);
    rep.count("files_read_back", placed.iter().filter(|p| p.data.is_some()).count() as u64);
    rep.count("device_reads_classified", reads.len() as u64);
    rep.distinct.insert(g.hash());
    if idx < 2 {
        rep.samples.push(J::obj().set("kind", "valid layout").set("geometry", g.describe()).set("objects", placed.len()).set("device_reads", reads.len()));
    }
}

/// Cluster counts just below the FAT16 minimum must be refused (FAT12 is unsupported).
fn fat12_case(clusters: u32, rep: &mut Report) {
    let mut g = Geom::base_fat16(clusters, 1);
    g.neighbours = false;
    let f = Fmt::new(g, Rng::new(1));
    let (img, g, _) = f.finish();
    let m = fsx::mount_image(img, (4, 4, 1), 5000);
    let r = report::catch(|| m.vm.open_volume(Fl::Raw, g.part_slot));
    rep.evaluations += 1;
    match r {
        Ok(Err(_)) => rep.count("fat12_refused", 1),
        Ok(Ok(_)) => rep.violate(v("C15.width", "open_raw_volume", "FAT12 accepted", format!("a volume with {} clusters (FAT12) was opened", clusters), J::obj().set("clusters", clusters))),
        Err((pm, loc)) => rep.violate(v("C15.panic", "open_raw_volume", &report::short_loc(&loc), format!("panic '{}' on a {}-cluster volume", pm, clusters), J::obj().set("clusters", clusters))),
    }
}

// ---- invalid side ------------------------------------------------------------------------------

struct Base {
    img: Image,
    g: Geom,
}

fn bases() -> Vec<Base> {
    let mut out = Vec::new();
    let mut rng = Rng::new(0xBA5E);
    for (k, (fat32, start)) in [(false, 63u32), (true, 2048), (false, 0xFFF0_0000), (true, 0xFFF0_0000), (false, 1), (true, 1), (false, 2048), (true, 63)].into_iter().enumerate() {
        let mut g = if fat32 { Geom::base_fat32(65525 + 300, 1) } else { Geom::base_fat16(4085 + 300, 2) };
        g.part_start = start;
        // vary the small fields too: sums that are one mutation away from wrapping differ per base
        g.nfats = if k % 2 == 0 { 1 } else { 2 };
        if k >= 4 {
            g.reserved = if fat32 { 2 } else { 1 };
            g.root_entries = if fat32 { 0 } else { 16 };
        }
        g.part_slot = rng.usize_below(4);
        g.neighbours = false;
        let mut f = Fmt::new(g, Rng::new(7));
        fsx::populate(&mut f, Recipe::Small, &mut rng);
        let (img, g, _) = f.finish();
        out.push(Base { img, g });
    }
    // headers relocated to the very end of the 32-bit block space: every `partition start + x`
    // the mount computes is one mutation away from wrapping
    let n = out.len();
    for i in 0..n {
        let b = Base { img: out[i].img.clone(), g: out[i].g.clone() };
        if b.g.part_start != 1 {
            continue;
        }
        for new_start in [0xFFFF_FF00u32, 0xFFFF_FFFE] {
            let mut img = b.img.clone();
            img.nblocks = u32::MAX;
            for k in 0..8u32 {
                if new_start.checked_add(k).map(|x| x < u32::MAX).unwrap_or(false) {
                    let blk = b.img.read(b.g.part_start + k);
                    img.write(new_start + k, &blk);
                }
            }
            let mut mbr = img.read(0);
            let o = 446 + 16 * b.g.part_slot;
            mbr[o + 8..o + 12].copy_from_slice(&new_start.to_le_bytes());
            img.write(0, &mbr);
            let mut g = b.g.clone();
            g.part_start = new_start;
            out.push(Base { img, g });
        }
    }
    out
}

/// (sector selector, offset, width) of every field in MBR partition entry / BPB / FSInfo
fn fields(g: &Geom) -> Vec<(u8, usize, usize)> {
    let mut v = Vec::new();
    let o = 446 + 16 * g.part_slot;
    for (off, w) in [(0usize, 1usize), (4, 1), (8, 4), (12, 4)] {
        v.push((0u8, o + off, w));
    }
    v.push((0, 510, 2));
    for (off, w) in [(11usize, 2usize), (13, 1), (14, 2), (16, 1), (17, 2), (19, 2), (21, 1), (22, 2), (24, 2), (26, 2), (28, 4), (32, 4), (36, 4), (40, 2), (42, 2), (44, 4), (48, 2), (50, 2), (510, 2)] {
        v.push((1, off, w));
    }
    for (off, w) in [(0usize, 4usize), (484, 4), (488, 4), (492, 4), (508, 4)] {
        v.push((2, off, w));
    }
    v
}

fn sector_of(g: &Geom, sel: u8) -> u32 {
    match sel {
        0 => 0,
        1 => g.part_start,
        _ => g.part_start.saturating_add(1).min(u32::MAX - 1),
    }
}

fn set_field(img: &mut Image, blk: u32, off: usize, w: usize, val: u32) {
    let mut b = img.read(blk);
    let bytes = val.to_le_bytes();
    b[off..off + w].copy_from_slice(&bytes[..w]);
    img.write(blk, &b);
}

fn boundary_values(w: usize) -> Vec<u32> {
    let max: u32 = if w >= 4 { u32::MAX } else { (1u32 << (8 * w)) - 1 };
    let mut v = vec![0, 1, max, max - 1, max / 2 + 1, 2, max.saturating_sub(2), max.saturating_sub(32), max.saturating_sub(33), max.saturating_sub(513)];
    v.dedup();
    v
}

fn try_open(img: Image, g: &Geom, what: &str, case: &dyn Fn() -> J, rep: &mut Report) {
    // if the partition table now points elsewhere the device must still be big enough to answer;
    // our Disk refuses out-of-range reads with an error, which is fine (that is a device error).
    let m = fsx::mount_image(img, (4, 4, 1), 5000);
    for slot in [g.part_slot] {
        let r = report::catch(|| m.vm.open_volume(Fl::Raw, slot).map(|v| m.vm.close_volume(Fl::Raw, v)));
        rep.evaluations += 1;
        match r {
            Ok(Ok(_)) => rep.count("invalid_side_opened", 1),
            Ok(Err(_)) => rep.count("invalid_side_refused", 1),
            Err((pm, loc)) => {
                let l = report::short_loc(&loc);
                rep.violate(v("C15.panic", "open_raw_volume", &l, format!("panic '{}' at {} ({})", pm, l, what), case()));
            }
        }
    }
}

pub fn run(ctx: &Ctx) -> i32 {
    let mut total = Report::new();
    let mut rng = Rng::from_parts(&[ctx.seed, 15]);
    let geoms = geometry_list(ctx, &mut rng);
    let seed = ctx.seed;
    let r = report::parallel(ctx.threads, geoms.len(), |i, rep| {
        valid_case(geoms[i].clone(), i, seed, rep);
    });
    total.merge(r);
    for c in [4084u32, 4000, 1] {
        fat12_case(c, &mut total);
    }

    // ---- invalid side: single and pairwise boundary values ------------------------------------
    let bs = bases();
    let r = report::parallel(ctx.threads, bs.len(), |bi, rep| {
        let b = &bs[bi];
        let fl = fields(&b.g);
        for (i, &(s1, o1, w1)) in fl.iter().enumerate() {
            for v1 in boundary_values(w1) {
                let mut img = b.img.clone();
                set_field(&mut img, sector_of(&b.g, s1), o1, w1, v1);
                let case = || J::obj().set("base", b.g.describe()).set("mutation", format!("sector {} offset {} width {} := {:#x}", s1, o1, w1, v1));
                try_open(img.clone(), &b.g, "single field", &case, rep);
                rep.distinct_extra += 1;
                // pairwise on top
                for &(s2, o2, w2) in fl.iter().skip(i + 1) {
                    for v2 in boundary_values(w2).into_iter() {
                        let mut img2 = img.clone();
                        set_field(&mut img2, sector_of(&b.g, s2), o2, w2, v2);
                        let case = || J::obj().set("base", b.g.describe()).set("mutation", format!("sector {} off {} w{} := {:#x}; sector {} off {} w{} := {:#x}", s1, o1, w1, v1, s2, o2, w2, v2));
                        try_open(img2, &b.g, "field pair", &case, rep);
                        rep.distinct_extra += 1;
                    }
                }
            }
        }
        rep.count("field_mutation_bases", 1);
    });
    total.merge(r);

    // ---- invalid side: all the size fields at their extremes at once -----------------------------
    // (sums and products that only wrap when several fields are extreme together: the largest
    // cluster counts 2^32-1 / 2^32-2 need total = max, one block per cluster and next to no
    // reserved / FAT / root blocks; the information sector stays well-formed so that its fields are used)
    let fat32_bases: Vec<usize> = (0..bs.len()).filter(|&i| bs[i].g.fat32).collect();
    let r = report::parallel(ctx.threads, fat32_bases.len(), |k, rep| {
        let b = &bs[fat32_bases[k]];
        let bpb = sector_of(&b.g, 1);
        let inf = sector_of(&b.g, 2);
        for &total in &[0xFFFF_FFFFu32, 0xFFFF_FFFE, 0x8000_0000] {
            for &spc in &[1u32, 128] {
                for &reserved in &[0u32, 1, 2, 0xFFFF] {
                    for &nfats in &[0u32, 1, 255] {
                        for &fatsz in &[0u32, 1, 0xFFFF_FFFF] {
                            for &rootent in &[0u32, 0xFFFF] {
                                for &rootclus in &[2u32, 0xFFFF_FFFF] {
                                    for &hint in &[2u32, 12345, 0x0FFF_FFF7, 0xFFFF_FFFE] {
                                        for &count in &[0u32, 0xFFFF_FFFE] {
                                            let mut img = b.img.clone();
                                            set_field(&mut img, bpb, 19, 2, 0);
                                            set_field(&mut img, bpb, 32, 4, total);
                                            set_field(&mut img, bpb, 13, 1, spc);
                                            set_field(&mut img, bpb, 14, 2, reserved);
                                            set_field(&mut img, bpb, 16, 1, nfats);
                                            set_field(&mut img, bpb, 22, 2, 0);
                                            set_field(&mut img, bpb, 36, 4, fatsz);
                                            set_field(&mut img, bpb, 17, 2, rootent);
                                            set_field(&mut img, bpb, 44, 4, rootclus);
                                            set_field(&mut img, inf, 488, 4, count);
                                            set_field(&mut img, inf, 492, 4, hint);
                                            let case = || J::obj().set("base", b.g.describe()).set("mutation", format!("total32={:#x} spc={} reserved={} fats={} fat_size32={:#x} root_entries={} root_cluster={:#x} fsinfo count={:#x} hint={:#x}", total, spc, reserved, nfats, fatsz, rootent, rootclus, count, hint));
                                            try_open(img, &b.g, "extreme combination", &case, rep);
                                            rep.distinct_extra += 1;
                                            rep.count("extreme_combinations", 1);
                                        }
                                    }
                                }
                            }
                        }
                    }
                }
            }
        }
    });
    total.merge(r);

    // ---- invalid side: random byte/bit mutations and random sectors -----------------------------
    let nrand = ctx.pick(1_000_000usize, 20_000_000usize);
    let r = report::parallel(ctx.threads, 64, |chunk, rep| {
        let mut rng = Rng::from_parts(&[ctx.seed, 15, 9, chunk as u64]);
        for k in 0..nrand / 64 {
            let b = &bs[rng.usize_below(bs.len())];
            let mut img = b.img.clone();
            let style = rng.below(5);
            let mut desc = String::new();
            let nmut = 1 + rng.usize_below(4);
            for _ in 0..nmut {
                let sel = rng.below(3) as u8;
                let blk = sector_of(&b.g, sel);
                let mut s = img.read(blk);
                match style {
                    0 => {
                        let p = rng.usize_below(512);
                        let x = rng.next_u32() as u8;
                        s[p] = x;
                        desc += &format!("s{}[{}]={:#04x} ", sel, p, x);
                    }
                    1 => {
                        let p = rng.usize_below(512 * 8);
                        s[p / 8] ^= 1 << (p % 8);
                        desc += &format!("s{} flip bit {} ", sel, p);
                    }
                    2 => {
                        // concentrate on the header fields
                        let p = if sel == 0 { 446 + rng.usize_below(66) } else if sel == 1 { 11 + rng.usize_below(80) } else { 484 + rng.usize_below(28) };
                        let x = *rng.pick(&[0u8, 1, 0xFF, 0x80, 0x7F]);
                        s[p.min(511)] = x;
                        desc += &format!("s{}[{}]={:#04x} ", sel, p, x);
                    }
                    3 => {
                        rng.fill(&mut s);
                        s[510] = 0x55;
                        s[511] = 0xAA;
                        if sel == 0 {
                            // keep the partition entry plausible half of the time
                            let o = 446 + 16 * b.g.part_slot;
                            s[o] &= 0x80;
                            if rng.chance(1, 2) {
                                s[o + 4] = *rng.pick(&[0x04u8, 0x06, 0x0B, 0x0C, 0x0E]);
                            }
                        }
                        if sel == 2 {
                            s[0..4].copy_from_slice(&0x4161_5252u32.to_le_bytes());
                            s[484..488].copy_from_slice(&0x6141_7272u32.to_le_bytes());
                            s[508..512].copy_from_slice(&0xAA55_0000u32.to_le_bytes());
                        }
                        desc += &format!("s{} random ", sel);
                    }
                    _ => {
                        let p = rng.usize_below(509);
                        let x = rng.next_u32();
                        s[p..p + 4].copy_from_slice(&x.to_le_bytes());
                        desc += &format!("s{}[{}..+4]={:#x} ", sel, p, x);
                    }
                }
                img.write(blk, &s);
            }
            let hash = {
                let mut h = 0u64;
                for sel in 0..3u8 {
                    h = crate::prng::mix(&[h, crate::prng::hash_bytes(&img.get(sector_of(&b.g, sel)))]);
                }
                h
            };
            let case = || J::obj().set("base", b.g.describe()).set("mutation", desc.clone());
            try_open(img, &b.g, "random mutation", &case, rep);
            rep.distinct.insert(hash);
            if chunk == 0 && k < 2 {
                rep.samples.push(J::obj().set("kind", "invalid-side mutation").set("base", b.g.describe()).set("mutation", desc.clone()));
            }
        }
        rep.count("random_mutations", (nrand / 64) as u64);
    });
    total.merge(r);

    report::finish(
        ctx,
        total,
        Evidence {
            level: "exploration",
            rule: "valid side: a case is one formatter-made volume (geometry x tree) that is mounted, listed and read back through the library, with the device read log classified by region; distinct = distinct geometry descriptions. invalid side: a case is one mutated (MBR, boot sector, FSInfo) triple handed to open_raw_volume under overflow-checks + debug-assertions with panics caught; boundary-value single/pair mutations are distinct by construction, random ones by sector-content hash. All cases are non-trivial (each ends in a mount attempt).".into(),
            assumptions: vec![
                "the independent formatter follows the Microsoft FAT specification (cross-checked by the independent reader and, for the reader, by the repository's macOS-made image in selftest)".into(),
                "harness built with overflow-checks and debug-assertions ON so that wraps are observable panics".into(),
                "a device read outside the image is answered with an error by the simulated device".into(),
            ],
            exhaustive: None,
            extra: vec![],
            min_distinct: 50,
            min_counters: vec![],
        },
    )
}
