//! Checks that need a formatted volume but not the full workload engine.
pub mod c06;
pub mod c15;
