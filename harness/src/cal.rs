//! Calendar arithmetic (proleptic Gregorian), independent of the library.

pub fn is_leap(y: u32) -> bool {
    (y % 4 == 0 && y % 100 != 0) || y % 400 == 0
}

pub fn days_in_month(y: u32, m: u32) -> u32 {
    match m {
        1 | 3 | 5 | 7 | 8 | 10 | 12 => 31,
        4 | 6 | 9 | 11 => 30,
        2 => {
            if is_leap(y) {
                29
            } else {
                28
            }
        }
        _ => 0,
    }
}

/// Days since 1980-01-01 -> (year, month 1..12, day 1..31)
pub fn civil_from_days(mut d: u32) -> (u32, u32, u32) {
    let mut y = 1980;
    loop {
        let n = if is_leap(y) { 366 } else { 365 };
        if d < n {
            break;
        }
        d -= n;
        y += 1;
    }
    let mut m = 1;
    loop {
        let n = days_in_month(y, m);
        if d < n {
            break;
        }
        d -= n;
        m += 1;
    }
    (y, m, d + 1)
}

/// Number of days from 1980-01-01 up to and including 2107-12-31.
pub fn total_days_1980_2107() -> u32 {
    (1980..=2107).map(|y| if is_leap(y) { 366 } else { 365 }).sum()
}

/// FAT date field from calendar values.
pub fn fat_date(y: u32, m: u32, d: u32) -> u16 {
    (((y - 1980) << 9) | (m << 5) | d) as u16
}

/// FAT time field (two-second resolution).
pub fn fat_time(h: u32, mi: u32, s: u32) -> u16 {
    ((h << 11) | (mi << 5) | (s / 2)) as u16
}
