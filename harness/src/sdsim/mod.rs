//! Simulated SD card on an `embedded_hal::spi::SpiDevice`, for C12 / C13 / C14.
pub mod card;
pub mod checks;

use card::Card;
use embedded_hal::spi::{ErrorKind, ErrorType, Operation, SpiDevice};
use std::cell::RefCell;
use std::rc::Rc;

#[derive(Debug, Clone, Copy)]
pub struct SpiErr;
impl embedded_hal::spi::Error for SpiErr {
    fn kind(&self) -> ErrorKind {
        ErrorKind::Other
    }
}

pub struct BusState {
    pub card: Card,
    /// SPI transactions so far in this driver call / overall
    pub transactions_in_call: u64,
    pub transactions: u64,
    /// fail the transaction with this index (within the current driver call)
    pub fail_transaction: Option<u64>,
    pub spi_failed: bool,
    /// traffic bound per driver call, in bytes
    pub bound: u64,
    pub bound_hit: bool,
    pub delay_ns: u64,
}

#[derive(Clone)]
pub struct SimSpi(pub Rc<RefCell<BusState>>);

#[derive(Clone)]
pub struct SimDelay(pub Rc<RefCell<BusState>>);

impl ErrorType for SimSpi {
    type Error = SpiErr;
}

impl SpiDevice<u8> for SimSpi {
    fn transaction(&mut self, operations: &mut [Operation<'_, u8>]) -> Result<(), SpiErr> {
        let mut st = self.0.borrow_mut();
        let t = st.transactions_in_call;
        st.transactions_in_call += 1;
        st.transactions += 1;
        if st.fail_transaction == Some(t) {
            st.spi_failed = true;
            return Err(SpiErr);
        }
        if st.bound_hit {
            return Err(SpiErr);
        }
        for op in operations.iter_mut() {
            match op {
                Operation::Read(buf) => {
                    for b in buf.iter_mut() {
                        *b = st.card.clock(0xFF);
                    }
                }
                Operation::Write(buf) => {
                    for &b in buf.iter() {
                        st.card.clock(b);
                    }
                }
                Operation::Transfer(rd, wr) => {
                    let n = rd.len().max(wr.len());
                    for i in 0..n {
                        let o = wr.get(i).cloned().unwrap_or(0xFF);
                        let x = st.card.clock(o);
                        if let Some(r) = rd.get_mut(i) {
                            *r = x;
                        }
                    }
                }
                Operation::TransferInPlace(buf) => {
                    for b in buf.iter_mut() {
                        *b = st.card.clock(*b);
                    }
                }
                Operation::DelayNs(ns) => st.delay_ns += *ns as u64,
            }
        }
        if st.card.bytes_in_call > st.bound {
            st.bound_hit = true;
            return Err(SpiErr);
        }
        Ok(())
    }
}

impl embedded_hal::delay::DelayNs for SimDelay {
    fn delay_ns(&mut self, ns: u32) {
        self.0.borrow_mut().delay_ns += ns as u64;
    }
}

pub fn new_bus(card: Card) -> Rc<RefCell<BusState>> {
    Rc::new(RefCell::new(BusState { card, transactions_in_call: 0, transactions: 0, fail_transaction: None, spi_failed: false, bound: u64::MAX, bound_hit: false, delay_ns: 0 }))
}
