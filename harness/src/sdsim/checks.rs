//! C12 (addressing / capacity / kind), C13 (corruption never accepted, bounded traffic,
//! recovery) and C14 (legal SPI-mode conversation) over the simulated card.

use super::card::{self, build_csd_v1, build_csd_v2, csd_capacity_blocks, Card, Inject, Kind, Misbehave};
use super::{new_bus, BusState, SimDelay, SimSpi};
use crate::json::J;
use crate::prng::Rng;
use crate::report::{self, Ctx, Evidence, Report, Violation};
use embedded_sdmmc::sdcard::{AcquireOpts, CardType, Error as SdError};
use embedded_sdmmc::{Block, BlockDevice, BlockIdx, SdCard};
use std::cell::RefCell;
use std::collections::HashMap;
use std::rc::Rc;

/// traffic bounds derived from the driver's own retry constants (DESIGN.md C13)
pub const B_INIT: u64 = 620_000_000;
pub const B_BASE: u64 = 250_000;
pub const B_PER_BLOCK: u64 = 70_000;

#[derive(Clone, Debug)]
pub struct CardCfg {
    pub kind: Kind,
    pub csd: [u8; 16],
    pub crc: bool,
    pub seed: u64,
    pub max_ncr: u64,
    pub max_access: u64,
    pub max_busy: u64,
    pub acmd41_reps: u64,
    /// CMD0 frames slept through after power-on
    pub sleepy: u32,
}

impl CardCfg {
    pub fn describe(&self) -> String {
        format!(
            "{:?} crc={} capacity_blocks={} csd={} timing(ncr<={}, access<={}, busy<={}, acmd41<={}){}",
            self.kind,
            self.crc,
            csd_capacity_blocks(&self.csd),
            self.csd.iter().map(|b| format!("{:02x}", b)).collect::<String>(),
            self.max_ncr,
            self.max_access,
            self.max_busy,
            self.acmd41_reps,
            if self.sleepy > 0 { format!(" sleeps through {} CMD0", self.sleepy) } else { String::new() }
        )
    }
    pub fn hash(&self) -> u64 {
        crate::prng::hash_bytes(self.describe().as_bytes())
    }
}

pub struct Rig {
    pub bus: Rc<RefCell<BusState>>,
    pub sd: SdCard<SimSpi, SimDelay>,
    pub cfg: CardCfg,
    /// what the harness knows the card holds: payloads of writes that returned Ok
    pub shadow: HashMap<u32, [u8; 512]>,
    pub nblocks: u64,
}

pub fn make_rig(cfg: &CardCfg) -> Rig {
    let mut c = Card::new(cfg.kind, cfg.csd, cfg.seed);
    c.max_ncr = cfg.max_ncr;
    c.max_access = cfg.max_access;
    c.max_busy = cfg.max_busy;
    c.acmd41_reps = cfg.acmd41_reps;
    c.expect_crc = cfg.crc;
    c.set_sleepy(cfg.sleepy);
    let nblocks = c.nblocks;
    let bus = new_bus(c);
    let sd = SdCard::new_with_options(SimSpi(bus.clone()), SimDelay(bus.clone()), AcquireOpts { use_crc: cfg.crc, acquire_retries: 50 });
    Rig { bus, sd, cfg: cfg.clone(), shadow: HashMap::new(), nblocks }
}

impl Rig {
    pub fn expected(&self, idx: u32) -> [u8; 512] {
        match self.shadow.get(&idx) {
            Some(b) => *b,
            None => card::background_block(self.bus.borrow().card.mem_seed, idx),
        }
    }
    /// run one driver call with bookkeeping; Err = the driver panicked
    pub fn call<R>(&mut self, bound: u64, f: impl FnOnce(&SdCard<SimSpi, SimDelay>) -> R) -> Result<R, (String, String)> {
        {
            let mut b = self.bus.borrow_mut();
            b.card.begin_call();
            b.transactions_in_call = 0;
            b.bound = bound;
            b.bound_hit = false;
            b.spi_failed = false;
        }
        let sd = &self.sd;
        let r = report::catch(|| f(sd));
        self.bus.borrow_mut().card.end_call_checks();
        r
    }
    pub fn initialised_bound(&self, nblocks: usize) -> u64 {
        B_BASE + B_PER_BLOCK * nblocks as u64
    }
}

pub fn card_cfgs(rng: &mut Rng, all_caps: bool) -> Vec<CardCfg> {
    let mut v = Vec::new();
    let mut v1_caps: Vec<[u8; 16]> = Vec::new();
    for &c in &[0u32, 1, 0x7FF, 0xFFE, 0xFFF] {
        for &m in &[0u32, 1, 6, 7] {
            for &bl in &[9u32, 10, 11] {
                let csd = build_csd_v1(c, m, bl);
                if csd_capacity_blocks(&csd) <= 4 * 1024 * 1024 && csd_capacity_blocks(&csd) >= 8 {
                    v1_caps.push(csd);
                }
            }
        }
    }
    let v2_caps: Vec<[u8; 16]> = [0u32, 1, 0x1000, 0xFFFF, 0x1_0000, 0x3F_FFFE].iter().map(|&c| build_csd_v2(c)).collect();
    for kind in [Kind::V1Sdsc, Kind::V2Sdsc, Kind::Sdhc] {
        let caps = if kind == Kind::Sdhc { &v2_caps } else { &v1_caps };
        let take: Vec<[u8; 16]> = if all_caps {
            caps.clone()
        } else {
            let mut c = caps.clone();
            rng.shuffle(&mut c);
            c.truncate(6);
            c
        };
        for csd in take {
            for crc in [true, false] {
                let hostile = rng.chance(1, 2);
                v.push(CardCfg {
                    kind,
                    csd,
                    crc,
                    seed: rng.next_u64(),
                    max_ncr: if hostile { 8 } else { rng.below(9) },
                    max_access: if hostile { 200 } else { rng.below(30) },
                    max_busy: if hostile { 2000 } else { rng.below(60) },
                    acmd41_reps: if hostile { 40 } else { rng.below(4) },
                    sleepy: if rng.chance(1, 4) { 1 + rng.below(2) as u32 } else { 0 },
                });
            }
        }
    }
    v
}

fn pick_block(rng: &mut Rng, nblocks: u64, span: u64) -> u32 {
    let last = nblocks - span;
    let cands = [0u64, 1, last, last.saturating_sub(1), last.saturating_sub(span), 1u64 << rng.below(22), (1u64 << rng.below(22)) + 1, (1u64 << rng.below(22)).saturating_sub(1), rng.below(last + 1)];
    // every candidate must leave room for the whole transfer
    (*rng.pick(&cands)).min(last) as u32
}

fn kind_name(k: Kind) -> CardType {
    match k {
        Kind::V1Sdsc => CardType::SD1,
        Kind::V2Sdsc => CardType::SD2,
        Kind::Sdhc => CardType::SDHC,
    }
}

fn drain_c14(rig: &Rig, cfg: &CardCfg, context: &str, rep: &mut Report) -> bool {
    let v: Vec<(String, String)> = rig.bus.borrow_mut().card.violations.drain(..).collect();
    let mut any = false;
    for (rule, msg) in v {
        any = true;
        let ring = rig.bus.borrow().card.ring_dump(96);
        rep.violate(Violation::new("C14", &rule, context, &format!("{:?} crc={}", cfg.kind, cfg.crc), format!("{} [{}]", msg, cfg.describe()), J::obj().set("card", cfg.describe()).set("context", context).set("bus_tail", ring)));
    }
    any
}

/// One C12 history on one card configuration; C14's monitor rides along.
pub fn c12_history(cfg: &CardCfg, nops: usize, seed: u64, prop: &str, rep: &mut Report) {
    let mut rng = Rng::from_parts(&[seed, cfg.hash(), 12]);
    let mut rig = make_rig(cfg);
    {
        // most cards really pre-erase what a multiple-block write announces
        let mut st = rig.bus.borrow_mut();
        st.card.honour_pre_erase = (seed ^ cfg.seed) % 4 != 0;
        // a byte of 0xFF between the stop token and busy; now and then a programming time after the
        // stop token that is long, but well inside the driver's own write timeout
        st.card.stop_gap = (seed ^ cfg.seed) % 3 == 0;
        if (seed ^ cfg.seed) % 5 == 0 {
            st.card.stop_busy = Some(12_000 + (seed ^ cfg.seed) % 31_000);
        }
        // ... and the same after a data block (single-block writes, and before the next block or the
        // stop token of a multiple-block write)
        if (seed ^ cfg.seed) % 6 == 1 {
            st.card.prog_busy = Some(11_000 + (seed ^ cfg.seed) % 33_000);
            st.card.prog_budget = 6;
        }
        st.card.ff_trailer = (seed ^ cfg.seed) % 3 != 2;
        st.card.erase_value = if (seed ^ cfg.seed) % 8 < 4 { 0xFF } else { 0x00 };
    }
    let case = |extra: &str| J::obj().set("card", cfg.describe()).set("step", extra);
    let v12 = |rule: &str, call: &str, detail: &str, msg: String, c: J| Violation::new("C12", rule, call, detail, msg, c);
    // ---- identification, kind, capacity ------------------------------------------------------
    let kt = rig.call(B_INIT, |sd| sd.get_card_type());
    rep.evaluations += 1;
    match kt {
        Err((pm, loc)) => {
            rep.violate(v12("C12.kind", "get_card_type", "panic", format!("panic '{}' at {} [{}]", pm, report::short_loc(&loc), cfg.describe()), case("get_card_type")));
            return;
        }
        Ok(t) => {
            if t != Some(kind_name(cfg.kind)) {
                rep.violate(v12("C12.kind", "get_card_type", &format!("{:?}", cfg.kind), format!("card kind reported as {:?}, simulated card is {:?} [{}]", t, cfg.kind, cfg.describe()), case("get_card_type")));
                drain_c14(&rig, cfg, "initialisation", rep);
                return;
            }
        }
    }
    let want_blocks = csd_capacity_blocks(&cfg.csd);
    let nb = rig.call(B_BASE, |sd| sd.num_blocks());
    let nby = rig.call(B_BASE, |sd| sd.num_bytes());
    rep.evaluations += 2;
    let csd_ver = card::get_bits(&cfg.csd, 127, 126);
    match (nb, nby) {
        (Ok(Ok(b)), Ok(Ok(by))) => {
            if b.0 as u64 != want_blocks || by != want_blocks * 512 {
                rep.violate(v12(
                    "C12.capacity",
                    "num_blocks/num_bytes",
                    &format!("{:?} with CSD structure {}", cfg.kind, csd_ver),
                    format!("capacity reported as {} blocks / {} bytes; the card's CSD (structure version {}) encodes {} blocks [{}]", b.0, by, csd_ver, want_blocks, cfg.describe()),
                    case("capacity"),
                ));
                if prop == "C12" {
                    return;
                }
            }
        }
        (a, b) => {
            rep.violate(v12("C12.capacity", "num_blocks/num_bytes", "error", format!("capacity query failed: {:?} / {:?} [{}]", a.map(|x| x.map(|y| y.0)), b, cfg.describe()), case("capacity")));
            drain_c14(&rig, cfg, "capacity", rep);
            return;
        }
    }
    // ---- reads and writes ----------------------------------------------------------------------
    let mut tag = 1u32;
    let mut last_write: Option<(u32, usize)> = None;
    for opi in 0..nops {
        // register queries in between: same answers as at the start, and no effect on what follows
        if rng.chance(1, 14) {
            let step = format!("op {} register query", opi);
            rep.evaluations += 1;
            let bad = match rng.below(3) {
                0 => match rig.call(B_BASE, |sd| sd.num_blocks()) {
                    Ok(Ok(b)) if b.0 as u64 == want_blocks => None,
                    other => Some(format!("num_blocks gave {:?}", other.map(|x| x.map(|y| y.0)))),
                },
                1 => match rig.call(B_BASE, |sd| sd.num_bytes()) {
                    Ok(Ok(b)) if b == want_blocks * 512 => None,
                    other => Some(format!("num_bytes gave {:?}", other)),
                },
                _ => match rig.call(B_BASE, |sd| sd.erase_single_block_enabled()) {
                    Ok(Ok(_)) => None,
                    other => Some(format!("erase_single_block_enabled gave {:?}", other)),
                },
            };
            rep.count("register_queries_between_transfers", 1);
            if let Some(m) = bad {
                rep.violate(v12("C12.capacity", "num_blocks/num_bytes", "between transfers", format!("{}: {}, the CSD encodes {} blocks [{}]", step, m, want_blocks, cfg.describe()), case(&step)));
                drain_c14(&rig, cfg, "capacity", rep);
                return;
            }
        }
        // now and then a transfer that does not fit on the card: it must fail, leave the card's
        // memory alone (except for the part of a multiple-block write that did fit) and the bus clean
        if rng.chance(1, 16) {
            let n = *rng.pick(&[1usize, 1, 2, 3]);
            let nb = rig.nblocks;
            let cands = [nb, nb + 1, nb + 511, nb.saturating_sub(1).max(1), 1u64 << 23, (1u64 << 23) + 3, 1u64 << 31, u32::MAX as u64, u32::MAX as u64 - 1, nb * 2];
            let mut idx = *rng.pick(&cands);
            if idx + n as u64 <= nb {
                idx = nb - n as u64 + 1; // straddles the end
            }
            if idx > u32::MAX as u64 {
                idx = u32::MAX as u64;
            }
            let idx = idx as u32;
            let write = rng.chance(1, 2);
            let mem_before: HashMap<u32, [u8; 512]> = rig.bus.borrow().card.mem.clone();
            let mut blocks = vec![Block::new(); n];
            for (k, b) in blocks.iter_mut().enumerate() {
                for (i, x) in b.contents.iter_mut().enumerate() {
                    *x = crate::fsx::payload_byte(0x0B5E ^ opi as u32, (k * 512 + i) as u32);
                }
                // a payload that would do harm if a card ever parsed it as commands
                let f = [0x40u8, 0, 0, 0, 0];
                b.contents[16..21].copy_from_slice(&f);
                b.contents[21] = card::crc7_ref(&f);
            }
            let bound = rig.initialised_bound(n);
            let r = if write { rig.call(bound, |sd| sd.write(&blocks, BlockIdx(idx))) } else { rig.call(bound, |sd| sd.read(&mut blocks, BlockIdx(idx)).map(|_| ())) };
            let step = format!("op {} {} {} blocks @ {} on a card of {} blocks", opi, if write { "write" } else { "read" }, n, idx, nb);
            rep.evaluations += 1;
            rep.count("out_of_range_transfers", 1);
            match r {
                Err((pm, loc)) => {
                    rep.violate(v12(if write { "C12.write-elsewhere" } else { "C12.read" }, if write { "write" } else { "read" }, "out of range: panic", format!("{}: panic '{}' at {} [{}]", step, pm, report::short_loc(&loc), cfg.describe()), case(&step)));
                    return;
                }
                Ok(Ok(())) => {
                    rep.violate(v12(if write { "C12.write-elsewhere" } else { "C12.read" }, if write { "write" } else { "read" }, "out of range: Ok", format!("{}: returned Ok although the transfer does not fit on the card [{}]", step, cfg.describe()), case(&step)));
                    return;
                }
                Ok(Err(_)) => {}
            }
            {
                let st = rig.bus.borrow();
                for (k, vv) in st.card.mem.iter() {
                    let in_prefix = write && (*k as u64) >= idx as u64 && (*k as u64) < idx as u64 + n as u64;
                    if !in_prefix && mem_before.get(k) != Some(vv) {
                        let msg = format!("{}: block {} of the card changed [{}]", step, k, cfg.describe());
                        drop(st);
                        rep.violate(v12("C12.write-elsewhere", if write { "write" } else { "read" }, "out of range: bystander block", msg, case(&step)));
                        return;
                    }
                }
            }
            // the part of a write that fitted may or may not be there: adopt what the card holds
            if write {
                let cur: Vec<(u32, [u8; 512])> = {
                    let st = rig.bus.borrow();
                    (0..n as u64).map(|k| idx as u64 + k).filter(|b| *b < nb).map(|b| (b as u32, st.card.block(b as u32))).collect()
                };
                for (b, c) in cur {
                    rig.shadow.insert(b, c);
                }
            }
            if drain_c14(&rig, cfg, "transfer that does not fit on the card", rep) && prop == "C14" {
                return;
            }
            // the card may be left mid-conversation by a driver that gave up: start afresh
            last_write = None;
            continue;
        }
        let n = match rng.below(10) {
            0 => 2,
            1 => 3 + rng.usize_below(6),
            // occasionally long transfers
            2 => 9 + rng.usize_below(40),
            3 if opi % 3 == 0 => 60 + rng.usize_below(150),
            _ => 1,
        };
        if (n as u64) > rig.nblocks {
            continue;
        }
        let mut idx = pick_block(&mut rng, rig.nblocks, n as u64);
        let mut is_write = rng.chance(1, 2);
        // read straight back what the previous call wrote (same range or overlapping it)
        if let Some((pi, pn)) = last_write {
            if rng.chance(1, 3) && (pi as u64 + n as u64) <= rig.nblocks {
                is_write = false;
                idx = pi + if pn > 1 && n == 1 { rng.below(pn as u64) as u32 } else { 0 };
                if (idx as u64 + n as u64) > rig.nblocks {
                    idx = pi;
                }
            }
        }
        last_write = None;
        rep.evaluations += 1;
        if is_write {
            let mut blocks = vec![Block::new(); n];
            for (k, b) in blocks.iter_mut().enumerate() {
                tag += 1;
                for (i, x) in b.contents.iter_mut().enumerate() {
                    *x = crate::fsx::payload_byte(tag ^ seed as u32, (k * 512 + i) as u32);
                }
                // payloads that look like protocol bytes: tokens, idle and busy patterns
                match tag % 9 {
                    0 => b.contents[..4].copy_from_slice(&[0xFE, 0xFF, 0xFC, 0xFD]),
                    1 => b.contents = [0xFF; 512],
                    2 => b.contents = [0x00; 512],
                    3 => b.contents[508..].copy_from_slice(&[0xFF, 0xFF, 0xFE, 0x05]),
                    _ => {}
                }
            }
            let before_committed = rig.bus.borrow().card.writes_committed.len();
            let before_mem: HashMap<u32, [u8; 512]> = rig.bus.borrow().card.mem.clone();
            let bound = rig.initialised_bound(n);
            let r = rig.call(bound, |sd| sd.write(&blocks, BlockIdx(idx)));
            let step = format!("op {} write {} blocks @ {}", opi, n, idx);
            match r {
                Err((pm, loc)) => {
                    rep.violate(v12("C12.write-content", "write", "panic", format!("{}: panic '{}' at {} [{}]", step, pm, report::short_loc(&loc), cfg.describe()), case(&step)));
                    return;
                }
                Ok(Err(e)) => {
                    rep.violate(v12("C12.write-content", "write", &format!("error {:?}", e), format!("{}: fault-free write failed with {:?} [{}]", step, e, cfg.describe()), case(&step)));
                    drain_c14(&rig, cfg, "write", rep);
                    return;
                }
                Ok(Ok(())) => {
                    let st = rig.bus.borrow();
                    let committed: Vec<u32> = st.card.writes_committed[before_committed..].to_vec();
                    let want: Vec<u32> = (0..n as u32).map(|k| idx + k).collect();
                    if committed != want {
                        let msg = format!("{}: the card stored blocks {:?}, the call addressed {:?} [{}]", step, committed, want, cfg.describe());
                        drop(st);
                        rep.violate(v12("C12.write-elsewhere", "write", if n == 1 { "single" } else { "multi" }, msg, case(&step)));
                        return;
                    }
                    for (k, b) in blocks.iter().enumerate() {
                        if st.card.block(idx + k as u32) != b.contents {
                            let msg = format!("{}: block {} of the card differs from the payload [{}]", step, idx + k as u32, cfg.describe());
                            drop(st);
                            rep.violate(v12("C12.write-content", "write", if n == 1 { "single" } else { "multi" }, msg, case(&step)));
                            return;
                        }
                    }
                    // nothing else changed
                    for (k, vv) in st.card.mem.iter() {
                        if !want.contains(k) && before_mem.get(k) != Some(vv) {
                            let msg = format!("{}: block {} changed although it was not addressed [{}]", step, k, cfg.describe());
                            drop(st);
                            rep.violate(v12("C12.write-elsewhere", "write", "bystander block", msg, case(&step)));
                            return;
                        }
                    }
                    if n > 1 && st.card.pre_erase != Some(n as u32) {
                        // not required by the statement; recorded as an observation only
                        drop(st);
                        rep.count("multi_writes_without_matching_pre_erase_count", 1);
                    } else {
                        drop(st);
                    }
                    for (k, b) in blocks.iter().enumerate() {
                        rig.shadow.insert(idx + k as u32, b.contents);
                    }
                    last_write = Some((idx, n));
                    rep.count(if n == 1 { "single_block_writes" } else { "multi_block_writes" }, 1);
                }
            }
        } else {
            // the caller's buffer is not empty: it holds whatever the application left in it, which
            // must neither reach the card nor survive the read
            let mut blocks = vec![Block::new(); n];
            let fill = rng.below(8);
            for (k, b) in blocks.iter_mut().enumerate() {
                match fill {
                    0 => b.contents = [0xFF; 512],
                    1 => b.contents = [0xEE; 512],
                    2 => b.contents = [0x00; 512],
                    3 | 4 | 5 => {
                        // well-formed command frames back to back: stop transmission, go idle, read
                        // block 0, write block (k+1) followed by a data token
                        let arg: u32 = if cfg.kind == Kind::Sdhc { k as u32 + 1 } else { (k as u32 + 1) * 512 };
                        let frames: [[u8; 5]; 4] = [[0x4C, 0, 0, 0, 0], [0x40, 0, 0, 0, 0], [0x51, 0, 0, 0, 0], [0x58, (arg >> 24) as u8, (arg >> 16) as u8, (arg >> 8) as u8, arg as u8]];
                        let f = frames[(fill as usize - 3 + k) % 4];
                        let mut pat = f.to_vec();
                        pat.push(card::crc7_ref(&f));
                        pat.extend_from_slice(&[0xFF, 0xFF, 0xFF, 0xFE]);
                        for (i, x) in b.contents.iter_mut().enumerate() {
                            *x = pat[i % pat.len()];
                        }
                    }
                    _ => {
                        for (i, x) in b.contents.iter_mut().enumerate() {
                            *x = crate::fsx::payload_byte(0x5EED ^ opi as u32, (k * 512 + i) as u32);
                        }
                    }
                }
            }
            let mem_before: HashMap<u32, [u8; 512]> = rig.bus.borrow().card.mem.clone();
            let bound = rig.initialised_bound(n);
            let r = rig.call(bound, |sd| sd.read(&mut blocks, BlockIdx(idx)).map(|_| ()));
            if rig.bus.borrow().card.mem != mem_before {
                let step = format!("op {} read {} blocks @ {}", opi, n, idx);
                rep.violate(v12("C12.write-elsewhere", "read", "card memory changed", format!("{}: the card's memory changed during a read [{}]", step, cfg.describe()), case(&step)));
                return;
            }
            let step = format!("op {} read {} blocks @ {}", opi, n, idx);
            match r {
                Err((pm, loc)) => {
                    rep.violate(v12("C12.read", "read", "panic", format!("{}: panic '{}' at {} [{}]", step, pm, report::short_loc(&loc), cfg.describe()), case(&step)));
                    return;
                }
                Ok(Err(e)) => {
                    rep.violate(v12("C12.read", "read", &format!("error {:?}", e), format!("{}: fault-free read failed with {:?} [{}]", step, e, cfg.describe()), case(&step)));
                    drain_c14(&rig, cfg, "read", rep);
                    return;
                }
                Ok(Ok(())) => {
                    for (k, b) in blocks.iter().enumerate() {
                        let want = rig.expected(idx + k as u32);
                        if b.contents != want {
                            let at = b.contents.iter().zip(want.iter()).position(|(x, y)| x != y).unwrap();
                            rep.violate(v12("C12.read", "read", if n == 1 { "single" } else { "multi" }, format!("{}: block {} byte {} is {:#04x}, the card holds {:#04x} [{}]", step, idx + k as u32, at, b.contents[at], want[at], cfg.describe()), case(&step)));
                            return;
                        }
                    }
                    rep.count(if n == 1 { "single_block_reads" } else { "multi_block_reads" }, 1);
                }
            }
            // multi == the same singles
            if n > 1 && rng.chance(1, 2) {
                for k in 0..n {
                    let mut one = [Block::new()];
                    let bound = rig.initialised_bound(1);
                    let r = rig.call(bound, |sd| sd.read(&mut one, BlockIdx(idx + k as u32)).map(|_| ()));
                    if !matches!(r, Ok(Ok(()))) || one[0].contents != blocks[k].contents {
                        rep.violate(v12("C12.multi", "read", "multi vs single", format!("{}: single-block read of block {} differs from the multi-block transfer [{}]", step, idx + k as u32, cfg.describe()), case(&step)));
                        return;
                    }
                }
            }
        }
        if drain_c14(&rig, cfg, if is_write { "write" } else { "read" }, rep) && prop == "C14" {
            return;
        }
    }
    // ---- re-initialisation after mark_card_uninit, and a call after it ----------------------------
    rig.sd.mark_card_uninit();
    rig.bus.borrow_mut().card.expect_cmd0_next = true;
    let mut one = [Block::new()];
    let r = rig.call(B_INIT, |sd| sd.read(&mut one, BlockIdx(0)).map(|_| ()));
    rep.evaluations += 1;
    if !matches!(r, Ok(Ok(()))) || one[0].contents != rig.expected(0) {
        rep.violate(v12("C12.read", "read after mark_card_uninit", "re-initialisation", format!("read of block 0 after re-initialisation gave {:?} [{}]", r.map(|x| x.map_err(|e| format!("{:?}", e))), cfg.describe()), case("reinit")));
    }
    drain_c14(&rig, cfg, "re-initialisation", rep);
    // ---- the card is exchanged for another one (other kind, other capacity) under the same driver ----
    {
        let kind2 = match (cfg.kind, rng.below(2)) {
            (Kind::Sdhc, 0) => Kind::V1Sdsc,
            (Kind::Sdhc, _) => Kind::V2Sdsc,
            (Kind::V1Sdsc, 0) => Kind::Sdhc,
            (Kind::V1Sdsc, _) => Kind::V2Sdsc,
            (Kind::V2Sdsc, 0) => Kind::Sdhc,
            (Kind::V2Sdsc, _) => if rng.chance(1, 2) { Kind::V1Sdsc } else { Kind::V2Sdsc },
        };
        let csd2 = if kind2 == Kind::Sdhc { build_csd_v2(*rng.pick(&[0x3FFu32, 0x7FFF, 0x1_DFFF, 7])) } else { build_csd_v1(*rng.pick(&[0x3FFu32, 0xEFF, 0x123]), *rng.pick(&[2u32, 5, 7]), *rng.pick(&[9u32, 10])) };
        if csd2 != cfg.csd && csd_capacity_blocks(&csd2) >= 8 {
            let cfg2 = CardCfg { kind: kind2, csd: csd2, seed: cfg.seed ^ 0x5A5A, ..cfg.clone() };
            let mut c2 = Card::new(kind2, csd2, cfg2.seed);
            c2.max_ncr = cfg.max_ncr;
            c2.max_access = cfg.max_access;
            c2.max_busy = cfg.max_busy;
            c2.acmd41_reps = cfg.acmd41_reps;
            c2.expect_crc = cfg.crc;
            c2.set_sleepy(cfg.sleepy);
            rig.nblocks = c2.nblocks;
            rig.shadow.clear();
            rig.bus.borrow_mut().card = c2;
            rig.sd.mark_card_uninit();
            let want2 = csd_capacity_blocks(&csd2);
            let kt = rig.call(B_INIT, |sd| sd.get_card_type());
            let nb = rig.call(B_BASE, |sd| sd.num_blocks());
            let nby = rig.call(B_BASE, |sd| sd.num_bytes());
            let last = (want2 - 1) as u32;
            let mut one = [Block::new()];
            let r = rig.call(B_BASE + B_PER_BLOCK, |sd| sd.read(&mut one, BlockIdx(last)).map(|_| ()));
            rep.evaluations += 4;
            rep.count("card_exchanges", 1);
            let kind_ok = matches!(&kt, Ok(Some(t)) if *t == kind_name(kind2));
            let cap_ok = matches!((&nb, &nby), (Ok(Ok(b)), Ok(Ok(by))) if b.0 as u64 == want2 && *by == want2 * 512);
            let read_ok = matches!(r, Ok(Ok(()))) && one[0].contents == rig.expected(last);
            if !kind_ok || !cap_ok || !read_ok {
                rep.violate(v12(
                    if !kind_ok { "C12.kind" } else if !cap_ok { "C12.capacity" } else { "C12.read" },
                    "after a card exchange",
                    &format!("{:?} -> {:?}", cfg.kind, kind2),
                    format!("card exchanged for [{}] and the driver marked uninitialised: kind {:?}, blocks {:?}, bytes {:?} (the new CSD encodes {} blocks), read of its last block correct: {} [first card: {}]", cfg2.describe(), kt, nb.map(|x| x.map(|y| y.0)), nby, want2, read_ok, cfg.describe()),
                    case("card exchange"),
                ));
            }
            drain_c14(&rig, &cfg2, "after a card exchange", rep);
        }
    }
    rep.count("card_histories", 1);
    rep.count("bus_bytes", rig.bus.borrow().card.total_bytes);
    rep.count("command_frames_checked", rig.bus.borrow().card.frames.len() as u64);
    rep.distinct.insert(crate::prng::mix(&[cfg.hash(), seed]));
    if rep.samples.len() < 2 {
        let st = rig.bus.borrow();
        let frames: Vec<J> = st.card.frames.iter().take(14).map(|f| J::s(format!("{}CMD{} arg={:#010x}", if f.app { "A" } else { "" }, f.cmd, f.arg))).collect();
        rep.samples.push(J::obj().set("card", cfg.describe()).set("ops", nops).set("first_command_frames", J::Arr(frames)).set("bus_bytes", st.card.total_bytes));
    }
}

fn evidence(prop: &str) -> Evidence {
    let (level, rule): (&'static str, &str) = match prop {
        "C12" => ("exploration", "a case is one driver history on one simulated card configuration (kind x CRC mode x capacity encoded in a CSD of the card's own layout x seeded timing: response delay 0-8 bytes, data-token delay, busy periods, ACMD41 repetitions): identification, capacity queries, then random 1-8 block reads/writes at boundary block numbers with unique payloads; every returned block is compared with the harness's shadow of acknowledged writes, every write with the card's memory before/after; distinct = distinct (card configuration, seed)"),
        "C14" => ("exploration", "every byte the driver clocks out during the C12 workload, re-initialisations and calls after injected errors is parsed by the card's protocol automaton (frame format, CRC-7 against an independent implementation, busy discipline, CMD55 prefix, identification order, data tokens / lengths / CRC-16, stop token, CMD12); distinct = distinct (card configuration, seed); the number of command frames and bus bytes actually checked is reported under 'observed'"),
        _ => ("fault_enumeration", "a case is one driver call against a card that misbehaves in one specified way: every single-bit flip of a 512+2 byte data block and of the 16+2 byte CSD frame, all double-bit flips of the CSD frame, sampled double-bit and <=16-bit bursts on data blocks, every rejected data-response token, every non-zero CMD13 status byte, wrong start tokens, an SPI error at every transaction index, and silent / busy-forever / garbage cards from every (sampled in quick) byte position of the call, for all card kinds, both CRC modes and every stage of initialisation and transfer; distinct = distinct (card kind, CRC mode, operation, fault description)"),
    };
    Evidence {
        level,
        rule: rule.into(),
        assumptions: vec![
            "the simulated card follows the SD Physical Layer Simplified Specification (SPI mode); two timing details are not modelled (N_WR gap before a data token, the one-byte gap before busy after the stop token)".into(),
            "traffic bounds are computed from the driver's retry constants; hangs are decided on bytes exchanged, not wall-clock".into(),
            "for garbage-emitting cards only termination and 'Ok implies correct data under CRC' are required (garbage can coincide with a legal answer)".into(),
        ],
        exhaustive: None,
        extra: vec![],
        min_distinct: 20,
            min_counters: vec![],
    }
}

pub fn run_c12_c14(ctx: &Ctx, prop: &'static str) -> i32 {
    let mut rng = Rng::from_parts(&[ctx.seed, 0xC12]);
    let mut cfgs = card_cfgs(&mut rng, !ctx.quick());
    let reps = ctx.pick(40usize, 400usize);
    let base = cfgs.clone();
    for r in 1..reps {
        for c in &base {
            let mut c2 = c.clone();
            c2.seed = c.seed.wrapping_add(r as u64 * 7919);
            c2.max_ncr = rng.below(9);
            c2.max_access = rng.below(300);
            c2.max_busy = rng.below(3000);
            c2.acmd41_reps = rng.below(60);
            cfgs.push(c2);
        }
    }
    let nops = ctx.pick(60usize, 200usize);
    let seed = ctx.seed;
    let mut total = report::parallel(ctx.threads, cfgs.len(), |i, rep| {
        c12_history(&cfgs[i], nops, seed.wrapping_add(i as u64), prop, rep);
    });
    if prop == "C14" {
        // error paths: calls after injected faults, re-initialisation after errors
        let r = run_c13_cases(ctx, true);
        total.merge(r);
    }
    report::finish(ctx, total, evidence(prop))
}

// ---------------------------------------------------------------------------------------------
// C13
// ---------------------------------------------------------------------------------------------

#[derive(Clone, Copy, Debug, PartialEq)]
enum OpK {
    Init,
    Csd,
    Read1,
    ReadN,
    Write1,
    WriteN,
}

struct Outcome {
    ok: bool,
    err: Option<SdError>,
    panic: Option<(String, String)>,
    data: Vec<[u8; 512]>,
    bytes: u64,
    bound_hit: bool,
    transactions: u64,
    corrupted: bool,
    capacity: Option<u32>,
}

fn do_op(rig: &mut Rig, op: OpK, idx: u32, payload_tag: u32) -> Outcome {
    let n = match op {
        OpK::ReadN | OpK::WriteN => 3,
        _ => 1,
    };
    let bound = if op == OpK::Init { B_INIT } else { rig.initialised_bound(n) };
    let mut blocks = vec![Block::new(); n];
    if matches!(op, OpK::Write1 | OpK::WriteN) {
        for (k, b) in blocks.iter_mut().enumerate() {
            for (i, x) in b.contents.iter_mut().enumerate() {
                *x = crate::fsx::payload_byte(payload_tag, (k * 512 + i) as u32);
            }
        }
    }
    let mut capacity = None;
    let r: Result<Result<(), SdError>, (String, String)> = match op {
        // get_card_type() is None exactly when the identification handshake failed
        OpK::Init => rig.call(bound, |sd| sd.get_card_type().map(|_| ()).ok_or(SdError::CardNotFound)),
        OpK::Csd => {
            let r = rig.call(bound, |sd| sd.num_blocks());
            match r {
                Ok(Ok(b)) => {
                    capacity = Some(b.0);
                    Ok(Ok(()))
                }
                Ok(Err(e)) => Ok(Err(e)),
                Err(p) => Err(p),
            }
        }
        OpK::Read1 | OpK::ReadN => rig.call(bound, |sd| sd.read(&mut blocks, BlockIdx(idx))),
        OpK::Write1 | OpK::WriteN => rig.call(bound, |sd| sd.write(&blocks, BlockIdx(idx))),
    };
    let st = rig.bus.borrow();
    let (ok, err, panic) = match r {
        Ok(Ok(())) => (true, None, None),
        Ok(Err(e)) => (false, Some(e), None),
        Err(p) => (false, None, Some(p)),
    };
    Outcome { ok, err, panic, data: blocks.iter().map(|b| b.contents).collect(), bytes: st.card.bytes_in_call, bound_hit: st.bound_hit, transactions: st.transactions_in_call, corrupted: st.card.corrupted_this_call, capacity }
}

fn v13(rule: &str, call: &str, detail: &str, msg: String, case: J) -> Violation {
    Violation::new("C13", rule, call, detail, msg, case)
}

#[derive(Clone, Debug)]
enum FaultSpec {
    Flip(Vec<u32>),
    StartToken(u8),
    DataResponse(u8),
    Cmd13(u8, u8),
    SpiError(u64),
    Card(Misbehave),
    /// n-th frame of a command (ACMD | 0x80) answered with this R1 instead of being executed
    R1(u8, u32, u8),
    /// n-th CMD8 answered with these four bytes after R1 (wrong echo / voltage)
    R7(u32, [u8; 4]),
}

/// Fresh card, initialise fault-free (unless the op IS the initialisation), apply fault, run op, judge.
#[allow(clippy::too_many_arguments)]
fn c13_case(cfg: &CardCfg, op: OpK, fault: &FaultSpec, which_block: u32, label: &str, c14_only: bool, rep: &mut Report) -> Option<Outcome> {
    let mut rig = make_rig(cfg);
    let idx = 5u32.min((rig.nblocks - 4) as u32);
    let case = || J::obj().set("card", cfg.describe()).set("operation", format!("{:?}", op)).set("fault", label);
    if op != OpK::Init {
        let o = do_op(&mut rig, OpK::Init, 0, 0);
        if !o.ok {
            rep.inconclusive.push(format!("fault-free initialisation failed: {:?} [{}]", o.err, cfg.describe()));
            return None;
        }
    }
    {
        let mut b = rig.bus.borrow_mut();
        let sent = b.card.data_blocks_sent;
        let recvd = b.card.data_blocks_received;
        let c13n = b.card.cmd13_count;
        match fault {
            FaultSpec::Flip(bits) => b.card.inject = Inject { flip_bits: vec![(sent + which_block, bits.clone())], ..Default::default() },
            FaultSpec::StartToken(t) => b.card.inject = Inject { bad_start_token: Some((sent + which_block, *t)), ..Default::default() },
            FaultSpec::DataResponse(t) => b.card.inject = Inject { data_response: Some((recvd + which_block, *t)), ..Default::default() },
            FaultSpec::Cmd13(x, y) => b.card.inject = Inject { cmd13: Some((c13n, *x, *y)), ..Default::default() },
            FaultSpec::SpiError(t) => b.fail_transaction = Some(*t),
            FaultSpec::Card(m) => b.card.misbehave = m.clone(),
            FaultSpec::R1(c, n, val) => b.card.inject = Inject { r1_override: Some((*c, *n, *val)), ..Default::default() },
            FaultSpec::R7(n, bytes) => b.card.inject = Inject { r7: Some((*n, *bytes)), ..Default::default() },
        }
    }
    let o = do_op(&mut rig, op, idx, 0xABCD);
    rep.evaluations += 1;
    rep.distinct.insert(crate::prng::mix(&[cfg.hash(), op as u64, crate::prng::hash_bytes(label.as_bytes())]));
    rep.count(&format!("{:?} {}", op, label.split(' ').next().unwrap_or("")), 1);
    let call = format!("{:?}", op);
    if c14_only {
        // C14 does not judge the call in which the card (or the bus) misbehaved - the conversation
        // was broken by the other side. It judges what the driver sends AFTERWARDS: the card is
        // power-cycled (memory kept), the driver told so (mark_card_uninit), and the next call must
        // be a legal conversation again, starting with CMD0.
        {
            let mut b = rig.bus.borrow_mut();
            b.fail_transaction = None;
            b.card.end_call_checks();
            if matches!(fault, FaultSpec::R1(..) | FaultSpec::R7(..)) {
                // the card refused a command or answered it oddly, but stayed a consistent
                // conversation partner: what the driver clocked out in that very call must still
                // be frames and idle bytes (the state-dependent rules are not applied here)
                b.card.violations.retain(|(rule, _)| matches!(rule.as_str(), "C14.stray-byte" | "C14.bad-start-bits" | "C14.end-bit" | "C14.bad-crc7"));
            } else {
                b.card.violations.clear();
            }
            let kept: Vec<(String, String)> = b.card.violations.drain(..).collect();
            b.card.heal();
            b.card.violations = kept;
        }
        rig.sd.mark_card_uninit();
        let mut one = [Block::new()];
        let _ = rig.call(B_INIT, |sd| sd.read(&mut one, BlockIdx(idx)).map(|_| ()));
        let mut blocks = vec![Block::new(); 2];
        let bound = rig.initialised_bound(2);
        let _ = rig.call(bound, |sd| sd.write(&blocks, BlockIdx(idx)));
        let _ = rig.call(bound, |sd| sd.read(&mut blocks, BlockIdx(idx)).map(|_| ()));
        drain_c14(&rig, cfg, &format!("calls after an error ({:?}: {})", op, label), rep);
        rep.count("aftermath_conversations_checked", 1);
        return Some(o);
    }
    if let Some((pm, loc)) = &o.panic {
        rep.violate(v13("C13.traffic", &call, "panic", format!("driver panicked: '{}' at {} ({}) [{}]", pm, report::short_loc(loc), label, cfg.describe()), case()));
        return None;
    }
    if o.bound_hit {
        rep.violate(v13("C13.traffic", &call, "bound exceeded", format!("driver call exchanged more than its traffic bound ({} bytes) with a card that {} [{}]", o.bytes, label, cfg.describe()), case()));
        return None;
    }
    let is_read = matches!(op, OpK::Read1 | OpK::ReadN);
    let is_write = matches!(op, OpK::Write1 | OpK::WriteN);
    let n = if matches!(op, OpK::ReadN | OpK::WriteN) { 3 } else { 1 };
    let mem_matches_payload = |rig: &Rig| -> bool {
        let st = rig.bus.borrow();
        (0..n).all(|k| {
            let mut want = [0u8; 512];
            for (i, x) in want.iter_mut().enumerate() {
                *x = crate::fsx::payload_byte(0xABCD, (k * 512 + i) as u32);
            }
            st.card.block(idx + k as u32) == want
        })
    };
    let read_correct = |rig: &Rig| -> bool { (0..n).all(|k| o.data[k] == rig.expected(idx + k as u32)) };
    match fault {
        FaultSpec::Flip(_) => {
            if cfg.crc && o.ok && o.corrupted {
                rep.violate(v13("C13.ok-corrupt", &call, if op == OpK::Csd { "register" } else { "data block" }, format!("{:?} returned Ok although the transferred (data, CRC) pair was corrupted: {} [{}]", op, label, cfg.describe()), case()));
                return None;
            }
        }
        FaultSpec::StartToken(t) => {
            if o.ok && o.corrupted {
                rep.violate(v13("C13.ok-token", &call, "start token", format!("{:?} returned Ok although the data start token was {:#04x} [{}]", op, t, cfg.describe()), case()));
                return None;
            }
        }
        FaultSpec::DataResponse(t) => {
            if o.ok && o.corrupted {
                rep.violate(v13("C13.ok-rejected", &call, &format!("response {:#04x}", t & 0x1F), format!("{:?} returned Ok although the card answered the data block with {:#04x} [{}]", op, t, cfg.describe()), case()));
                return None;
            }
        }
        FaultSpec::Cmd13(x, y) => {
            if o.ok && o.corrupted {
                rep.violate(v13("C13.ok-status", &call, if *x != 0 { "first status byte" } else { "second status byte" }, format!("single-block write returned Ok although CMD13 reported status {:#04x} {:#04x} [{}]", x, y, cfg.describe()), case()));
                return None;
            }
        }
        FaultSpec::SpiError(t) => {
            if o.ok && rig.bus.borrow().spi_failed {
                rep.violate(v13("C13.ok-spi-error", &call, "transaction error ignored", format!("{:?} returned Ok although SPI transaction #{} of the call failed [{}]", op, t, cfg.describe()), case()));
                return None;
            }
            // a failed initialisation leaves the card marked uninitialised - whichever transaction failed
            if op == OpK::Init && !o.ok {
                {
                    let mut b = rig.bus.borrow_mut();
                    b.fail_transaction = None;
                    b.card.heal();
                }
                let frames_before = rig.bus.borrow().card.frames.len();
                let mut one = [Block::new()];
                let r = rig.call(B_INIT, |sd| sd.read(&mut one, BlockIdx(idx)).map(|_| ()));
                let first = rig.bus.borrow().card.frames.get(frames_before).map(|f| f.cmd);
                if first != Some(0) {
                    rep.violate(v13("C13.left-initialised", &call, "next call does not start with CMD0", format!("after a failed initialisation ({}) the next call started with {:?} instead of CMD0 [{}]", label, first.map(|c| format!("CMD{}", c)), cfg.describe()), case()));
                    return None;
                }
                if !matches!(r, Ok(Ok(()))) || one[0].contents != rig.expected(idx) {
                    rep.violate(v13("C13.no-recovery", &call, "after failed initialisation", format!("the bus works again but the next read gave {:?} [{}]", r.map(|x| x.map_err(|e| format!("{:?}", e))), cfg.describe()), case()));
                    return None;
                }
                rep.count("recoveries_after_failed_init", 1);
            }
        }
        FaultSpec::R1(c, _, val) => {
            let cname = if c & 0x80 != 0 { format!("ACMD{}", c & 0x3F) } else { format!("CMD{}", c) };
            if o.ok && o.corrupted {
                if is_read && !read_correct(&rig) {
                    rep.violate(v13("C13.ok-corrupt", &call, "command refused by the card", format!("{:?} returned Ok with wrong data although the card answered {} with R1 {:#04x} and did not execute it [{}]", op, cname, val, cfg.describe()), case()));
                    return None;
                }
                if is_write && !mem_matches_payload(&rig) {
                    rep.violate(v13("C13.ok-rejected", &call, "command refused by the card", format!("{:?} returned Ok although the card answered {} with R1 {:#04x} and never stored the data [{}]", op, cname, val, cfg.describe()), case()));
                    return None;
                }
                // the call went through all the same: whatever protection was asked for must still
                // be in force - a corrupted block in the next read must not be accepted
                if cfg.crc {
                    if op == OpK::Init {
                        // (nothing read yet)
                    }
                    let sent = rig.bus.borrow().card.data_blocks_sent;
                    rig.bus.borrow_mut().card.inject = Inject { flip_bits: vec![(sent, vec![777])], ..Default::default() };
                    let p = do_op(&mut rig, OpK::Read1, idx, 0);
                    rep.count("crc_still_enforced_probes", 1);
                    if p.ok && p.corrupted && p.data[0] != rig.expected(idx) {
                        rep.violate(v13("C13.ok-corrupt", &call, "CRC checking lost after a refused command", format!("after {:?} went through although the card answered {} with R1 {:#04x}, a read with a flipped data bit returned Ok with the wrong data (CRC was requested) [{}]", op, cname, val, cfg.describe()), case()));
                        return None;
                    }
                }
            }
        }
        FaultSpec::R7(..) => {}
        FaultSpec::Card(m) => {
            let garbage = matches!(m, Misbehave::Garbage(..) | Misbehave::Constant(..));
            if o.ok && o.corrupted {
                // was the (data, CRC) pair the driver received one that CRC-16 can tell is wrong?
                let detectable = |rig: &Rig| -> bool {
                    let st = rig.bus.borrow();
                    let m = &st.card.miso_call;
                    (0..n).any(|k| {
                        let d = &o.data[k];
                        if *d == rig.expected(idx + k as u32) {
                            return false;
                        }
                        // find the block in what the card put on the bus, take the two bytes after it
                        match m.windows(512).position(|w| w == &d[..]) {
                            Some(p) if p + 514 <= m.len() => card::crc16_ref(d) != u16::from_be_bytes([m[p + 512], m[p + 513]]),
                            _ => false,
                        }
                    })
                };
                if is_read && cfg.crc && !read_correct(&rig) && detectable(&rig) {
                    rep.violate(v13("C13.ok-corrupt", &call, "misbehaving card", format!("{:?} returned Ok with wrong data under CRC from a card that {} [{}]", op, label, cfg.describe()), case()));
                    return None;
                }
                if is_write && !garbage && !mem_matches_payload(&rig) {
                    rep.violate(v13("C13.ok-rejected", &call, "misbehaving card", format!("{:?} returned Ok although the card that {} never stored the data [{}]", op, label, cfg.describe()), case()));
                    return None;
                }
            }
            // ---- after a failed initialisation the card is left marked uninitialised ----------------
            if op == OpK::Init && !o.ok {
                rig.bus.borrow_mut().card.heal();
                let frames_before = rig.bus.borrow().card.frames.len();
                let mut one = [Block::new()];
                let r = rig.call(B_INIT, |sd| sd.read(&mut one, BlockIdx(idx)).map(|_| ()));
                let first = rig.bus.borrow().card.frames.get(frames_before).map(|f| f.cmd);
                if first != Some(0) {
                    rep.violate(v13("C13.left-initialised", &call, "next call does not start with CMD0", format!("after a failed initialisation ({}) the next call started with {:?} instead of CMD0 [{}]", label, first.map(|c| format!("CMD{}", c)), cfg.describe()), case()));
                    return None;
                }
                // and since the card has healed, that call must have worked
                if !matches!(r, Ok(Ok(()))) || one[0].contents != rig.expected(idx) {
                    rep.violate(v13("C13.no-recovery", &call, "after failed initialisation", format!("the card answers again but the next read gave {:?} [{}]", r.map(|x| x.map_err(|e| format!("{:?}", e))), cfg.describe()), case()));
                    return None;
                }
                rep.count("recoveries_after_failed_init", 1);
            }
            // ---- once the card responds again and has been marked uninitialised it works again ------
            if op != OpK::Init {
                rig.bus.borrow_mut().card.heal();
                // a real card that was interrupted mid-transfer needs a power cycle / CMD0; ours
                // resets its state machine on CMD0, which mark_card_uninit leads to
                rig.sd.mark_card_uninit();
                {
                    let mut b = rig.bus.borrow_mut();
                    b.card.end_call_checks();
                    b.card.violations.clear();
                }
                let mut one = [Block::new()];
                let r = rig.call(B_INIT, |sd| sd.read(&mut one, BlockIdx(idx + 3)).map(|_| ()));
                if !matches!(r, Ok(Ok(()))) || one[0].contents != rig.bus.borrow().card.block(idx + 3) {
                    rep.violate(v13("C13.no-recovery", &call, "after mark_card_uninit", format!("card healed and marked uninitialised, but the next read gave {:?} ({}) [{}]", r.map(|x| x.map_err(|e| format!("{:?}", e))), label, cfg.describe()), case()));
                    return None;
                }
                rep.count("recoveries_after_transfer_fault", 1);
            }
        }
    }
    Some(o)
}

fn c13_cfgs(rng: &mut Rng, quick: bool) -> Vec<CardCfg> {
    let mut v = Vec::new();
    // (response delay, data-token delay, busy length, ACMD41 repetitions): prompt, sluggish, seeded
    let timings: Vec<(u64, u64, u64, u64)> = if quick { vec![(3, 6, 9, 2), (8, 60, 300, 12)] } else { vec![(3, 6, 9, 2), (8, 60, 300, 12), (0, 0, 0, 0), (8, 250, 2500, 50), (rng.below(9), rng.below(100), rng.below(1000), rng.below(30)), (rng.below(9), rng.below(20), rng.below(100), rng.below(6)), (1, rng.below(300), rng.below(3000), rng.below(60)), (rng.below(9), 1, 1, 1), (8, rng.below(10), rng.below(2000), 0)] };
    for kind in [Kind::V1Sdsc, Kind::V2Sdsc, Kind::Sdhc] {
        for crc in [true, false] {
            for (ti, t) in timings.iter().enumerate() {
                let csd = if kind == Kind::Sdhc { build_csd_v2(if ti % 2 == 0 { 0x1000 } else { 0x3_0000 }) } else { build_csd_v1(if ti % 2 == 0 { 0x7FF } else { 0xFFF }, 6, 9 + (ti as u32 % 2)) };
                v.push(CardCfg { kind, csd, crc, seed: rng.next_u64(), max_ncr: t.0, max_access: t.1, max_busy: t.2, acmd41_reps: t.3, sleepy: 0 });
                if ti == 0 {
                    // the same prompt card, but it sleeps through the first CMD0
                    v.push(CardCfg { kind, csd, crc, seed: rng.next_u64(), max_ncr: t.0, max_access: t.1, max_busy: t.2, acmd41_reps: t.3, sleepy: 1 });
                }
            }
        }
    }
    v
}

pub fn run_c13_cases(ctx: &Ctx, c14_only: bool) -> Report {
    let mut rng = Rng::from_parts(&[ctx.seed, 0xC13]);
    let cfgs = c13_cfgs(&mut rng, ctx.quick());
    // work list: (cfg index, op, fault, which block, label)
    let mut work: Vec<(usize, OpK, FaultSpec, u32, String)> = Vec::new();
    let quick = ctx.quick();
    for (ci, cfg) in cfgs.iter().enumerate() {
        // (a) bit flips
        if cfg.crc || c14_only {
            let positions: Vec<u32> = if c14_only { vec![0, 4111] } else { (0..4112u32).collect() };
            for &p in &positions {
                // all single-bit positions for the single-block read; the multi-block read gets a third
                work.push((ci, OpK::Read1, FaultSpec::Flip(vec![p]), 0, format!("flip bit {} of the data block", p)));
                if p % 3 == (ci as u32 % 3) && !c14_only {
                    work.push((ci, OpK::ReadN, FaultSpec::Flip(vec![p]), (p % 3), format!("flip bit {} of block {} of a multi-block read", p, p % 3)));
                }
            }
            if !c14_only {
                for p in 0..144u32 {
                    work.push((ci, OpK::Csd, FaultSpec::Flip(vec![p]), 0, format!("flip bit {} of the CSD frame", p)));
                    for q in (p + 1)..144 {
                        if !quick || (p + q) % 4 == 0 {
                            work.push((ci, OpK::Csd, FaultSpec::Flip(vec![p, q]), 0, format!("flip bits {} and {} of the CSD frame", p, q)));
                        }
                    }
                }
                let nburst = if quick { 300 } else { 6000 };
                for _ in 0..nburst {
                    let len = 2 + rng.below(15) as u32;
                    let start = rng.below(4112 - len as u64) as u32;
                    let mut bits = vec![start, start + len - 1];
                    for k in 1..len - 1 {
                        if rng.chance(1, 2) {
                            bits.push(start + k);
                        }
                    }
                    work.push((ci, OpK::Read1, FaultSpec::Flip(bits), 0, format!("burst of {} bits at bit {}", len, start)));
                    let a = rng.below(4112) as u32;
                    let b = rng.below(4112) as u32;
                    if a != b {
                        work.push((ci, OpK::Read1, FaultSpec::Flip(vec![a, b]), 0, format!("double flip {} {}", a, b)));
                    }
                }
            }
        }
        // (b) data response tokens
        let toks: Vec<u8> = if c14_only { vec![0x0B] } else { (0..32u8).filter(|t| *t != 0x05).collect() };
        for t in toks {
            work.push((ci, OpK::Write1, FaultSpec::DataResponse(t), 0, format!("data response {:#04x}", t)));
            work.push((ci, OpK::WriteN, FaultSpec::DataResponse(t | 0xE0), (t % 3) as u32, format!("data response {:#04x} on block {} of a multi-block write", t | 0xE0, t % 3)));
        }
        // (c) CMD13 status
        if !c14_only {
            for bit in 0..8 {
                work.push((ci, OpK::Write1, FaultSpec::Cmd13(1 << bit, 0), 0, format!("CMD13 first byte {:#04x}", 1u8 << bit)));
                work.push((ci, OpK::Write1, FaultSpec::Cmd13(0, 1 << bit), 0, format!("CMD13 second byte {:#04x}", 1u8 << bit)));
            }
        }
        // (d) start tokens
        for t in [0xFCu8, 0xFD, 0x01, 0x02, 0x04, 0x08, 0x00, 0x7F] {
            if c14_only && t != 0x01 {
                continue;
            }
            work.push((ci, OpK::Read1, FaultSpec::StartToken(t), 0, format!("start token {:#04x}", t)));
            work.push((ci, OpK::ReadN, FaultSpec::StartToken(t), 1, format!("start token {:#04x} on the second block", t)));
            work.push((ci, OpK::Csd, FaultSpec::StartToken(t), 0, format!("start token {:#04x} on the register", t)));
        }
    }
    // (e) SPI errors and (f) misbehaving cards need the fault-free length of each call
    for (ci, cfg) in cfgs.iter().enumerate() {
        for op in [OpK::Init, OpK::Csd, OpK::Read1, OpK::ReadN, OpK::Write1, OpK::WriteN] {
            let mut rig = make_rig(cfg);
            if op != OpK::Init {
                do_op(&mut rig, OpK::Init, 0, 0);
            }
            let idx = 5u32.min((rig.nblocks - 4) as u32);
            let o = do_op(&mut rig, op, idx, 0xABCD);
            if !o.ok {
                continue;
            }
            let (t, b) = (o.transactions, o.bytes);
            // (h) CMD8 answered with a wrong echo / voltage pattern, first or second time
            if op == OpK::Init && cfg.kind != Kind::V1Sdsc {
                for nth in 0..2u32 {
                    for bytes in [[0u8, 0, 1, 0x2A], [0, 0, 1, 0xAB], [0, 0, 0, 0xAA], [0x12, 0x34, 0x01, 0x55], [0xFF, 0xFF, 0xFF, 0xFF], [0, 0, 1, 0x00]] {
                        work.push((ci, op, FaultSpec::R7(nth, bytes), 0, format!("answers CMD8 #{} with R7 {:02x?}", nth, bytes)));
                    }
                }
            }
            // (g) every command of the fault-free call answered abnormally instead of being executed
            {
                let call_id = rig.bus.borrow().card.call_id;
                let mut seen: Vec<(u8, u32)> = Vec::new();
                let mut counts: HashMap<u8, u32> = HashMap::new();
                for f in rig.bus.borrow().card.frames.iter().filter(|f| f.call == call_id) {
                    let key = f.cmd | if f.app { 0x80 } else { 0 };
                    let n = counts.entry(key).or_insert(0);
                    if *n < 2 {
                        seen.push((key, *n));
                    }
                    *n += 1;
                }
                for (key, nth) in seen {
                    let vals: &[u8] = if c14_only { &[0x05, 0x09, 0x40] } else { &[0x05, 0x04, 0x09, 0x08, 0x40, 0x20, 0x10, 0x02, 0x7F, 0x01, 0x00] };
                    if c14_only && nth > 0 {
                        continue;
                    }
                    for &val in vals {
                        let cname = if key & 0x80 != 0 { format!("ACMD{}", key & 0x3F) } else { format!("CMD{}", key) };
                        work.push((ci, op, FaultSpec::R1(key, nth, val), 0, format!("answers {} #{} with R1 {:#04x} without executing it", cname, nth, val)));
                    }
                }
            }
            let tstep = if c14_only { (t / 3).max(1) } else { 1 };
            let mut k = 0;
            while k < t {
                work.push((ci, op, FaultSpec::SpiError(k), 0, format!("SPI transaction {} fails", k)));
                k += tstep;
            }
            // a card that answers every clock with one constant byte (every value, from the first byte,
            // and from a few later positions): generalises "silent" and "busy forever"
            if !c14_only {
                for byte in 0..=255u8 {
                    for from in [0u64, 7, b / 2] {
                        if from != 0 && (quick && byte % 8 != (ci as u8 % 8)) {
                            continue;
                        }
                        work.push((ci, op, FaultSpec::Card(Misbehave::Constant(from, byte)), 0, format!("answers {:#04x} forever from byte {} of the call", byte, from)));
                    }
                }
            }
            let bstep = if c14_only { (b / 3).max(1) } else if quick { (b / 400).max(1) } else { 1 };
            let mut k = 0;
            while k < b {
                for (m, name) in [(Misbehave::Silent(k), "goes silent"), (Misbehave::BusyForever(k), "stays busy"), (Misbehave::Garbage(k, 0), "returns garbage")] {
                    if c14_only && name != "goes silent" {
                        continue;
                    }
                    work.push((ci, op, FaultSpec::Card(m), 0, format!("{} from byte {} of the call", name, k)));
                }
                k += bstep;
            }
        }
    }
    let cfgs_ref = &cfgs;
    let work_ref = &work;
    report::parallel(ctx.threads, work.len(), |i, rep| {
        let (ci, op, fault, which, label) = &work_ref[i];
        if let Some(o) = c13_case(&cfgs_ref[*ci], *op, fault, *which, label, c14_only, rep) {
            rep.max("max_bytes_in_one_faulted_call", o.bytes);
            let _ = o.capacity;
            if rep.samples.len() < 2 && i % 997 == 0 {
                rep.samples.push(J::obj().set("card", cfgs_ref[*ci].describe()).set("operation", format!("{:?}", op)).set("fault", label.as_str()).set("result", if o.ok { "Ok".to_string() } else { format!("{:?}", o.err) }).set("bytes_exchanged", o.bytes));
            }
        }
    })
}

pub fn run_c13(ctx: &Ctx) -> i32 {
    let total = run_c13_cases(ctx, false);
    report::finish(ctx, total, evidence("C13"))
}
