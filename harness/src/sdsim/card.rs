//! Byte-level SD card in SPI mode + protocol monitor (C14) + fault injector (C13).
//! Written from the SD Physical Layer Simplified Specification, not from the driver.

use crate::prng::Rng;
use std::collections::{HashMap, VecDeque};

#[derive(Clone, Copy, Debug, PartialEq, Eq, Hash)]
pub enum Kind {
    /// version 1.x standard capacity: CMD8 is an illegal command
    V1Sdsc,
    /// version 2.x standard capacity: answers CMD8, CCS = 0, CSD structure 1.0, byte addressing
    V2Sdsc,
    /// high capacity: CCS = 1, CSD structure 2.0, block addressing
    Sdhc,
}

// ---- independent CRCs (bit-serial) -----------------------------------------------------------
pub fn crc7_ref(msg: &[u8]) -> u8 {
    let mut r = 0u8;
    for &b in msg {
        for k in (0..8).rev() {
            let inb = (b >> k) & 1;
            let top = (r >> 6) & 1;
            r = (r << 1) & 0x7F;
            if top ^ inb == 1 {
                r ^= 0x09;
            }
        }
    }
    (r << 1) | 1
}

pub fn crc16_ref(msg: &[u8]) -> u16 {
    let mut r = 0u16;
    for &b in msg {
        for k in (0..8).rev() {
            let inb = ((b >> k) & 1) as u16;
            let top = (r >> 15) & 1;
            r <<= 1;
            if top ^ inb == 1 {
                r ^= 0x1021;
            }
        }
    }
    r
}

// ---- CSD register --------------------------------------------------------------------------------
fn set_bits(csd: &mut [u8; 16], hi: u32, lo: u32, val: u32) {
    for bit in lo..=hi {
        let v = (val >> (bit - lo)) & 1;
        let byte = (127 - bit) / 8;
        let pos = bit % 8;
        if v == 1 {
            csd[byte as usize] |= 1 << pos;
        } else {
            csd[byte as usize] &= !(1 << pos);
        }
    }
}
pub fn get_bits(csd: &[u8; 16], hi: u32, lo: u32) -> u32 {
    let mut v = 0u32;
    for bit in (lo..=hi).rev() {
        let byte = (127 - bit) / 8;
        let pos = bit % 8;
        v = (v << 1) | ((csd[byte as usize] >> pos) & 1) as u32;
    }
    v
}

pub fn build_csd_v1(c_size: u32, c_size_mult: u32, read_bl_len: u32) -> [u8; 16] {
    let mut c = [0u8; 16];
    set_bits(&mut c, 127, 126, 0); // CSD_STRUCTURE 1.0
    set_bits(&mut c, 119, 112, 0x26); // TAAC
    set_bits(&mut c, 111, 104, 0x00); // NSAC
    set_bits(&mut c, 103, 96, 0x32); // TRAN_SPEED
    set_bits(&mut c, 95, 84, 0x5F5); // CCC
    set_bits(&mut c, 83, 80, read_bl_len);
    set_bits(&mut c, 79, 79, 1); // READ_BL_PARTIAL
    set_bits(&mut c, 73, 62, c_size);
    set_bits(&mut c, 61, 59, 5);
    set_bits(&mut c, 58, 56, 5);
    set_bits(&mut c, 55, 53, 6);
    set_bits(&mut c, 52, 50, 6);
    set_bits(&mut c, 49, 47, c_size_mult);
    set_bits(&mut c, 46, 46, 1); // ERASE_BLK_EN
    set_bits(&mut c, 45, 39, 0x7F);
    set_bits(&mut c, 38, 32, 0x1F);
    set_bits(&mut c, 28, 26, 2); // R2W_FACTOR
    set_bits(&mut c, 25, 22, read_bl_len); // WRITE_BL_LEN
    c[15] = crc7_ref(&c[..15]);
    c
}

pub fn build_csd_v2(c_size: u32) -> [u8; 16] {
    let mut c = [0u8; 16];
    set_bits(&mut c, 127, 126, 1); // CSD_STRUCTURE 2.0
    set_bits(&mut c, 119, 112, 0x0E);
    set_bits(&mut c, 103, 96, 0x32);
    set_bits(&mut c, 95, 84, 0x5B5);
    set_bits(&mut c, 83, 80, 9);
    set_bits(&mut c, 69, 48, c_size);
    set_bits(&mut c, 46, 46, 1);
    set_bits(&mut c, 45, 39, 0x7F);
    set_bits(&mut c, 28, 26, 2);
    set_bits(&mut c, 25, 22, 9);
    c[15] = crc7_ref(&c[..15]);
    c
}

/// Capacity in 512-byte blocks, decoded by the register's own CSD_STRUCTURE field (spec tables).
pub fn csd_capacity_blocks(csd: &[u8; 16]) -> u64 {
    match get_bits(csd, 127, 126) {
        0 => {
            let c_size = get_bits(csd, 73, 62) as u64;
            let mult = get_bits(csd, 49, 47) as u64;
            let bl = get_bits(csd, 83, 80) as u64;
            let bytes = (c_size + 1) * (1u64 << (mult + 2)) * (1u64 << bl);
            bytes / 512
        }
        1 => (get_bits(csd, 69, 48) as u64 + 1) * 1024,
        _ => 0,
    }
}

// ---- faults ---------------------------------------------------------------------------------------
#[derive(Clone, Debug, PartialEq)]
pub enum Misbehave {
    None,
    /// from this byte index of the current driver call on, the card outputs only 0xFF
    Silent(u64),
    /// ... only 0x00
    BusyForever(u64),
    /// ... seeded random bytes
    Garbage(u64, u64),
    /// ... one constant byte
    Constant(u64, u8),
}

#[derive(Clone, Debug, Default)]
pub struct Inject {
    /// flip these bit positions (0 = MSB of first data byte) in the n-th data block sent (0-based)
    pub flip_bits: Vec<(u32, Vec<u32>)>,
    /// replace the data start token of the n-th data block sent
    pub bad_start_token: Option<(u32, u8)>,
    /// data response token for the n-th data block received
    pub data_response: Option<(u32, u8)>,
    /// R2 answer to the n-th CMD13
    pub cmd13: Option<(u32, u8, u8)>,
    /// the n-th frame of command `cmd` (ACMDs: | 0x80) in the current driver call is not executed;
    /// the card answers it with this R1 byte instead (a card-side glitch / refusal)
    pub r1_override: Option<(u8, u32, u8)>,
    /// the four bytes that follow R1 in the answer to the n-th CMD8 of the current call
    pub r7: Option<(u32, [u8; 4])>,
}

#[derive(Clone, Debug)]
pub struct Frame {
    pub call: u32,
    pub cmd: u8,
    pub arg: u32,
    pub crc_ok: bool,
    pub app: bool,
}

#[derive(Clone, Debug, PartialEq)]
enum Rx {
    Idle,
    Frame(Vec<u8>),
    /// waiting for a data token of a write; multi = CMD25
    Token { multi: bool },
    Data { multi: bool, buf: Vec<u8> },
}

pub struct Card {
    pub kind: Kind,
    pub csd: [u8; 16],
    pub nblocks: u64,
    pub mem: HashMap<u32, [u8; 512]>,
    pub mem_seed: u32,
    // state
    pub powered_cmd0: bool,
    pub idle: bool,
    pub ready: bool,
    pub crc_on: bool,
    app_next: bool,
    acmd41_left: u32,
    rx: Rx,
    tx: VecDeque<(u8, bool)>,
    read_stream: Option<u32>,
    write_block: u32,
    pub pre_erase: Option<u32>,
    /// a card that really erases the announced number of blocks when the multiple-block write
    /// starts (legal: their contents are undefined until written); off by default
    pub honour_pre_erase: bool,
    /// after the stop token the card may leave one byte of 0xFF before it signals busy (N_BR 0..1)
    pub stop_gap: bool,
    /// length of the busy period after the stop token (None: like any other busy period)
    pub stop_busy: Option<u64>,
    /// a programming time after an accepted data block that is long but inside the driver's write
    /// timeout (for `prog_budget` blocks of this card's life, one accepted block in three)
    pub prog_busy: Option<u64>,
    pub prog_budget: u32,
    /// with CRC checking off the two trailer bytes of a block read are not looked at by the host; on
    /// these cards every other block ends in 0xFF xx, as one block in 256 does anyway
    pub ff_trailer: bool,
    /// bytes of a response + data block still to be clocked out
    pub data_pending: usize,
    /// how often each command (ACMDs | 0x80) was seen in the current driver call
    cmd_seen: std::collections::HashMap<u8, u32>,
    /// number of CMD0 frames the card sleeps through (no response at all) after every power-on
    pub sleepy: u32,
    sleepy_left: u32,
    pre_erase_armed: Option<u32>,
    pub erase_value: u8,
    // timing
    pub rng: Rng,
    pub max_ncr: u64,
    pub max_access: u64,
    pub max_busy: u64,
    pub acmd41_reps: u64,
    // monitors
    pub violations: Vec<(String, String)>,
    pub frames: Vec<Frame>,
    pub ident: Vec<u8>,
    pub expect_crc: bool,
    pub expect_cmd0_next: bool,
    pub call_id: u32,
    pub bytes_in_call: u64,
    pub total_bytes: u64,
    pub ring: VecDeque<(u32, u8, u8)>,
    /// every MISO byte of the current driver call (capped)
    pub miso_call: Vec<u8>,
    // faults
    pub misbehave: Misbehave,
    pub inject: Inject,
    pub data_blocks_sent: u32,
    pub data_blocks_received: u32,
    pub cmd13_count: u32,
    pub writes_committed: Vec<u32>,
    garbage: Rng,
    /// what the injector corrupted in this call (so the oracle knows)
    pub corrupted_this_call: bool,
}

pub fn background_block(seed: u32, idx: u32) -> [u8; 512] {
    let mut b = [0u8; 512];
    let mut x = (seed as u64) << 32 | idx as u64;
    for c in b.chunks_mut(8) {
        let v = crate::prng::splitmix(&mut x).to_le_bytes();
        c.copy_from_slice(&v[..c.len()]);
    }
    b
}

impl Card {
    pub fn new(kind: Kind, csd: [u8; 16], seed: u64) -> Card {
        let nblocks = csd_capacity_blocks(&csd);
        Card {
            kind,
            csd,
            nblocks,
            mem: HashMap::new(),
            mem_seed: seed as u32 ^ 0x5D5D,
            powered_cmd0: false,
            idle: false,
            ready: false,
            crc_on: false,
            app_next: false,
            acmd41_left: 0,
            rx: Rx::Idle,
            tx: VecDeque::new(),
            read_stream: None,
            write_block: 0,
            pre_erase: None,
            honour_pre_erase: false,
            stop_gap: false,
            stop_busy: None,
            prog_busy: None,
            prog_budget: 0,
            ff_trailer: false,
            data_pending: 0,
            cmd_seen: Default::default(),
            sleepy: 0,
            sleepy_left: 0,
            pre_erase_armed: None,
            erase_value: 0xFF,
            rng: Rng::from_parts(&[seed, 0x5D]),
            max_ncr: 8,
            max_access: 20,
            max_busy: 40,
            acmd41_reps: 3,
            violations: Vec::new(),
            frames: Vec::new(),
            ident: Vec::new(),
            expect_crc: true,
            expect_cmd0_next: true,
            call_id: 0,
            bytes_in_call: 0,
            total_bytes: 0,
            ring: VecDeque::new(),
            miso_call: Vec::new(),
            misbehave: Misbehave::None,
            inject: Inject::default(),
            data_blocks_sent: 0,
            data_blocks_received: 0,
            cmd13_count: 0,
            writes_committed: Vec::new(),
            garbage: Rng::from_parts(&[seed, 0x6A]),
            corrupted_this_call: false,
        }
    }

    pub fn block(&self, idx: u32) -> [u8; 512] {
        match self.mem.get(&idx) {
            Some(b) => *b,
            None => background_block(self.mem_seed, idx),
        }
    }

    pub fn begin_call(&mut self) {
        self.call_id += 1;
        self.bytes_in_call = 0;
        if self.corrupted_this_call {
            self.data_pending = 0;
        }
        self.corrupted_this_call = false;
        self.miso_call.clear();
        self.cmd_seen.clear();
    }

    fn violate(&mut self, rule: &str, msg: String) {
        if self.violations.len() < 50 {
            self.violations.push((rule.to_string(), format!("driver call #{}: {}", self.call_id, msg)));
        }
    }

    fn r1(&self) -> u8 {
        if self.idle {
            0x01
        } else {
            0x00
        }
    }

    fn queue_response(&mut self, bytes: &[u8]) {
        let ncr = self.rng.below(self.max_ncr + 1);
        for _ in 0..ncr {
            self.tx.push_back((0xFF, false));
        }
        for &b in bytes {
            self.tx.push_back((b, false));
        }
    }

    fn queue_busy(&mut self) {
        let n = self.rng.below(self.max_busy + 1);
        for _ in 0..n {
            self.tx.push_back((0x00, true));
        }
    }

    fn queue_data_block(&mut self, data: &[u8]) {
        let n = self.rng.below(self.max_access + 1);
        for _ in 0..n {
            self.tx.push_back((0xFF, false));
        }
        let mut token = 0xFEu8;
        if let Some((k, t)) = self.inject.bad_start_token {
            if k == self.data_blocks_sent {
                token = t;
                self.corrupted_this_call = true;
            }
        }
        let mut crc = if self.crc_on { crc16_ref(data) } else { crc16_ref(data) ^ 0x5AA5 };
        if !self.crc_on && self.ff_trailer && self.data_blocks_sent % 2 == 0 {
            crc |= 0xFF00;
        }
        let mut frame: Vec<u8> = data.to_vec();
        frame.extend_from_slice(&crc.to_be_bytes());
        let flips: Vec<u32> = self.inject.flip_bits.iter().filter(|(k, _)| *k == self.data_blocks_sent).flat_map(|(_, b)| b.clone()).collect();
        for bit in flips {
            let byte = (bit / 8) as usize;
            if byte < frame.len() {
                frame[byte] ^= 0x80 >> (bit % 8);
                self.corrupted_this_call = true;
            }
        }
        self.tx.push_back((token, false));
        for b in frame {
            self.tx.push_back((b, false));
        }
        self.data_blocks_sent += 1;
        self.data_pending = self.tx.len();
    }

    /// check the identification order prescribed by the specification for everything since CMD0
    fn ident_complete(&self) -> Result<(), String> {
        // expected: 0, [59], 8+, (55, 41)+, [58]
        let s = &self.ident;
        let mut i = 0;
        if s.get(i) != Some(&0) {
            return Err("no CMD0".into());
        }
        while s.get(i) == Some(&0) {
            i += 1;
        }
        if self.expect_crc {
            if s.get(i) != Some(&59) {
                return Err("CMD59 missing after CMD0 although CRC is enabled".into());
            }
            i += 1;
        } else if s.get(i) == Some(&59) {
            i += 1;
        }
        if s.get(i) != Some(&8) {
            return Err("CMD8 missing".into());
        }
        while s.get(i) == Some(&8) {
            i += 1;
        }
        let mut pairs = 0;
        while s.get(i) == Some(&55) && s.get(i + 1) == Some(&(41 | 0x80)) {
            i += 2;
            pairs += 1;
        }
        if pairs == 0 {
            return Err("no CMD55+ACMD41".into());
        }
        if !self.ready {
            return Err("ACMD41 has not reported ready".into());
        }
        if self.kind != Kind::V1Sdsc {
            if s.get(i) != Some(&58) {
                return Err("CMD58 missing for a card that answered CMD8".into());
            }
            i += 1;
        } else if s.get(i) == Some(&58) {
            i += 1;
        }
        let _ = i;
        Ok(())
    }

    fn handle_frame(&mut self, f: [u8; 6]) {
        let cmd = f[0] & 0x3F;
        let arg = u32::from_be_bytes([f[1], f[2], f[3], f[4]]);
        let crc_ok = crc7_ref(&f[..5]) == f[5];
        let app = self.app_next;
        self.app_next = false;
        self.frames.push(Frame { call: self.call_id, cmd, arg, crc_ok, app });
        if f[0] & 0xC0 != 0x40 {
            self.violate("C14.bad-start-bits", format!("frame starts with {:#04x}", f[0]));
        }
        if f[5] & 1 == 0 {
            self.violate("C14.end-bit", format!("CMD{} frame ends with {:#04x} (end bit clear)", cmd, f[5]));
        }
        if !crc_ok {
            self.violate("C14.bad-crc7", format!("CMD{} frame {:02x?} carries CRC byte {:#04x}, correct is {:#04x}", cmd, &f[..5], f[5], crc7_ref(&f[..5])));
        }
        if self.expect_cmd0_next && cmd != 0 {
            self.violate("C14.no-reinit", format!("first command after power-on / mark-uninitialised is CMD{} instead of CMD0", cmd));
        }
        self.expect_cmd0_next = false;
        // busy?
        let busy_pending = self.tx.iter().any(|(_, b)| *b);
        if busy_pending && cmd != 0 && cmd != 12 {
            self.violate("C14.cmd-while-busy", format!("CMD{} sent while the card is signalling busy", cmd));
        }
        // a new command ends whatever the card was sending (except: nothing to keep)
        let was_streaming = self.read_stream.is_some();
        if cmd != 12 || !was_streaming {
            // keep busy bytes? a real card would still be busy; we drop the queue to stay simple
        }
        self.tx.clear();
        self.data_pending = 0;
        if !crc_ok && (self.crc_on || cmd == 0 || cmd == 8) {
            self.queue_response(&[0x08 | self.r1()]);
            return;
        }
        if !self.powered_cmd0 && cmd != 0 {
            // not in SPI mode yet: stays silent
            return;
        }
        let is_data_cmd = matches!(cmd, 9 | 13 | 17 | 18 | 24 | 25) || (app && cmd == 23);
        if is_data_cmd {
            if let Err(why) = self.ident_complete() {
                self.violate("C14.data-before-ident", format!("CMD{} before the identification sequence completed: {} (sequence since CMD0: {:?})", cmd, why, self.ident.iter().map(|c| c & 0x7F).collect::<Vec<_>>()));
            }
        }
        if cmd == 41 && !app {
            self.violate("C14.acmd-without-cmd55", "index 41 not directly preceded by CMD55".into());
        }
        if cmd == 23 && !app {
            self.violate("C14.acmd-without-cmd55", "index 23 not directly preceded by CMD55".into());
        }
        let nth_this;
        {
            let key = cmd | if app { 0x80 } else { 0 };
            let seen = self.cmd_seen.entry(key).or_insert(0);
            let nth = *seen;
            nth_this = nth;
            *seen += 1;
            if let Some((c, n, val)) = self.inject.r1_override {
                if c == key && n == nth {
                    self.corrupted_this_call = true;
                    self.queue_response(&[val]);
                    return;
                }
            }
        }
        if cmd == 0 && self.sleepy_left > 0 {
            // still waking up: the frame goes unanswered
            self.sleepy_left -= 1;
            return;
        }
        match cmd {
            0 => {
                self.powered_cmd0 = true;
                self.idle = true;
                self.ready = false;
                self.crc_on = false;
                self.read_stream = None;
                self.rx = Rx::Idle;
                self.ident.clear();
                self.ident.push(0);
                self.acmd41_left = self.rng.below(self.acmd41_reps + 1) as u32;
                self.queue_response(&[0x01]);
            }
            59 => {
                self.ident.push(59);
                self.crc_on = arg & 1 == 1;
                let r = self.r1();
                self.queue_response(&[r]);
            }
            8 => {
                self.ident.push(8);
                // SEND_IF_COND: bits 31..12 reserved (zero), 11..8 supply voltage (0001b = 2.7-3.6 V)
                if arg >> 12 != 0 || (arg >> 8) & 0xF != 1 {
                    self.violate("C14.bad-argument", format!("CMD8 argument {:#010x}: reserved bits must be zero and the voltage field 0001b", arg));
                }
                if self.kind == Kind::V1Sdsc {
                    let r = 0x04 | self.r1();
                    self.queue_response(&[r]);
                } else {
                    let r = self.r1();
                    match self.inject.r7 {
                        Some((n, b)) if n == nth_this => {
                            self.corrupted_this_call = true;
                            self.queue_response(&[r, b[0], b[1], b[2], b[3]]);
                        }
                        _ => self.queue_response(&[r, 0x00, 0x00, ((arg >> 8) & 0x0F) as u8, arg as u8]),
                    }
                }
            }
            55 => {
                self.ident.push(55);
                self.app_next = true;
                let r = self.r1();
                self.queue_response(&[r]);
            }
            41 if app => {
                self.ident.push(41 | 0x80);
                let hcs = arg & 0x4000_0000 != 0;
                // SD_SEND_OP_COND in SPI mode: only bit 30 (HCS) is defined
                if arg & !0x4000_0000 != 0 {
                    self.violate("C14.bad-argument", format!("ACMD41 argument {:#010x}: only bit 30 (HCS) may be set in SPI mode", arg));
                }
                if self.kind == Kind::Sdhc && !hcs {
                    // a high-capacity card never leaves idle for a host that does not announce HCS
                    self.queue_response(&[0x01]);
                } else if self.acmd41_left > 0 {
                    self.acmd41_left -= 1;
                    self.queue_response(&[0x01]);
                } else {
                    self.idle = false;
                    self.ready = true;
                    self.queue_response(&[0x00]);
                }
            }
            58 => {
                self.ident.push(58);
                let mut ocr0 = 0x00u8;
                if self.ready {
                    ocr0 |= 0x80;
                    if self.kind == Kind::Sdhc {
                        ocr0 |= 0x40;
                    }
                }
                let r = self.r1();
                self.queue_response(&[r, ocr0, 0xFF, 0x80, 0x00]);
            }
            9 => {
                if !self.ready {
                    let r = 0x04 | self.r1();
                    self.queue_response(&[r]);
                } else {
                    self.queue_response(&[0x00]);
                    let csd = self.csd;
                    self.queue_data_block(&csd);
                }
            }
            13 => {
                let (mut a, mut b) = (self.r1(), 0x00u8);
                if let Some((k, x, y)) = self.inject.cmd13 {
                    if k == self.cmd13_count {
                        a = x;
                        b = y;
                        self.corrupted_this_call = true;
                    }
                }
                self.cmd13_count += 1;
                self.queue_response(&[a, b]);
            }
            17 | 18 | 24 | 25 => {
                if !self.ready {
                    let r = 0x04 | self.r1();
                    self.queue_response(&[r]);
                    return;
                }
                let blk: Option<u32> = if self.kind == Kind::Sdhc {
                    Some(arg)
                } else if arg % 512 == 0 {
                    Some(arg / 512)
                } else {
                    None
                };
                match blk {
                    None => self.queue_response(&[0x20]), // address error
                    Some(b) if b as u64 >= self.nblocks => self.queue_response(&[0x40]), // parameter error
                    Some(b) => {
                        self.queue_response(&[0x00]);
                        match cmd {
                            17 => {
                                let d = self.block(b);
                                self.queue_data_block(&d);
                            }
                            18 => {
                                self.read_stream = Some(b);
                                let d = self.block(b);
                                self.queue_data_block(&d);
                            }
                            24 => {
                                self.write_block = b;
                                self.rx = Rx::Token { multi: false };
                            }
                            _ => {
                                self.write_block = b;
                                self.rx = Rx::Token { multi: true };
                                if let (true, Some(n)) = (self.honour_pre_erase, self.pre_erase_armed.take()) {
                                    for k in 0..n.min(6000) {
                                        let t = b as u64 + k as u64;
                                        if t < self.nblocks {
                                            self.mem.insert(t as u32, [self.erase_value; 512]);
                                        }
                                    }
                                }
                            }
                        }
                    }
                }
            }
            23 if app => {
                self.pre_erase = Some(arg & 0x7F_FFFF);
                self.pre_erase_armed = Some(arg & 0x7F_FFFF);
                let r = self.r1();
                self.queue_response(&[r]);
            }
            12 => {
                if !was_streaming {
                    self.violate("C14.stop-without-stream", "CMD12 sent while no multiple-block read is in progress".into());
                }
                self.read_stream = None;
                // one stuff byte of arbitrary value, then the response, then possibly busy
                let stuff = self.rng.next_u32() as u8;
                self.tx.push_back((stuff, false));
                self.queue_response(&[0x00]);
                self.queue_busy();
            }
            _ => {
                let r = 0x04 | self.r1();
                self.queue_response(&[r]);
            }
        }
    }

    fn handle_data_block(&mut self, multi: bool, buf: &[u8]) {
        let data = &buf[..512];
        let crc = u16::from_be_bytes([buf[512], buf[513]]);
        let good = crc16_ref(data) == crc;
        if self.crc_on && !good {
            self.violate("C14.bad-data-crc", format!("data block for block {} carries CRC {:#06x}, correct is {:#06x} (CRC mode on)", self.write_block, crc, crc16_ref(data)));
        }
        let mut token = if self.crc_on && !good { 0x0B } else { 0x05 };
        if self.write_block as u64 >= self.nblocks {
            // running off the end of the card inside a multiple-block write: write error
            token = 0x0D;
        }
        if let Some((k, t)) = self.inject.data_response {
            if k == self.data_blocks_received {
                token = t;
                self.corrupted_this_call = true;
            }
        }
        self.data_blocks_received += 1;
        // upper three bits of the data response are undefined
        let hi = (self.rng.next_u32() as u8) & 0xE0;
        self.tx.push_back(((token & 0x1F) | hi, false));
        if token & 0x1F == 0x05 {
            let mut b = [0u8; 512];
            b.copy_from_slice(data);
            if (self.write_block as u64) < self.nblocks {
                self.mem.insert(self.write_block, b);
                self.writes_committed.push(self.write_block);
            }
            if multi {
                self.write_block = self.write_block.wrapping_add(1);
            }
        }
        match self.prog_busy {
            Some(n) if self.prog_budget > 0 && self.rng.chance(1, 3) => {
                self.prog_budget -= 1;
                for _ in 0..n {
                    self.tx.push_back((0x00, true));
                }
            }
            _ => self.queue_busy(),
        }
        self.rx = if multi { Rx::Token { multi: true } } else { Rx::Idle };
    }

    /// One clocked byte: MOSI in, MISO out.
    pub fn clock(&mut self, mosi: u8) -> u8 {
        let idx = self.bytes_in_call;
        self.bytes_in_call += 1;
        self.total_bytes += 1;
        // misbehaving card: ignores its input from the given byte on
        match self.misbehave.clone() {
            Misbehave::Silent(n) if idx >= n => {
                self.corrupted_this_call = true;
                return self.log(mosi, 0xFF);
            }
            Misbehave::BusyForever(n) if idx >= n => {
                self.corrupted_this_call = true;
                return self.log(mosi, 0x00);
            }
            Misbehave::Constant(n, b) if idx >= n => {
                self.corrupted_this_call = true;
                return self.log(mosi, b);
            }
            Misbehave::Garbage(n, _) if idx >= n => {
                self.corrupted_this_call = true;
                let g = self.garbage.next_u32() as u8;
                return self.log(mosi, g);
            }
            _ => {}
        }
        // ---- what the card drives on MISO for this byte (decided before looking at MOSI) ----------
        let (miso, was_busy) = match self.tx.pop_front() {
            Some((b, busy)) => (b, busy),
            None => (0xFF, false),
        };
        let in_data = self.data_pending > 0;
        self.data_pending = self.data_pending.saturating_sub(1);
        // keep a multi-block read flowing
        if self.tx.is_empty() {
            if let Some(b) = self.read_stream {
                // (past the last block the card has nothing more to send, but the read is still open
                // until the host stops it)
                if (b as u64) < self.nblocks {
                    let nb = b.saturating_add(1);
                    self.read_stream = Some(nb);
                    if (nb as u64) < self.nblocks {
                        let d = self.block(nb);
                        self.queue_data_block(&d);
                    }
                }
            }
        }
        // ---- MOSI parser -------------------------------------------------------------------------
        let rx = std::mem::replace(&mut self.rx, Rx::Idle);
        self.rx = match rx {
            Rx::Idle => {
                if mosi == 0xFF {
                    Rx::Idle
                } else if mosi & 0xC0 == 0x40 {
                    // (stop-transmission is the one command a card takes while it is sending)
                    if in_data && mosi != 0x4C && !self.corrupted_this_call {
                        self.violate("C14.cmd-while-sending", format!("command byte {:#04x} sent while the card is still clocking out a data block (the trailer bytes included)", mosi));
                    }
                    Rx::Frame(vec![mosi])
                } else {
                    self.violate("C14.stray-byte", format!("byte {:#04x} outside any frame or data phase", mosi));
                    Rx::Idle
                }
            }
            Rx::Frame(mut v) => {
                v.push(mosi);
                if v.len() == 6 {
                    let f = [v[0], v[1], v[2], v[3], v[4], v[5]];
                    self.rx = Rx::Idle;
                    self.handle_frame(f);
                    std::mem::replace(&mut self.rx, Rx::Idle)
                } else {
                    Rx::Frame(v)
                }
            }
            Rx::Token { multi } => {
                if mosi == 0xFF {
                    Rx::Token { multi }
                } else if was_busy {
                    self.violate("C14.token-while-busy", format!("token {:#04x} sent while the card is busy", mosi));
                    Rx::Token { multi }
                } else if (!multi && mosi == 0xFE) || (multi && mosi == 0xFC) {
                    Rx::Data { multi, buf: Vec::with_capacity(514) }
                } else if multi && mosi == 0xFD {
                    if self.stop_gap {
                        self.tx.push_back((0xFF, false));
                    }
                    match self.stop_busy {
                        Some(n) => {
                            for _ in 0..n {
                                self.tx.push_back((0x00, true));
                            }
                        }
                        None => self.queue_busy(),
                    }
                    Rx::Idle
                } else if mosi & 0xC0 == 0x40 {
                    // a command instead of data
                    self.violate("C14.bad-token", format!("command byte {:#04x} where a data token was expected ({} write)", mosi, if multi { "multiple-block" } else { "single-block" }));
                    Rx::Frame(vec![mosi])
                } else {
                    self.violate("C14.bad-token", format!("token {:#04x} where {} was expected", mosi, if multi { "0xFC or 0xFD" } else { "0xFE" }));
                    Rx::Token { multi }
                }
            }
            Rx::Data { multi, mut buf } => {
                buf.push(mosi);
                if buf.len() == 514 {
                    self.rx = Rx::Idle;
                    self.handle_data_block(multi, &buf);
                    std::mem::replace(&mut self.rx, Rx::Idle)
                } else {
                    Rx::Data { multi, buf }
                }
            }
        };
        self.log(mosi, miso)
    }

    fn log(&mut self, mosi: u8, miso: u8) -> u8 {
        if self.ring.len() >= 2048 {
            self.ring.pop_front();
        }
        self.ring.push_back((self.call_id, mosi, miso));
        if self.miso_call.len() < 400_000 {
            self.miso_call.push(miso);
        }
        miso
    }

    /// open multi-block write at the end of a driver call = missing stop token
    pub fn end_call_checks(&mut self) {
        if let Rx::Token { multi: true } = self.rx {
            self.violate("C14.no-stop-token", "multiple-block write not closed by the stop token 0xFD".into());
            self.rx = Rx::Idle;
        }
        if let Rx::Token { multi: false } = self.rx {
            self.violate("C14.bad-token", "single-block write command without a data block".into());
            self.rx = Rx::Idle;
        }
        if let Rx::Data { .. } = self.rx {
            self.violate("C14.short-data", "data block shorter than 512+2 bytes".into());
            self.rx = Rx::Idle;
        }
        if self.read_stream.is_some() {
            self.violate("C14.no-stop-transmission", "multiple-block read not ended by CMD12".into());
            self.read_stream = None;
            self.tx.clear();
        }
    }

    /// The card answers again: modelled as a power cycle that keeps the memory array.
    pub fn heal(&mut self) {
        self.misbehave = Misbehave::None;
        self.inject = Inject::default();
        self.rx = Rx::Idle;
        self.tx.clear();
        self.data_pending = 0;
        self.read_stream = None;
        self.app_next = false;
        self.powered_cmd0 = false;
        self.idle = false;
        self.ready = false;
        self.crc_on = false;
        self.ident.clear();
        self.expect_cmd0_next = true;
        self.sleepy_left = self.sleepy;
    }

    pub fn set_sleepy(&mut self, n: u32) {
        self.sleepy = n;
        self.sleepy_left = n;
    }

    pub fn ring_dump(&self, n: usize) -> String {
        let mut s = String::new();
        let skip = self.ring.len().saturating_sub(n);
        for (c, o, i) in self.ring.iter().skip(skip) {
            s.push_str(&format!("{}:{:02x}>{:02x} ", c, o, i));
        }
        s
    }
}
