//! Independent FAT16/FAT32 formatter and tree populator, written from the Microsoft FAT
//! specification (fatgen103). Shares no code with the library under test.

use crate::cal;
use crate::dev::{Bg, Image, Region};
use crate::prng::Rng;

#[derive(Clone, Debug, PartialEq)]
pub enum FsInfoInit {
    Correct,
    Unknown,
    Custom { count: u32, hint: u32 },
    /// correct count, but the (advisory) next-free hint names a cluster that is in use
    HintInUse,
    /// correct count, hint = a value that names no cluster of this volume (0, 1, first past the end, ...)
    HintOutside,
}

#[derive(Clone, Debug)]
pub struct Geom {
    pub fat32: bool,
    /// blocks per cluster
    pub spc: u32,
    pub reserved: u32,
    pub nfats: u32,
    /// FAT16 only
    pub root_entries: u32,
    pub clusters: u32,
    /// unused extra sectors at the end of each FAT
    pub fat_extra: u32,
    /// blocks inside the partition after the last whole cluster (< spc)
    pub tail: u32,
    pub part_slot: usize,
    pub part_start: u32,
    pub part_type: u8,
    pub force_total32: bool,
    pub root_cluster: u32,
    pub fsinfo: FsInfoInit,
    pub high_nibbles: bool,
    /// FAT32 BPB_ExtFlags (active FAT number, bit 7 = mirroring disabled); the library under test and
    /// the statement of C16 know nothing of it: all copies are kept identical regardless
    pub ext_flags: u16,
    /// the MBR entry may be longer than the volume the boot sector describes
    pub mbr_len_extra: u32,
    pub neighbours: bool,
    pub label: [u8; 11],
    /// randomise the end-of-chain value among the legal ones
    pub eoc_variants: bool,
}

impl Geom {
    pub fn entry_bytes(&self) -> u32 {
        if self.fat32 {
            4
        } else {
            2
        }
    }
    pub fn fat_size(&self) -> u32 {
        ((self.clusters + 2) * self.entry_bytes() + 511) / 512 + self.fat_extra
    }
    pub fn root_blocks(&self) -> u32 {
        if self.fat32 {
            0
        } else {
            (self.root_entries * 32 + 511) / 512
        }
    }
    /// absolute block numbers
    pub fn fat_start(&self) -> u32 {
        self.part_start + self.reserved
    }
    pub fn fat2_start(&self) -> Option<u32> {
        if self.nfats >= 2 {
            Some(self.fat_start() + self.fat_size())
        } else {
            None
        }
    }
    pub fn root_start(&self) -> u32 {
        self.fat_start() + self.nfats * self.fat_size()
    }
    pub fn data_start(&self) -> u32 {
        self.root_start() + self.root_blocks()
    }
    pub fn part_len(&self) -> u32 {
        self.reserved + self.nfats * self.fat_size() + self.root_blocks() + self.clusters * self.spc + self.tail
    }
    pub fn part_end(&self) -> u32 {
        self.part_start + self.part_len()
    }
    pub fn cluster_blk(&self, c: u32) -> u32 {
        self.data_start() + (c - 2) * self.spc
    }
    pub fn cluster_bytes(&self) -> u32 {
        self.spc * 512
    }
    /// FAT entries that exist in the last FAT sector(s) but name no cluster
    pub fn slack_entries(&self) -> u32 {
        self.fat_size() * 512 / self.entry_bytes() - (self.clusters + 2)
    }
    pub fn fsinfo_blk(&self) -> u32 {
        self.part_start + 1
    }
    pub fn nblocks(&self) -> u32 {
        self.part_end().saturating_add(self.mbr_len_extra).saturating_add(if self.neighbours { 96 } else { 8 })
    }
    pub fn describe(&self) -> String {
        format!(
            "{} clusters={} spc={} reserved={} fats={} root_entries={} fat_size={} slack={} tail={} slot={} start={} type={:#04x} total32={} rootclus={} fsinfo={:?} nibbles={} extflags={:#06x}",
            if self.fat32 { "FAT32" } else { "FAT16" },
            self.clusters,
            self.spc,
            self.reserved,
            self.nfats,
            self.root_entries,
            self.fat_size(),
            self.slack_entries(),
            self.tail,
            self.part_slot,
            self.part_start,
            self.part_type,
            self.force_total32,
            self.root_cluster,
            self.fsinfo,
            self.high_nibbles,
            self.ext_flags
        )
    }
    pub fn hash(&self) -> u64 {
        crate::prng::hash_bytes(self.describe().as_bytes())
    }

    pub fn base_fat16(clusters: u32, spc: u32) -> Geom {
        Geom {
            fat32: false,
            spc,
            reserved: 1,
            nfats: 2,
            root_entries: 512,
            clusters,
            fat_extra: 0,
            tail: 0,
            part_slot: 0,
            part_start: 63,
            part_type: 0x06,
            force_total32: false,
            root_cluster: 2,
            fsinfo: FsInfoInit::Correct,
            high_nibbles: false,
            ext_flags: 0,
            mbr_len_extra: 0,
            neighbours: true,
            label: *b"           ",
            eoc_variants: false,
        }
    }
    pub fn base_fat32(clusters: u32, spc: u32) -> Geom {
        Geom { fat32: true, reserved: 32, root_entries: 0, part_type: 0x0C, ..Geom::base_fat16(clusters, spc) }
    }

    /// Seeded geometry out of the families the design lists.
    pub fn random(rng: &mut Rng, want_fat32: Option<bool>, max_spc: u32) -> Geom {
        let fat32 = want_fat32.unwrap_or_else(|| rng.chance(1, 3));
        let spcs: Vec<u32> = [1u32, 2, 4, 8, 16, 32, 64, 128].iter().cloned().filter(|s| *s <= max_spc).collect();
        let spc = *rng.pick(&spcs);
        let per = if fat32 { 128 } else { 256 };
        let lo = if fat32 { 65525 } else { 4085 };
        let clusters = match rng.below(if fat32 { 5 } else { 6 }) {
            // the largest FAT16 volumes: cluster numbers (and therefore FAT link values) reach
            // 0xFFF0..0xFFF5, right below the bad-cluster / end-of-chain marks
            5 => 65519 + rng.below(6) as u32,
            0 => lo,                                                  // the boundary itself
            1 => ((lo + 2 + per - 1) / per) * per - 2,                // last FAT sector exactly full
            2 => ((lo + 2 + per - 1) / per) * per - 2 + per,          // exactly full, one sector more
            3 => lo + 1 + rng.below(per as u64 - 3) as u32,           // slack
            _ => lo + rng.below(3 * per as u64) as u32,
        };
        let mut g = if fat32 { Geom::base_fat32(clusters, spc) } else { Geom::base_fat16(clusters, spc) };
        // (three and four copies are legal too; the library keeps the first two / first one current,
        // C16 is quantified over one and two copies only)
        g.nfats = match rng.below(14) {
            0..=3 => 1,
            4..=11 => 2,
            12 => 3,
            _ => 4,
        };
        g.reserved = if fat32 { *rng.pick(&[2u32, 7, 32, 33]) } else { *rng.pick(&[1u32, 1, 2, 8, 32]) };
        // (counts that do not fill their last sector are legal: the root region is rounded up)
        g.root_entries = if fat32 { 0 } else { *rng.pick(&[16u32, 32, 112, 224, 512, 24, 100, 500, 1000]) };
        g.fat_extra = if rng.chance(1, 4) { 1 + rng.below(2) as u32 } else { 0 };
        g.tail = if spc > 1 && rng.chance(1, 2) { rng.below(spc as u64) as u32 } else { 0 };
        g.part_slot = rng.usize_below(4);
        g.part_start = *rng.pick(&[1u32, 63, 2048, 2049, 0x00FF_FFF0]);
        g.part_type = if fat32 { *rng.pick(&[0x0Bu8, 0x0C]) } else { *rng.pick(&[0x04u8, 0x06, 0x0E]) };
        g.force_total32 = rng.chance(1, 3);
        if fat32 {
            g.root_cluster = match rng.below(4) {
                0 => 2,
                1 => 5,
                2 => clusters + 1, // the very last cluster
                _ => 2 + rng.below(clusters as u64) as u32,
            };
            g.fsinfo = match rng.below(7) {
                0 => FsInfoInit::Unknown,
                1 => FsInfoInit::HintInUse,
                // a truthful count with a hint that names no cluster of the volume
                2 => FsInfoInit::HintOutside,
                _ => FsInfoInit::Correct,
            };
            g.high_nibbles = rng.chance(1, 3);
            g.ext_flags = if rng.chance(1, 4) { *rng.pick(&[0x0080u16, 0x0081, 0x0001, 0x008F]) } else { 0 };
        }
        g.eoc_variants = rng.chance(1, 2);
        g.mbr_len_extra = *rng.pick(&[0u32, 0, 0, 1, 8, 30]);
        g.neighbours = true;
        // now and then the volume sits at the very end of the 32-bit block address space
        if rng.chance(1, 10) {
            // (room is left for a caller that adds FAT copies afterwards)
            g.part_start = u32::MAX - 1400 - rng.below(50) as u32 - g.part_len() - 3 * g.fat_size();
        }
        g
    }
}

#[derive(Clone, Copy, Debug, PartialEq)]
pub enum Alloc {
    /// lowest free clusters, ascending
    Seq,
    /// random free clusters in random (non-monotonic) order
    Scatter,
    /// highest free clusters (descending start: the chain begins at the last cluster)
    Tail,
}

#[derive(Clone, Debug)]
pub struct FDir {
    /// 0 = the FAT16 fixed root region
    pub start: u32,
    pub chain: Vec<u32>,
    pub used: usize,
    pub parent: Option<usize>,
    pub path: String,
}

#[derive(Clone, Debug)]
pub struct Placed {
    pub path: String,
    pub is_dir: bool,
    pub attr: u8,
    pub data: Option<Vec<u8>>,
    pub size: u32,
    pub chain: Vec<u32>,
    pub slot_blk: u32,
    pub slot_off: u32,
    pub raw: [u8; 32],
    pub lfn: Option<Vec<u16>>,
}

pub struct Fmt {
    pub g: Geom,
    pub img: Image,
    pub fat: Vec<u32>,
    pub dirs: Vec<FDir>,
    pub placed: Vec<Placed>,
    pub rng: Rng,
    stamp: u32,
}

pub const EOC: u32 = 0x0FFF_FFFF;

pub fn lfn_checksum(short: &[u8; 11]) -> u8 {
    let mut sum = 0u8;
    for &c in short {
        sum = (if sum & 1 != 0 { 0x80u8 } else { 0 }).wrapping_add(sum >> 1).wrapping_add(c);
    }
    sum
}

/// LFN slots in on-disk order (highest sequence number first).
pub fn lfn_slots(name: &[u16], short: &[u8; 11]) -> Vec<[u8; 32]> {
    let n = (name.len() + 12) / 13;
    let csum = lfn_checksum(short);
    let mut out = Vec::new();
    for seq in (1..=n).rev() {
        let mut units = [0xFFFFu16; 13];
        for k in 0..13 {
            let i = (seq - 1) * 13 + k;
            if i < name.len() {
                units[k] = name[i];
            } else if i == name.len() {
                units[k] = 0;
            }
        }
        out.push(lfn_slot_raw(seq as u8 | if seq == n { 0x40 } else { 0 }, csum, &units));
    }
    out
}

pub fn lfn_slot_raw(ord: u8, csum: u8, units: &[u16; 13]) -> [u8; 32] {
    let mut s = [0u8; 32];
    s[0] = ord;
    s[11] = 0x0F;
    s[12] = 0;
    s[13] = csum;
    let pos = [1usize, 3, 5, 7, 9, 14, 16, 18, 20, 22, 24, 28, 30];
    for (k, &p) in pos.iter().enumerate() {
        s[p..p + 2].copy_from_slice(&units[k].to_le_bytes());
    }
    s
}

pub fn name11(s: &str) -> [u8; 11] {
    let mut o = [b' '; 11];
    let (b, e) = match s.rfind('.') {
        Some(p) if p > 0 => (&s[..p], &s[p + 1..]),
        _ => (s, ""),
    };
    for (i, c) in b.chars().take(8).enumerate() {
        o[i] = c as u32 as u8;
    }
    for (i, c) in e.chars().take(3).enumerate() {
        o[8 + i] = c as u32 as u8;
    }
    o
}

pub fn name_string(n: &[u8; 11]) -> String {
    let base: String = n[..8].iter().map(|&b| b as char).collect::<String>().trim_end().to_string();
    let ext: String = n[8..].iter().map(|&b| b as char).collect::<String>().trim_end().to_string();
    if ext.is_empty() {
        base
    } else {
        format!("{}.{}", base, ext)
    }
}

impl Fmt {
    pub fn new(g: Geom, rng: Rng) -> Fmt {
        Fmt::new_into(g, rng, None)
    }

    /// Format a partition into an existing device image (multi-volume devices). The caller
    /// chooses non-overlapping `part_start` values.
    pub fn new_into(g: Geom, rng: Rng, existing: Option<Image>) -> Fmt {
        let mut img = existing.unwrap_or_else(|| Image::new(g.nblocks()));
        if img.nblocks < g.nblocks() {
            img.nblocks = g.nblocks();
        }
        // backgrounds (first match wins): this partition's metadata zero, its data area
        // "previously used" junk, everything else on the device (except the MBR) canary
        img.regions.retain(|r| !(r.bg == Bg::Canary && r.start == 1));
        img.regions.push(Region { start: g.part_start, end: g.data_start(), bg: Bg::Zero });
        img.regions.push(Region { start: g.data_start(), end: g.data_start() + g.clusters * g.spc + g.tail, bg: Bg::Junk });
        img.regions.push(Region { start: 1, end: u32::MAX, bg: Bg::Canary });
        let fat = vec![0u32; (g.clusters + 2) as usize];
        let mut f = Fmt { g, img, fat, dirs: Vec::new(), placed: Vec::new(), rng, stamp: 0 };
        f.write_mbr();
        f.write_bpb();
        // root directory
        if f.g.fat32 {
            let rc = f.g.root_cluster;
            f.fat[rc as usize] = EOC;
            f.zero_cluster(rc);
            f.dirs.push(FDir { start: rc, chain: vec![rc], used: 0, parent: None, path: String::new() });
        } else {
            for b in 0..f.g.root_blocks() {
                let blk = f.g.root_start() + b;
                f.img.write(blk, &[0u8; 512]);
            }
            f.dirs.push(FDir { start: 0, chain: vec![], used: 0, parent: None, path: String::new() });
        }
        f
    }

    fn write_mbr(&mut self) {
        let g = self.g.clone();
        let mut m = self.img.read(0);
        let fresh = m[510] != 0x55 || m[511] != 0xAA;
        // some boot code bytes
        m[0] = 0xFA;
        m[1] = 0x33;
        m[2] = 0xC0;
        let put = |m: &mut [u8; 512], slot: usize, status: u8, ty: u8, start: u32, len: u32| {
            let o = 446 + 16 * slot;
            m[o] = status;
            m[o + 1] = 0xFE;
            m[o + 2] = 0xFF;
            m[o + 3] = 0xFF;
            m[o + 4] = ty;
            m[o + 5] = 0xFE;
            m[o + 6] = 0xFF;
            m[o + 7] = 0xFF;
            m[o + 8..o + 12].copy_from_slice(&start.to_le_bytes());
            m[o + 12..o + 16].copy_from_slice(&len.to_le_bytes());
        };
        put(&mut m, g.part_slot, if self.rng.chance(1, 2) { 0x80 } else { 0x00 }, g.part_type, g.part_start, g.part_len() + g.mbr_len_extra);
        if g.neighbours && fresh {
            // a foreign partition behind ours, and one in front when there is room
            let mut others: Vec<(u8, u32, u32)> = vec![(0x83, g.part_end() + g.mbr_len_extra, 64)];
            if g.part_start > 40 {
                others.push((0x07, 8, 24));
            }
            let mut s = 0;
            for (ty, st, ln) in others {
                while s == g.part_slot {
                    s += 1;
                }
                if s < 4 {
                    put(&mut m, s, 0, ty, st, ln);
                    s += 1;
                }
            }
        }
        m[510] = 0x55;
        m[511] = 0xAA;
        self.img.write(0, &m);
    }

    fn write_bpb(&mut self) {
        let g = self.g.clone();
        let mut b = [0u8; 512];
        b[0] = 0xEB;
        b[1] = 0x3C;
        b[2] = 0x90;
        b[3..11].copy_from_slice(b"MSDOS5.0");
        b[11..13].copy_from_slice(&512u16.to_le_bytes());
        b[13] = g.spc as u8;
        b[14..16].copy_from_slice(&(g.reserved as u16).to_le_bytes());
        b[16] = g.nfats as u8;
        b[17..19].copy_from_slice(&(g.root_entries as u16).to_le_bytes());
        let total = g.part_len();
        if total < 0x10000 && !g.force_total32 && !g.fat32 {
            b[19..21].copy_from_slice(&(total as u16).to_le_bytes());
        } else {
            b[32..36].copy_from_slice(&total.to_le_bytes());
        }
        b[21] = 0xF8;
        b[24..26].copy_from_slice(&63u16.to_le_bytes());
        b[26..28].copy_from_slice(&255u16.to_le_bytes());
        b[28..32].copy_from_slice(&g.part_start.to_le_bytes());
        if g.fat32 {
            b[36..40].copy_from_slice(&g.fat_size().to_le_bytes());
            b[40..42].copy_from_slice(&g.ext_flags.to_le_bytes());
            b[44..48].copy_from_slice(&g.root_cluster.to_le_bytes());
            b[48..50].copy_from_slice(&1u16.to_le_bytes());
            let backup: u16 = if g.reserved > 6 { 6 } else { 0 };
            b[50..52].copy_from_slice(&backup.to_le_bytes());
            b[64] = 0x80;
            b[66] = 0x29;
            b[67..71].copy_from_slice(&0x1234_5678u32.to_le_bytes());
            b[71..82].copy_from_slice(&g.label);
            b[82..90].copy_from_slice(b"FAT32   ");
        } else {
            b[22..24].copy_from_slice(&(g.fat_size() as u16).to_le_bytes());
            b[36] = 0x80;
            b[38] = 0x29;
            b[39..43].copy_from_slice(&0x1234_5678u32.to_le_bytes());
            b[43..54].copy_from_slice(&g.label);
            b[54..62].copy_from_slice(b"FAT16   ");
        }
        b[510] = 0x55;
        b[511] = 0xAA;
        self.img.write(g.part_start, &b);
        if g.fat32 && g.reserved > 6 {
            self.img.write(g.part_start + 6, &b);
        }
    }

    pub fn zero_cluster(&mut self, c: u32) {
        for k in 0..self.g.spc {
            let blk = self.g.cluster_blk(c) + k;
            self.img.write(blk, &[0u8; 512]);
        }
    }

    pub fn free_count(&self) -> u32 {
        self.fat[2..].iter().filter(|&&x| x & 0x0FFF_FFFF == 0).count() as u32
    }

    fn eoc(&mut self) -> u32 {
        if self.g.eoc_variants {
            0x0FFF_FFF8 + self.rng.below(8) as u32
        } else {
            EOC
        }
    }

    /// Allocate `n` clusters as one chain; returns the chain (empty if n == 0).
    pub fn alloc_chain(&mut self, n: usize, how: Alloc) -> Vec<u32> {
        if n == 0 {
            return vec![];
        }
        let total = self.g.clusters + 2;
        let mut picked: Vec<u32> = Vec::with_capacity(n);
        match how {
            Alloc::Seq => {
                let mut c = 2;
                while picked.len() < n && c < total {
                    if self.fat[c as usize] == 0 {
                        picked.push(c);
                    }
                    c += 1;
                }
            }
            Alloc::Tail => {
                let mut c = total - 1;
                while picked.len() < n && c >= 2 {
                    if self.fat[c as usize] == 0 {
                        picked.push(c);
                    }
                    c -= 1;
                }
            }
            Alloc::Scatter => {
                let mut tries = 0;
                while picked.len() < n && tries < n * 50 + 1000 {
                    tries += 1;
                    let mut c = 2 + self.rng.below((total - 2) as u64) as u32;
                    // probe forward to the next free cluster
                    let mut steps = 0;
                    while (self.fat[c as usize] != 0 || picked.contains(&c)) && steps < 64 {
                        c = if c + 1 >= total { 2 } else { c + 1 };
                        steps += 1;
                    }
                    if self.fat[c as usize] == 0 && !picked.contains(&c) {
                        picked.push(c);
                    }
                }
            }
        }
        assert!(picked.len() == n, "formatter ran out of clusters ({} of {})", picked.len(), n);
        for i in 0..n {
            let v = if i + 1 < n { picked[i + 1] } else { self.eoc() };
            self.fat[picked[i] as usize] = v;
        }
        picked
    }

    fn next_stamp(&mut self) -> (u16, u16) {
        self.stamp += 1;
        let s = self.stamp;
        let d = cal::fat_date(1999 + (s % 20), 1 + (s * 7) % 12, 1 + (s * 11) % 28);
        let t = cal::fat_time((s * 5) % 24, (s * 13) % 60, (s * 2 * 17) % 60);
        (d, t)
    }

    pub fn raw_entry(&mut self, name: &[u8; 11], attr: u8, cluster: u32, size: u32) -> [u8; 32] {
        let (cd, ct) = self.next_stamp();
        let (md, mt) = self.next_stamp();
        let mut b = [0u8; 32];
        b[0..11].copy_from_slice(name);
        b[11] = attr;
        b[14..16].copy_from_slice(&ct.to_le_bytes());
        b[16..18].copy_from_slice(&cd.to_le_bytes());
        // what other systems leave in an entry: lower-case flags, creation time to 10 ms, the
        // last-access date; now and then a creation time that was never recorded (all zero)
        match self.rng.below(4) {
            0 => {}
            1 => {
                b[12] = *self.rng.pick(&[0x08u8, 0x10, 0x18]);
                b[13] = self.rng.below(200) as u8;
                b[18..20].copy_from_slice(&md.to_le_bytes());
            }
            2 => {
                b[13] = 1 + self.rng.below(199) as u8;
                b[18..20].copy_from_slice(&cd.to_le_bytes());
            }
            _ => {
                b[13] = 0;
                b[14..18].copy_from_slice(&[0, 0, 0, 0]);
            }
        }
        if self.g.fat32 {
            b[20..22].copy_from_slice(&((cluster >> 16) as u16).to_le_bytes());
        }
        b[22..24].copy_from_slice(&mt.to_le_bytes());
        b[24..26].copy_from_slice(&md.to_le_bytes());
        b[26..28].copy_from_slice(&(cluster as u16).to_le_bytes());
        b[28..32].copy_from_slice(&size.to_le_bytes());
        b
    }

    /// Slots a directory can still take without growing (FAT16 root: until full).
    pub fn dir_capacity(&self, d: usize) -> usize {
        let dir = &self.dirs[d];
        if dir.start == 0 {
            self.g.root_entries as usize
        } else {
            dir.chain.len() * (self.g.spc as usize) * 16
        }
    }

    pub fn slot_loc(&self, d: usize, index: usize) -> (u32, u32) {
        let dir = &self.dirs[d];
        if dir.start == 0 {
            (self.g.root_start() + (index / 16) as u32, ((index % 16) * 32) as u32)
        } else {
            let per = self.g.spc as usize * 16;
            let c = dir.chain[index / per];
            let within = index % per;
            (self.g.cluster_blk(c) + (within / 16) as u32, ((within % 16) * 32) as u32)
        }
    }

    /// Append a raw 32-byte slot to a directory, growing its chain when needed.
    pub fn put_slot(&mut self, d: usize, raw: &[u8; 32], grow: Alloc) -> (u32, u32) {
        let idx = self.dirs[d].used;
        if idx >= self.dir_capacity(d) {
            assert!(self.dirs[d].start != 0, "formatter: FAT16 root directory full");
            let c = self.alloc_chain(1, grow)[0];
            let last = *self.dirs[d].chain.last().unwrap();
            self.fat[last as usize] = c;
            self.zero_cluster(c);
            self.dirs[d].chain.push(c);
        }
        let (blk, off) = self.slot_loc(d, idx);
        self.img.write_bytes(blk, off as usize, raw);
        self.dirs[d].used += 1;
        (blk, off)
    }

    fn child_path(&self, d: usize, name: &[u8; 11]) -> String {
        let p = &self.dirs[d].path;
        if p.is_empty() {
            name_string(name)
        } else {
            format!("{}/{}", p, name_string(name))
        }
    }

    pub fn add_file(&mut self, d: usize, name: &[u8; 11], attr: u8, data: &[u8], how: Alloc) -> usize {
        self.add_file_lfn(d, name, attr, data, how, None)
    }

    pub fn add_file_lfn(&mut self, d: usize, name: &[u8; 11], attr: u8, data: &[u8], how: Alloc, lfn: Option<&[u16]>) -> usize {
        let cb = self.g.cluster_bytes() as usize;
        let n = (data.len() + cb - 1) / cb;
        let chain = self.alloc_chain(n, how);
        for (i, &c) in chain.iter().enumerate() {
            let lo = i * cb;
            let hi = ((i + 1) * cb).min(data.len());
            let blk = self.g.cluster_blk(c);
            self.img.write_bytes(blk, 0, &data[lo..hi]);
        }
        if let Some(l) = lfn {
            for s in lfn_slots(l, name) {
                self.put_slot(d, &s, how);
            }
        }
        let raw = self.raw_entry(name, attr, chain.first().cloned().unwrap_or(0), data.len() as u32);
        let (blk, off) = self.put_slot(d, &raw, how);
        let path = self.child_path(d, name);
        self.placed.push(Placed { path, is_dir: false, attr, data: Some(data.to_vec()), size: data.len() as u32, chain, slot_blk: blk, slot_off: off, raw, lfn: lfn.map(|l| l.to_vec()) });
        self.placed.len() - 1
    }

    /// A file whose clusters are allocated but whose contents stay background junk (fillers).
    pub fn add_sparse_file(&mut self, d: usize, name: &[u8; 11], nclusters: usize, how: Alloc) -> usize {
        let chain = self.alloc_chain(nclusters, how);
        let size = (nclusters as u64 * self.g.cluster_bytes() as u64).min(u32::MAX as u64) as u32;
        let raw = self.raw_entry(name, 0x20, chain.first().cloned().unwrap_or(0), size);
        let (blk, off) = self.put_slot(d, &raw, Alloc::Seq);
        let path = self.child_path(d, name);
        self.placed.push(Placed { path, is_dir: false, attr: 0x20, data: None, size, chain, slot_blk: blk, slot_off: off, raw, lfn: None });
        self.placed.len() - 1
    }

    /// Same, with an explicit length (any value up to 2^32 - 1); the chain covers it exactly.
    pub fn add_sparse_file_sized(&mut self, d: usize, name: &[u8; 11], size: u32, how: Alloc) -> usize {
        let cb = self.g.cluster_bytes() as u64;
        let n = ((size as u64 + cb - 1) / cb) as usize;
        let chain = self.alloc_chain(n, how);
        assert_eq!(chain.len(), n, "volume too small for the sparse file");
        let raw = self.raw_entry(name, 0x20, chain.first().cloned().unwrap_or(0), size);
        let (blk, off) = self.put_slot(d, &raw, Alloc::Seq);
        let path = self.child_path(d, name);
        self.placed.push(Placed { path, is_dir: false, attr: 0x20, data: None, size, chain, slot_blk: blk, slot_off: off, raw, lfn: None });
        self.placed.len() - 1
    }

    pub fn mkdir(&mut self, parent: usize, name: &[u8; 11], attr: u8, how: Alloc) -> usize {
        let c = self.alloc_chain(1, how)[0];
        self.zero_cluster(c);
        let raw = self.raw_entry(name, attr | 0x10, c, 0);
        let (blk, off) = self.put_slot(parent, &raw, how);
        let path = self.child_path(parent, name);
        let pstart = self.dirs[parent].start;
        // ".." of a child of the root names cluster 0 (also on FAT32, per the specification)
        let pclus = if self.dirs[parent].parent.is_none() { 0 } else { pstart };
        self.dirs.push(FDir { start: c, chain: vec![c], used: 0, parent: Some(parent), path: path.clone() });
        let d = self.dirs.len() - 1;
        let dot = self.raw_entry(b".          ", 0x10, c, 0);
        let dotdot = self.raw_entry(b"..         ", 0x10, pclus, 0);
        self.put_slot(d, &dot, how);
        self.put_slot(d, &dotdot, how);
        self.placed.push(Placed { path, is_dir: true, attr: attr | 0x10, data: None, size: 0, chain: vec![c], slot_blk: blk, slot_off: off, raw, lfn: None });
        d
    }

    pub fn add_deleted(&mut self, d: usize, name: &[u8; 11]) {
        let mut raw = self.raw_entry(name, 0x20, 0, 0);
        raw[0] = 0xE5;
        self.put_slot(d, &raw, Alloc::Seq);
    }

    pub fn add_label(&mut self, d: usize, label: &[u8; 11]) {
        let raw = self.raw_entry(label, 0x08, 0, 0);
        self.put_slot(d, &raw, Alloc::Seq);
    }

    /// Allocate everything except `leave` clusters into FILLERn.BIN files in the root.
    /// `which`: 0 = leave the lowest free clusters, 1 = the highest, 2 = random ones.
    pub fn fill_leaving(&mut self, leave: u32, which: u32) {
        // make sure the root can take the filler entries without growing afterwards
        if self.dirs[0].start != 0 && self.dir_capacity(0) - self.dirs[0].used < 4 {
            let c = self.alloc_chain(1, Alloc::Seq)[0];
            let last = *self.dirs[0].chain.last().unwrap();
            self.fat[last as usize] = c;
            self.zero_cluster(c);
            self.dirs[0].chain.push(c);
        }
        let free: Vec<u32> = (2..self.g.clusters + 2).filter(|&c| self.fat[c as usize] == 0).collect();
        if free.len() as u32 <= leave {
            return;
        }
        let mut keep: Vec<u32> = match which {
            0 => free[..leave as usize].to_vec(),
            1 => free[free.len() - leave as usize..].to_vec(),
            _ => {
                let mut f = free.clone();
                self.rng.shuffle(&mut f);
                f[..leave as usize].to_vec()
            }
        };
        keep.sort();
        let take: Vec<u32> = free.iter().cloned().filter(|c| keep.binary_search(c).is_err()).collect();
        // split so that each filler stays below 4 GiB
        let max_per = ((u32::MAX as u64) / self.g.cluster_bytes() as u64).max(1) as usize;
        for (i, part) in take.chunks(max_per).enumerate() {
            for k in 0..part.len() {
                let v = if k + 1 < part.len() { part[k + 1] } else { EOC };
                self.fat[part[k] as usize] = v;
            }
            let name = name11(&format!("FILLER{}.BIN", i));
            let size = (part.len() as u64 * self.g.cluster_bytes() as u64).min(u32::MAX as u64) as u32;
            let raw = self.raw_entry(&name, 0x20, part[0], size);
            let (blk, off) = self.put_slot(0, &raw, Alloc::Seq);
            let path = self.child_path(0, &name);
            self.placed.push(Placed { path, is_dir: false, attr: 0x20, data: None, size, chain: part.to_vec(), slot_blk: blk, slot_off: off, raw, lfn: None });
        }
    }

    /// Serialise the FATs and the FSInfo sector; hand out the finished image.
    pub fn finish(mut self) -> (Image, Geom, Vec<Placed>) {
        let g = self.g.clone();
        for d in &self.dirs {
            if let Some(p) = self.placed.iter_mut().find(|p| p.is_dir && p.path == d.path) {
                p.chain = d.chain.clone();
            }
        }
        let eb = g.entry_bytes() as usize;
        let mut bytes = vec![0u8; (g.fat_size() * 512) as usize];
        self.fat[0] = 0x0FFF_FFF8;
        self.fat[1] = 0x0FFF_FFFF;
        for (c, &v) in self.fat.iter().enumerate() {
            if g.fat32 {
                let mut x = v & 0x0FFF_FFFF;
                if g.high_nibbles && c >= 2 && (c % 3 == 1) {
                    x |= ((c as u32 * 5 + 3) & 0xF) << 28;
                }
                bytes[c * eb..c * eb + 4].copy_from_slice(&x.to_le_bytes());
            } else {
                let x: u16 = if v >= 0x0FFF_FFF0 { (0xFFF0 | (v & 0xF)) as u16 } else { v as u16 };
                bytes[c * eb..c * eb + 2].copy_from_slice(&x.to_le_bytes());
            }
        }
        for copy in 0..g.nfats {
            let base = g.fat_start() + copy * g.fat_size();
            for s in 0..g.fat_size() {
                let chunk = &bytes[(s * 512) as usize..(s * 512 + 512) as usize];
                if chunk.iter().any(|&b| b != 0) {
                    let mut blk = [0u8; 512];
                    blk.copy_from_slice(chunk);
                    self.img.write(base + s, &blk);
                }
            }
        }
        if g.fat32 {
            let mut s = [0u8; 512];
            s[0..4].copy_from_slice(&0x4161_5252u32.to_le_bytes());
            s[484..488].copy_from_slice(&0x6141_7272u32.to_le_bytes());
            let free = self.free_count();
            let first_free = (2..g.clusters + 2).find(|&c| self.fat[c as usize] & 0x0FFF_FFFF == 0);
            let (count, hint) = match g.fsinfo {
                FsInfoInit::Correct => (free, first_free.unwrap_or(0xFFFF_FFFF)),
                FsInfoInit::Unknown => (0xFFFF_FFFF, 0xFFFF_FFFF),
                FsInfoInit::Custom { count, hint } => (count, hint),
                FsInfoInit::HintInUse => {
                    let used: Vec<u32> = (2..g.clusters + 2).filter(|&c| self.fat[c as usize] & 0x0FFF_FFFF != 0).collect();
                    let pick = if used.is_empty() { 2 } else { used[(used.len() * 2 / 3).min(used.len() - 1)] };
                    (free, pick)
                }
                FsInfoInit::HintOutside => {
                    let v = [0u32, 1, g.clusters + 2, g.clusters + 3, 0x0FFF_FFF0, 0xFFFF_FFFE];
                    (free, v[(free as usize + g.clusters as usize) % v.len()])
                }
            };
            s[488..492].copy_from_slice(&count.to_le_bytes());
            s[492..496].copy_from_slice(&hint.to_le_bytes());
            s[508..512].copy_from_slice(&0xAA55_0000u32.to_le_bytes());
            self.img.write(g.fsinfo_blk(), &s);
            if g.reserved > 7 {
                self.img.write(g.part_start + 7, &s);
            }
        }
        (self.img, g, self.placed)
    }
}
