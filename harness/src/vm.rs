//! Object-safe facade over `VolumeManager` so that the workload engine is compiled once and the
//! library is instantiated for many limit configurations. Every public entry point is reachable
//! through one of the API flavours: raw handles, RAII wrappers, embedded-io adapters.

use crate::dev::DevError;
use embedded_sdmmc::{
    BlockDevice, DirEntry, LfnBuffer, Mode, RawDirectory, RawFile, RawVolume, ShortFileName, TimeSource, Timestamp, VolumeIdx, VolumeManager,
};
use std::cell::{Cell, RefCell};
use std::rc::Rc;

pub type E = embedded_sdmmc::Error<DevError>;
pub type R<T> = Result<T, E>;

#[derive(Clone, Copy, PartialEq, Eq, Debug, Hash)]
pub enum Fl {
    /// VolumeManager methods on raw handles
    Raw,
    /// Volume / Directory / File wrapper methods
    Wrap,
    /// embedded_io::{Read, Write, Seek} on File (where it exists; otherwise like Wrap)
    Io,
}

#[derive(Clone, Copy, Debug)]
pub enum Nm<'a> {
    Str(&'a str),
    Sfn(&'a ShortFileName),
}

#[derive(Clone, Copy, Debug, PartialEq)]
pub enum SeekTo {
    Start(u64),
    Current(i64),
    End(i64),
}

/// Error discriminants (mirror of the library's enum, without payloads).
#[derive(Clone, Copy, Debug, PartialEq, Eq, Hash, PartialOrd, Ord)]
pub enum Ek {
    DeviceError,
    FormatError,
    NoSuchVolume,
    FilenameError,
    TooManyOpenVolumes,
    TooManyOpenDirs,
    TooManyOpenFiles,
    BadHandle,
    NotFound,
    FileAlreadyOpen,
    DirAlreadyOpen,
    OpenedDirAsFile,
    OpenedFileAsDir,
    DeleteDirAsFile,
    VolumeStillInUse,
    VolumeAlreadyOpen,
    Unsupported,
    EndOfFile,
    BadCluster,
    ConversionError,
    NotEnoughSpace,
    AllocationError,
    UnterminatedFatChain,
    ReadOnly,
    FileAlreadyExists,
    BadBlockSize,
    InvalidOffset,
    DiskFull,
    DirAlreadyExists,
    LockError,
}

pub fn ek(e: &E) -> Ek {
    use embedded_sdmmc::Error as X;
    match e {
        X::DeviceError(_) => Ek::DeviceError,
        X::FormatError(_) => Ek::FormatError,
        X::NoSuchVolume => Ek::NoSuchVolume,
        X::FilenameError(_) => Ek::FilenameError,
        X::TooManyOpenVolumes => Ek::TooManyOpenVolumes,
        X::TooManyOpenDirs => Ek::TooManyOpenDirs,
        X::TooManyOpenFiles => Ek::TooManyOpenFiles,
        X::BadHandle => Ek::BadHandle,
        X::NotFound => Ek::NotFound,
        X::FileAlreadyOpen => Ek::FileAlreadyOpen,
        X::DirAlreadyOpen => Ek::DirAlreadyOpen,
        X::OpenedDirAsFile => Ek::OpenedDirAsFile,
        X::OpenedFileAsDir => Ek::OpenedFileAsDir,
        X::DeleteDirAsFile => Ek::DeleteDirAsFile,
        X::VolumeStillInUse => Ek::VolumeStillInUse,
        X::VolumeAlreadyOpen => Ek::VolumeAlreadyOpen,
        X::Unsupported => Ek::Unsupported,
        X::EndOfFile => Ek::EndOfFile,
        X::BadCluster => Ek::BadCluster,
        X::ConversionError => Ek::ConversionError,
        X::NotEnoughSpace => Ek::NotEnoughSpace,
        X::AllocationError => Ek::AllocationError,
        X::UnterminatedFatChain => Ek::UnterminatedFatChain,
        X::ReadOnly => Ek::ReadOnly,
        X::FileAlreadyExists => Ek::FileAlreadyExists,
        X::BadBlockSize(_) => Ek::BadBlockSize,
        X::InvalidOffset => Ek::InvalidOffset,
        X::DiskFull => Ek::DiskFull,
        X::DirAlreadyExists => Ek::DirAlreadyExists,
        X::LockError => Ek::LockError,
    }
}

pub fn is_space_error(k: Ek) -> bool {
    matches!(k, Ek::DiskFull | Ek::NotEnoughSpace)
}

// ---------------------------------------------------------------------------------------------
// clock
// ---------------------------------------------------------------------------------------------

pub struct ClockState {
    pub n: Cell<u64>,
    pub cur_op: Cell<u32>,
    /// (op id, value handed out)
    pub log: RefCell<Vec<(u32, Timestamp)>>,
}

/// Strictly changing, even-second timestamps; every consumer call is logged with the API call
/// that caused it, so "mtime = clock value at the last write" is exact.
#[derive(Clone)]
pub struct Clock(pub Rc<ClockState>);

pub fn stamp_for(n: u64) -> Timestamp {
    let day = 3653 + (n % 40_000) as u32; // 1990-01-01 + n days
    let (y, m, d) = crate::cal::civil_from_days(day);
    let sod = ((n.wrapping_mul(3_662)) % 86_400) as u32 & !1;
    Timestamp {
        year_since_1970: (y - 1970) as u8,
        zero_indexed_month: (m - 1) as u8,
        zero_indexed_day: (d - 1) as u8,
        hours: (sod / 3600) as u8,
        minutes: ((sod / 60) % 60) as u8,
        seconds: (sod % 60) as u8,
    }
}

impl Clock {
    pub fn new(start: u64) -> Clock {
        Clock(Rc::new(ClockState { n: Cell::new(start), cur_op: Cell::new(0), log: RefCell::new(Vec::new()) }))
    }
    pub fn begin_op(&self, op: u32) {
        self.0.cur_op.set(op);
    }
    /// timestamps handed out during API call `op`
    pub fn during(&self, op: u32) -> Vec<Timestamp> {
        self.0.log.borrow().iter().filter(|(o, _)| *o == op).map(|(_, t)| *t).collect()
    }
    pub fn trim(&self) {
        let mut l = self.0.log.borrow_mut();
        if l.len() > 4096 {
            let k = l.len() - 1024;
            l.drain(..k);
        }
    }
}

impl TimeSource for Clock {
    fn get_timestamp(&self) -> Timestamp {
        let n = self.0.n.get() + 1;
        self.0.n.set(n);
        let t = stamp_for(n);
        self.0.log.borrow_mut().push((self.0.cur_op.get(), t));
        t
    }
}

// ---------------------------------------------------------------------------------------------
// facade
// ---------------------------------------------------------------------------------------------

pub trait Vm {
    fn limits(&self) -> (usize, usize, usize);
    fn open_volume(&self, fl: Fl, idx: usize) -> R<RawVolume>;
    fn close_volume(&self, fl: Fl, v: RawVolume) -> R<()>;
    fn drop_volume(&self, v: RawVolume);
    fn open_root_dir(&self, fl: Fl, v: RawVolume) -> R<RawDirectory>;
    fn open_dir(&self, fl: Fl, d: RawDirectory, name: Nm) -> R<RawDirectory>;
    /// Directory::change_dir – on success the old handle is closed and the new one returned
    fn change_dir(&self, d: RawDirectory, name: Nm) -> R<RawDirectory>;
    fn close_dir(&self, fl: Fl, d: RawDirectory) -> R<()>;
    fn drop_dir(&self, d: RawDirectory);
    fn find(&self, fl: Fl, d: RawDirectory, name: Nm) -> R<DirEntry>;
    fn iterate(&self, fl: Fl, d: RawDirectory, f: &mut dyn FnMut(&DirEntry)) -> R<()>;
    fn iterate_lfn(&self, fl: Fl, d: RawDirectory, buf: &mut [u8], f: &mut dyn FnMut(&DirEntry, Option<&str>)) -> R<()>;
    fn open_file(&self, fl: Fl, d: RawDirectory, name: Nm, mode: Mode) -> R<RawFile>;
    fn delete(&self, fl: Fl, d: RawDirectory, name: Nm) -> R<()>;
    fn mkdir(&self, fl: Fl, d: RawDirectory, name: Nm) -> R<()>;
    fn label(&self, v: RawVolume) -> R<Option<Vec<u8>>>;
    fn read(&self, fl: Fl, f: RawFile, buf: &mut [u8]) -> R<usize>;
    /// Io flavour: returns the count the adapter reported; others: buf.len() on success
    fn write(&self, fl: Fl, f: RawFile, buf: &[u8]) -> R<usize>;
    fn close_file(&self, fl: Fl, f: RawFile) -> R<()>;
    fn drop_file(&self, f: RawFile);
    fn flush(&self, fl: Fl, f: RawFile) -> R<()>;
    fn eof(&self, fl: Fl, f: RawFile) -> R<bool>;
    fn seek_start(&self, fl: Fl, f: RawFile, o: u32) -> R<()>;
    fn seek_cur(&self, fl: Fl, f: RawFile, o: i32) -> R<()>;
    fn seek_end(&self, fl: Fl, f: RawFile, o: u32) -> R<()>;
    fn seek_io(&self, f: RawFile, to: SeekTo) -> R<u64>;
    fn length(&self, fl: Fl, f: RawFile) -> R<u32>;
    fn offset(&self, fl: Fl, f: RawFile) -> R<u32>;
    fn has_open_handles(&self) -> bool;
}

macro_rules! with_name {
    ($name:expr, $n:ident => $body:expr) => {
        match $name {
            Nm::Str($n) => $body,
            Nm::Sfn($n) => $body,
        }
    };
}

impl<D, const A: usize, const B: usize, const C: usize> Vm for VolumeManager<D, Clock, A, B, C>
where
    D: BlockDevice<Error = DevError>,
{
    fn limits(&self) -> (usize, usize, usize) {
        (A, B, C)
    }
    fn open_volume(&self, fl: Fl, idx: usize) -> R<RawVolume> {
        match fl {
            Fl::Raw => self.open_raw_volume(VolumeIdx(idx)),
            _ => VolumeManager::open_volume(self, VolumeIdx(idx)).map(|v| v.to_raw_volume()),
        }
    }
    fn close_volume(&self, fl: Fl, v: RawVolume) -> R<()> {
        match fl {
            Fl::Raw => VolumeManager::close_volume(self, v),
            _ => v.to_volume(self).close(),
        }
    }
    fn drop_volume(&self, v: RawVolume) {
        drop(v.to_volume(self));
    }
    fn open_root_dir(&self, fl: Fl, v: RawVolume) -> R<RawDirectory> {
        match fl {
            Fl::Raw => VolumeManager::open_root_dir(self, v),
            _ => {
                let vol = core::mem::ManuallyDrop::new(v.to_volume(self));
                let r = vol.open_root_dir().map(|d| d.to_raw_directory());
                r
            }
        }
    }
    fn open_dir(&self, fl: Fl, d: RawDirectory, name: Nm) -> R<RawDirectory> {
        match fl {
            Fl::Raw => with_name!(name, n => VolumeManager::open_dir(self, d, n)),
            _ => {
                let dir = core::mem::ManuallyDrop::new(d.to_directory(self));
                let r = with_name!(name, n => dir.open_dir(n).map(|x| x.to_raw_directory()));
                r
            }
        }
    }
    fn change_dir(&self, d: RawDirectory, name: Nm) -> R<RawDirectory> {
        let mut dir = core::mem::ManuallyDrop::new(d.to_directory(self));
        let r = with_name!(name, n => dir.change_dir(n));
        let now = core::mem::ManuallyDrop::into_inner(dir).to_raw_directory();
        r.map(|_| now)
    }
    fn close_dir(&self, fl: Fl, d: RawDirectory) -> R<()> {
        match fl {
            Fl::Raw => VolumeManager::close_dir(self, d),
            _ => d.to_directory(self).close(),
        }
    }
    fn drop_dir(&self, d: RawDirectory) {
        drop(d.to_directory(self));
    }
    fn find(&self, fl: Fl, d: RawDirectory, name: Nm) -> R<DirEntry> {
        match fl {
            Fl::Raw => with_name!(name, n => VolumeManager::find_directory_entry(self, d, n)),
            _ => {
                let dir = core::mem::ManuallyDrop::new(d.to_directory(self));
                let r = with_name!(name, n => dir.find_directory_entry(n));
                r
            }
        }
    }
    fn iterate(&self, fl: Fl, d: RawDirectory, f: &mut dyn FnMut(&DirEntry)) -> R<()> {
        match fl {
            Fl::Raw => VolumeManager::iterate_dir(self, d, |e| f(e)),
            _ => {
                let dir = core::mem::ManuallyDrop::new(d.to_directory(self));
                let r = dir.iterate_dir(|e| f(e));
                r
            }
        }
    }
    fn iterate_lfn(&self, fl: Fl, d: RawDirectory, buf: &mut [u8], f: &mut dyn FnMut(&DirEntry, Option<&str>)) -> R<()> {
        let mut lb = LfnBuffer::new(buf);
        match fl {
            Fl::Raw => VolumeManager::iterate_dir_lfn(self, d, &mut lb, |e, n| f(e, n)),
            _ => {
                let dir = core::mem::ManuallyDrop::new(d.to_directory(self));
                let r = dir.iterate_dir_lfn(&mut lb, |e, n| f(e, n));
                r
            }
        }
    }
    fn open_file(&self, fl: Fl, d: RawDirectory, name: Nm, mode: Mode) -> R<RawFile> {
        match fl {
            Fl::Raw => with_name!(name, n => VolumeManager::open_file_in_dir(self, d, n, mode)),
            _ => {
                let dir = core::mem::ManuallyDrop::new(d.to_directory(self));
                let r = with_name!(name, n => dir.open_file_in_dir(n, mode).map(|x| x.to_raw_file()));
                r
            }
        }
    }
    fn delete(&self, fl: Fl, d: RawDirectory, name: Nm) -> R<()> {
        match fl {
            Fl::Raw => with_name!(name, n => VolumeManager::delete_file_in_dir(self, d, n)),
            _ => {
                let dir = core::mem::ManuallyDrop::new(d.to_directory(self));
                let r = with_name!(name, n => dir.delete_file_in_dir(n));
                r
            }
        }
    }
    fn mkdir(&self, fl: Fl, d: RawDirectory, name: Nm) -> R<()> {
        match fl {
            Fl::Raw => with_name!(name, n => VolumeManager::make_dir_in_dir(self, d, n)),
            _ => {
                let dir = core::mem::ManuallyDrop::new(d.to_directory(self));
                let r = with_name!(name, n => dir.make_dir_in_dir(n));
                r
            }
        }
    }
    fn label(&self, v: RawVolume) -> R<Option<Vec<u8>>> {
        self.get_root_volume_label(v).map(|o| o.map(|n| n.name().to_vec()))
    }
    fn read(&self, fl: Fl, f: RawFile, buf: &mut [u8]) -> R<usize> {
        match fl {
            Fl::Raw => VolumeManager::read(self, f, buf),
            Fl::Wrap => {
                let file = core::mem::ManuallyDrop::new(f.to_file(self));
                let r = file.read(buf);
                r
            }
            Fl::Io => {
                let mut file = core::mem::ManuallyDrop::new(f.to_file(self));
                let r = embedded_io::Read::read(&mut *file, buf);
                r
            }
        }
    }
    fn write(&self, fl: Fl, f: RawFile, buf: &[u8]) -> R<usize> {
        match fl {
            Fl::Raw => VolumeManager::write(self, f, buf).map(|_| buf.len()),
            Fl::Wrap => {
                let file = core::mem::ManuallyDrop::new(f.to_file(self));
                let r = file.write(buf).map(|_| buf.len());
                r
            }
            Fl::Io => {
                let mut file = core::mem::ManuallyDrop::new(f.to_file(self));
                let r = embedded_io::Write::write(&mut *file, buf);
                r
            }
        }
    }
    fn close_file(&self, fl: Fl, f: RawFile) -> R<()> {
        match fl {
            Fl::Raw => VolumeManager::close_file(self, f),
            _ => f.to_file(self).close(),
        }
    }
    fn drop_file(&self, f: RawFile) {
        drop(f.to_file(self));
    }
    fn flush(&self, fl: Fl, f: RawFile) -> R<()> {
        match fl {
            Fl::Raw => VolumeManager::flush_file(self, f),
            Fl::Wrap => {
                let file = core::mem::ManuallyDrop::new(f.to_file(self));
                let r = file.flush();
                r
            }
            Fl::Io => {
                let mut file = core::mem::ManuallyDrop::new(f.to_file(self));
                let r = embedded_io::Write::flush(&mut *file);
                r
            }
        }
    }
    fn eof(&self, fl: Fl, f: RawFile) -> R<bool> {
        match fl {
            Fl::Raw => VolumeManager::file_eof(self, f),
            _ => {
                let file = core::mem::ManuallyDrop::new(f.to_file(self));
                let r = std::panic::catch_unwind(std::panic::AssertUnwindSafe(|| file.is_eof()));
                r.map_err(|_| embedded_sdmmc::Error::BadHandle)
            }
        }
    }
    fn seek_start(&self, fl: Fl, f: RawFile, o: u32) -> R<()> {
        match fl {
            Fl::Raw => VolumeManager::file_seek_from_start(self, f, o),
            _ => {
                let file = core::mem::ManuallyDrop::new(f.to_file(self));
                let r = file.seek_from_start(o);
                r
            }
        }
    }
    fn seek_cur(&self, fl: Fl, f: RawFile, o: i32) -> R<()> {
        match fl {
            Fl::Raw => VolumeManager::file_seek_from_current(self, f, o),
            _ => {
                let file = core::mem::ManuallyDrop::new(f.to_file(self));
                let r = file.seek_from_current(o);
                r
            }
        }
    }
    fn seek_end(&self, fl: Fl, f: RawFile, o: u32) -> R<()> {
        match fl {
            Fl::Raw => VolumeManager::file_seek_from_end(self, f, o),
            _ => {
                let file = core::mem::ManuallyDrop::new(f.to_file(self));
                let r = file.seek_from_end(o);
                r
            }
        }
    }
    fn seek_io(&self, f: RawFile, to: SeekTo) -> R<u64> {
        let mut file = core::mem::ManuallyDrop::new(f.to_file(self));
        let pos = match to {
            SeekTo::Start(x) => embedded_io::SeekFrom::Start(x),
            SeekTo::Current(x) => embedded_io::SeekFrom::Current(x),
            SeekTo::End(x) => embedded_io::SeekFrom::End(x),
        };
        let r = embedded_io::Seek::seek(&mut *file, pos);
        r
    }
    fn length(&self, fl: Fl, f: RawFile) -> R<u32> {
        match fl {
            Fl::Raw => VolumeManager::file_length(self, f),
            _ => {
                let file = core::mem::ManuallyDrop::new(f.to_file(self));
                let r = std::panic::catch_unwind(std::panic::AssertUnwindSafe(|| file.length()));
                r.map_err(|_| embedded_sdmmc::Error::BadHandle)
            }
        }
    }
    fn offset(&self, fl: Fl, f: RawFile) -> R<u32> {
        match fl {
            Fl::Raw => VolumeManager::file_offset(self, f),
            _ => {
                let file = core::mem::ManuallyDrop::new(f.to_file(self));
                let r = std::panic::catch_unwind(std::panic::AssertUnwindSafe(|| file.offset()));
                r.map_err(|_| embedded_sdmmc::Error::BadHandle)
            }
        }
    }
    fn has_open_handles(&self) -> bool {
        VolumeManager::has_open_handles(self)
    }
}

/// The limit configurations (MAX_DIRS, MAX_FILES, MAX_VOLUMES) the library is instantiated for.
/// Every value 1..=8 occurs in every dimension that allows it (volumes: 1..=4).
pub const LIMITS: &[(usize, usize, usize)] = &[
    (4, 4, 1),
    (1, 1, 1),
    (2, 2, 1),
    (4, 4, 2),
    (3, 5, 2),
    (8, 8, 4),
    (8, 1, 1),
    (1, 8, 4),
    (5, 3, 3),
    (6, 7, 2),
    (7, 6, 1),
    (2, 4, 4),
];

pub fn make_vm<D>(limits: (usize, usize, usize), dev: D, clock: Clock, id_offset: u32) -> Box<dyn Vm>
where
    D: BlockDevice<Error = DevError> + 'static,
{
    macro_rules! mk {
        ($($a:literal, $b:literal, $c:literal);*) => {
            match limits {
                $(($a, $b, $c) => Box::new(VolumeManager::<D, Clock, $a, $b, $c>::new_with_limits(dev, clock, id_offset)) as Box<dyn Vm>,)*
                _ => panic!("limit configuration {:?} not instantiated", limits),
            }
        };
    }
    if limits == (4, 4, 1) && id_offset == 5000 {
        // the default constructor
        return Box::new(VolumeManager::new(dev, clock));
    }
    mk!(4,4,1; 1,1,1; 2,2,1; 4,4,2; 3,5,2; 8,8,4; 8,1,1; 1,8,4; 5,3,3; 6,7,2; 7,6,1; 2,4,4)
}
