//! `sdv` – runtime-monitoring harness for embedded-sdmmc (see /verif/DESIGN.md).
//!
//! usage: sdv <check> [--tier quick|thorough] [--seed N] [--threads N] [--replay file]
//!            [--verif-dir D] [--repo-dir D] [--key value ...]

mod json;
mod prng;
mod report;
mod cal;
mod dev;
mod fatref;
mod fsmon;
mod fsx;
mod mkfs;
mod sdsim;
mod selftest;
mod vm;

mod checks;
mod codec;

use report::{Ctx, Tier};
use std::collections::BTreeMap;

fn main() {
    let argv: Vec<String> = std::env::args().collect();
    if argv.len() < 2 {
        eprintln!("usage: sdv <check> [--tier quick|thorough] [--seed N] ...");
        std::process::exit(2);
    }
    let which = argv[1].clone();
    let mut args: BTreeMap<String, String> = BTreeMap::new();
    let mut i = 2;
    while i < argv.len() {
        if let Some(k) = argv[i].strip_prefix("--") {
            if i + 1 < argv.len() && !argv[i + 1].starts_with("--") {
                args.insert(k.to_string(), argv[i + 1].clone());
                i += 2;
            } else {
                args.insert(k.to_string(), "1".to_string());
                i += 1;
            }
        } else {
            eprintln!("unexpected argument {}", argv[i]);
            std::process::exit(2);
        }
    }
    let tier = match args.get("tier").map(|s| s.as_str()) {
        Some("thorough") => Tier::Thorough,
        _ => Tier::Quick,
    };
    let seed = args.get("seed").and_then(|s| s.parse::<u64>().ok()).unwrap_or(0);
    let threads = args
        .get("threads")
        .and_then(|s| s.parse::<usize>().ok())
        .unwrap_or_else(|| std::thread::available_parallelism().map(|n| n.get()).unwrap_or(4));
    let verif_dir = args.get("verif-dir").cloned().unwrap_or_else(|| "/verif".to_string());
    let repo_dir = args.get("repo-dir").cloned().unwrap_or_else(|| "/repo".to_string());
    let mut seed = seed;
    let mut tier = tier;
    let replay = args.get("replay").map(|p| {
        let s = std::fs::read_to_string(p).unwrap_or_else(|e| {
            eprintln!("cannot read replay {}: {}", p, e);
            std::process::exit(2);
        });
        let j = json::J::parse(&s).unwrap_or_else(|e| {
            eprintln!("cannot parse replay {}: {}", p, e);
            std::process::exit(2);
        });
        if let Some(s) = j.get("seed").and_then(|x| x.as_u64()) {
            seed = s;
        }
        if j.get("tier").and_then(|x| x.as_str()) == Some("thorough") {
            tier = Tier::Thorough;
        }
        j
    });
    let ctx = Ctx {
        prop: which.to_uppercase(),
        tier,
        seed,
        threads,
        verif_dir,
        repo_dir,
        replay,
        args,
        start: std::time::Instant::now(),
    };
    let _ = report::OWN_PROP.set(ctx.prop.clone());
    report::quiet_panics();
    let code = match which.to_uppercase().as_str() {
        "SELFTEST" => selftest::run(&ctx),
        "C01" => fsmon::run::run_model_check(&ctx, "C01", 1500, 60_000),
        "C02" => fsmon::run::run_model_check(&ctx, "C02", 1200, 24_000),
        "C03" => fsmon::run::run_model_check(&ctx, "C03", 1500, 50_000),
        "C04" => fsmon::run::run_model_check(&ctx, "C04", 1500, 50_000),
        "C05" => fsmon::run::run_model_check(&ctx, "C05", 1500, 36_000),
        "C07" => fsmon::run::run_model_check(&ctx, "C07", 1500, 50_000),
        "C08" => fsmon::run::run_model_check(&ctx, "C08", 1500, 50_000),
        "C16" => fsmon::run::run_model_check(&ctx, "C16", 1500, 32_000),
        "C09" => fsmon::crash::run(&ctx, "C09"),
        "C10" => fsmon::crash::run(&ctx, "C10"),
        "C11" => fsmon::fault::run(&ctx),
        "C12" => sdsim::checks::run_c12_c14(&ctx, "C12"),
        "C13" => sdsim::checks::run_c13(&ctx),
        "C14" => sdsim::checks::run_c12_c14(&ctx, "C14"),
        "C06" => checks::c06::run(&ctx),
        "C15" => checks::c15::run(&ctx),
        "C17" => codec::lfn::run(&ctx),
        "C18" => codec::entry::run(&ctx),
        "C19" => codec::crc::run(&ctx),
        other => {
            eprintln!("unknown check {}", other);
            2
        }
    };
    std::process::exit(code);
}

