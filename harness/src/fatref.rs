//! Independent FAT16/FAT32 reader and structural checker ("fsck"), written from the
//! specification. Shares no code with the library under test.

use crate::dev::{is_junk_record, Blk, Source};
use std::collections::{HashMap, HashSet};

#[derive(Clone, Debug)]
pub struct Vol {
    pub slot: usize,
    pub part_start: u32,
    pub part_len: u32,
    pub fat32: bool,
    pub spc: u32,
    pub reserved: u32,
    pub nfats: u32,
    pub fat_size: u32,
    pub root_entries: u32,
    pub root_blocks: u32,
    /// absolute
    pub fat_blk: u32,
    pub root_blk: u32,
    pub data_blk: u32,
    pub clusters: u32,
    pub root_cluster: u32,
    pub fsinfo_blk: u32,
    pub total_blocks: u32,
}

fn rd16(b: &[u8], o: usize) -> u32 {
    u16::from_le_bytes([b[o], b[o + 1]]) as u32
}
fn rd32(b: &[u8], o: usize) -> u32 {
    u32::from_le_bytes([b[o], b[o + 1], b[o + 2], b[o + 3]])
}

pub fn mount(src: &dyn Source, slot: usize) -> Result<Vol, String> {
    let mbr = src.get(0);
    if mbr[510] != 0x55 || mbr[511] != 0xAA {
        return Err("no MBR signature".into());
    }
    let o = 446 + 16 * slot;
    let ty = mbr[o + 4];
    if ![0x04u8, 0x06, 0x0B, 0x0C, 0x0E].contains(&ty) {
        return Err(format!("partition type {:#04x} is not FAT16/32", ty));
    }
    let part_start = rd32(&mbr, o + 8);
    let part_len = rd32(&mbr, o + 12);
    if part_start >= src.nblocks() {
        return Err("partition starts outside the device".into());
    }
    let b = src.get(part_start);
    if b[510] != 0x55 || b[511] != 0xAA {
        return Err("no boot sector signature".into());
    }
    let bps = rd16(&b, 11);
    if bps != 512 {
        return Err(format!("bytes per sector {}", bps));
    }
    let spc = b[13] as u32;
    if spc == 0 || !spc.is_power_of_two() {
        return Err(format!("sectors per cluster {}", spc));
    }
    let reserved = rd16(&b, 14);
    let nfats = b[16] as u32;
    let root_entries = rd16(&b, 17);
    let total = if rd16(&b, 19) != 0 { rd16(&b, 19) } else { rd32(&b, 32) };
    let fat_size = if rd16(&b, 22) != 0 { rd16(&b, 22) } else { rd32(&b, 36) };
    if reserved == 0 || nfats == 0 || fat_size == 0 {
        return Err("zero reserved/nfats/fat size".into());
    }
    let root_blocks = (root_entries * 32 + 511) / 512;
    let meta = reserved as u64 + nfats as u64 * fat_size as u64 + root_blocks as u64;
    if meta >= total as u64 {
        return Err("metadata larger than volume".into());
    }
    let clusters = ((total as u64 - meta) / spc as u64) as u32;
    if clusters < 4085 {
        return Err("FAT12".into());
    }
    let fat32 = clusters >= 65525;
    let need = (clusters as u64 + 2) * if fat32 { 4 } else { 2 };
    if (fat_size as u64) * 512 < need {
        return Err("FAT too small for the cluster count".into());
    }
    let fat_blk = part_start + reserved;
    let root_blk = fat_blk + nfats * fat_size;
    let data_blk = root_blk + root_blocks;
    let (root_cluster, fsinfo_blk) = if fat32 { (rd32(&b, 44), part_start + rd16(&b, 48)) } else { (0, 0) };
    Ok(Vol {
        slot,
        part_start,
        part_len,
        fat32,
        spc,
        reserved,
        nfats,
        fat_size,
        root_entries,
        root_blocks,
        fat_blk,
        root_blk,
        data_blk,
        clusters,
        root_cluster,
        fsinfo_blk,
        total_blocks: total,
    })
}

impl Vol {
    pub fn cluster_blk(&self, c: u32) -> u32 {
        self.data_blk + (c - 2) * self.spc
    }
    pub fn cluster_bytes(&self) -> u32 {
        self.spc * 512
    }
    pub fn in_range(&self, c: u32) -> bool {
        c >= 2 && c < self.clusters + 2
    }
    pub fn eoc_min(&self) -> u32 {
        if self.fat32 {
            0x0FFF_FFF8
        } else {
            0xFFF8
        }
    }
    pub fn bad_mark(&self) -> u32 {
        if self.fat32 {
            0x0FFF_FFF7
        } else {
            0xFFF7
        }
    }
    pub fn entries_per_sector(&self) -> u32 {
        if self.fat32 {
            128
        } else {
            256
        }
    }
    /// first block after the last whole cluster
    pub fn data_end(&self) -> u32 {
        self.data_blk + self.clusters * self.spc
    }
    /// block of FAT copy `copy` holding entry `c`, and byte offset inside it
    pub fn fat_pos(&self, copy: u32, c: u32) -> (u32, usize) {
        let eb = if self.fat32 { 4 } else { 2 };
        let byte = c * eb;
        (self.fat_blk + copy * self.fat_size + byte / 512, (byte % 512) as usize)
    }
}

#[derive(Clone, Debug)]
pub struct Slot {
    pub blk: u32,
    pub off: u32,
    pub raw: [u8; 32],
}

impl Slot {
    pub fn is_end(&self) -> bool {
        self.raw[0] == 0
    }
    pub fn is_deleted(&self) -> bool {
        self.raw[0] == 0xE5
    }
    pub fn attr(&self) -> u8 {
        self.raw[11]
    }
    /// long-name fragment: the six defined attribute bits read exactly RO|HIDDEN|SYSTEM|VOLUME
    /// (ATTR_LONG_NAME_MASK of the specification is 0x3F, not 0x0F)
    pub fn is_lfn(&self) -> bool {
        self.raw[11] & 0x3F == 0x0F
    }
    pub fn is_label(&self) -> bool {
        !self.is_lfn() && self.raw[11] & 0x08 != 0
    }
    pub fn is_dir(&self) -> bool {
        !self.is_lfn() && self.raw[11] & 0x10 != 0
    }
    pub fn name(&self) -> [u8; 11] {
        let mut n = [0u8; 11];
        n.copy_from_slice(&self.raw[..11]);
        n
    }
    pub fn size(&self) -> u32 {
        rd32(&self.raw, 28)
    }
    pub fn cluster(&self, fat32: bool) -> u32 {
        let lo = rd16(&self.raw, 26);
        if fat32 {
            (rd16(&self.raw, 20) << 16) | lo
        } else {
            lo
        }
    }
    pub fn is_dot(&self) -> bool {
        &self.raw[..11] == b".          " || &self.raw[..11] == b"..         "
    }
    /// live = not end marker, not deleted
    pub fn live(&self) -> bool {
        !self.is_end() && !self.is_deleted()
    }
}

#[derive(Clone, Debug, PartialEq)]
pub enum ChainEnd {
    Eoc,
    Free(u32),
    Bad(u32),
    Range(u32, u32),
    Cycle(u32),
    TooLong,
}

#[derive(Clone, Debug)]
pub struct Finding {
    pub rule: &'static str,
    pub path: String,
    pub detail: String,
}

#[derive(Clone, Debug)]
pub struct Node {
    pub path: String,
    pub parent_dir: DirLoc,
    pub slot: Slot,
    pub is_dir: bool,
    pub size: u32,
    pub start: u32,
    pub chain: Vec<u32>,
    pub chain_end: ChainEnd,
    pub lfn: Option<String>,
    pub depth: u32,
}

#[derive(Clone, Copy, Debug, PartialEq, Eq, Hash)]
pub enum DirLoc {
    /// FAT16 fixed root
    Root16,
    Cluster(u32),
}

pub struct Snap<'a> {
    pub src: &'a dyn Source,
    pub vol: Vol,
    /// raw entries of FAT copy 0 (FAT32: including the reserved high nibble)
    pub fat_raw: Vec<u32>,
}

#[derive(Default, Debug)]
pub struct Walk {
    pub nodes: Vec<Node>,
    pub findings: Vec<Finding>,
    /// cluster -> index of the node (or usize::MAX for the root dir) owning it
    pub owner: HashMap<u32, usize>,
    /// listing per directory (all slots in order, up to and including everything the chain holds)
    pub dir_slots: HashMap<DirLoc, Vec<Slot>>,
    pub junk_exposed: Vec<(String, u32, u32)>,
    /// junk records inside a live directory's clusters but behind its end marker
    pub junk_in_extent: Vec<(String, u32, u32)>,
    /// total length of all chains stored so far (bounds the work on garbage directories)
    pub chain_total: usize,
}

pub fn latin1(n: &[u8]) -> String {
    n.iter().map(|&b| b as char).collect()
}

pub fn display_name(n: &[u8; 11]) -> String {
    // a stored first byte 0x05 stands for 0xE5 (which would otherwise read as "deleted")
    let mut n = *n;
    if n[0] == 0x05 {
        n[0] = 0xE5;
    }
    let n = &n;
    let base = latin1(&n[..8]);
    let base = base.trim_end_matches(' ');
    let ext = latin1(&n[8..]);
    let ext = ext.trim_end_matches(' ');
    if ext.is_empty() {
        base.to_string()
    } else {
        format!("{}.{}", base, ext)
    }
}

impl<'a> Snap<'a> {
    pub fn new(src: &'a dyn Source, vol: Vol) -> Snap<'a> {
        let fat_raw = load_fat(src, &vol, 0);
        Snap { src, vol, fat_raw }
    }
    pub fn open(src: &'a dyn Source, slot: usize) -> Result<Snap<'a>, String> {
        let vol = mount(src, slot)?;
        Ok(Snap::new(src, vol))
    }
    pub fn ent(&self, c: u32) -> u32 {
        let v = self.fat_raw[c as usize];
        if self.vol.fat32 {
            v & 0x0FFF_FFFF
        } else {
            v
        }
    }
    pub fn is_free(&self, c: u32) -> bool {
        self.ent(c) == 0
    }
    pub fn free_count(&self) -> u32 {
        (2..self.vol.clusters + 2).filter(|&c| self.is_free(c)).count() as u32
    }
    pub fn free_set(&self) -> Vec<u32> {
        (2..self.vol.clusters + 2).filter(|&c| self.is_free(c)).collect()
    }

    /// Follow a chain from `start`.
    pub fn chain(&self, start: u32) -> (Vec<u32>, ChainEnd) {
        let mut out = Vec::new();
        let mut seen = HashSet::new();
        let mut c = start;
        loop {
            if !self.vol.in_range(c) {
                let from = *out.last().unwrap_or(&0);
                return (out, ChainEnd::Range(from, c));
            }
            if !seen.insert(c) {
                return (out, ChainEnd::Cycle(c));
            }
            out.push(c);
            if out.len() as u32 > self.vol.clusters + 2 {
                return (out, ChainEnd::TooLong);
            }
            let v = self.ent(c);
            if v == 0 {
                return (out, ChainEnd::Free(c));
            }
            if v == self.vol.bad_mark() {
                return (out, ChainEnd::Bad(c));
            }
            if v >= self.vol.eoc_min() {
                return (out, ChainEnd::Eoc);
            }
            c = v;
        }
    }

    /// All 32-byte slots of a directory in order (the whole extent, also past the end marker).
    pub fn dir_slots(&self, d: DirLoc) -> (Vec<Slot>, Vec<u32>, ChainEnd) {
        let mut out = Vec::new();
        match d {
            DirLoc::Root16 => {
                for i in 0..self.vol.root_entries {
                    let blk = self.vol.root_blk + i / 16;
                    let off = (i % 16) * 32;
                    let b = self.src.get(blk);
                    let mut raw = [0u8; 32];
                    raw.copy_from_slice(&b[off as usize..off as usize + 32]);
                    out.push(Slot { blk, off, raw });
                }
                (out, vec![], ChainEnd::Eoc)
            }
            DirLoc::Cluster(start) => {
                let (chain, end) = self.chain(start);
                // a FAT directory holds at most 65536 entries; do not follow garbage further
                let max_clusters = (65_536usize / (self.vol.spc as usize * 16)).max(1) + 1;
                for &c in chain.iter().take(max_clusters) {
                    for k in 0..self.vol.spc {
                        let blk = self.vol.cluster_blk(c) + k;
                        let b = self.src.get(blk);
                        for s in 0..16u32 {
                            let mut raw = [0u8; 32];
                            raw.copy_from_slice(&b[(s * 32) as usize..(s * 32 + 32) as usize]);
                            out.push(Slot { blk, off: s * 32, raw });
                        }
                    }
                }
                (out, chain, end)
            }
        }
    }

    pub fn root_loc(&self) -> DirLoc {
        if self.vol.fat32 {
            DirLoc::Cluster(self.vol.root_cluster)
        } else {
            DirLoc::Root16
        }
    }

    /// The live slots of a listing: everything before the first end marker that is not deleted.
    pub fn live_slots(slots: &[Slot]) -> Vec<Slot> {
        let mut v = Vec::new();
        for s in slots {
            if s.is_end() {
                break;
            }
            if !s.is_deleted() {
                v.push(s.clone());
            }
        }
        v
    }

    pub fn read_chain_bytes(&self, chain: &[u32], size: u32) -> Vec<u8> {
        let mut out = Vec::with_capacity(size as usize);
        let mut left = size as usize;
        'o: for &c in chain {
            for k in 0..self.vol.spc {
                if left == 0 {
                    break 'o;
                }
                let b = self.src.get(self.vol.cluster_blk(c) + k);
                let n = left.min(512);
                out.extend_from_slice(&b[..n]);
                left -= n;
            }
        }
        out
    }

    /// Walk the whole tree from the root.
    pub fn walk(&self) -> Walk {
        let mut w = Walk::default();
        let root = self.root_loc();
        let mut visited: HashSet<DirLoc> = HashSet::new();
        self.walk_dir(root, String::new(), None, 0, &mut w, &mut visited);
        w
    }

    fn claim(&self, w: &mut Walk, chain: &[u32], owner: usize, path: &str) {
        for &c in chain {
            if let Some(prev) = w.owner.insert(c, owner) {
                if prev != owner {
                    let other = if prev == usize::MAX { "<root>".to_string() } else { w.nodes[prev].path.clone() };
                    w.findings.push(Finding { rule: "crosslink", path: path.to_string(), detail: format!("cluster {} also belongs to {}", c, other) });
                }
            }
        }
    }

    fn chain_findings(&self, w: &mut Walk, path: &str, end: &ChainEnd) {
        match end {
            ChainEnd::Eoc => {}
            ChainEnd::Free(c) => w.findings.push(Finding { rule: "chain-free", path: path.into(), detail: format!("chain reaches free cluster {}", c) }),
            ChainEnd::Bad(c) => w.findings.push(Finding { rule: "chain-bad", path: path.into(), detail: format!("chain reaches bad cluster {}", c) }),
            ChainEnd::Range(from, c) => w.findings.push(Finding { rule: "chain-range", path: path.into(), detail: format!("cluster {} links to out-of-range/reserved value {:#x}", from, c) }),
            ChainEnd::Cycle(c) => w.findings.push(Finding { rule: "cycle", path: path.into(), detail: format!("chain revisits cluster {}", c) }),
            ChainEnd::TooLong => w.findings.push(Finding { rule: "cycle", path: path.into(), detail: "chain longer than the volume".into() }),
        }
    }

    fn walk_dir(&self, loc: DirLoc, path: String, parent: Option<DirLoc>, depth: u32, w: &mut Walk, visited: &mut HashSet<DirLoc>) {
        if !visited.insert(loc) {
            w.findings.push(Finding { rule: "cycle", path: path.clone(), detail: "directory reachable twice".into() });
            return;
        }
        if depth > 24 {
            w.findings.push(Finding { rule: "cycle", path, detail: "directory nesting too deep".into() });
            return;
        }
        let (slots, chain, end) = self.dir_slots(loc);
        if let DirLoc::Cluster(_) = loc {
            if parent.is_none() {
                // FAT32 root chain
                self.chain_findings(w, "<root>", &end);
                self.claim(w, &chain, usize::MAX, "<root>");
            }
        }
        // nothing live after the end marker
        let mut ended = false;
        for s in &slots {
            if ended && s.raw[0] != 0 {
                w.findings.push(Finding { rule: "after-end", path: path.clone(), detail: format!("slot at block {} offset {} follows the end marker (first byte {:#04x})", s.blk, s.off, s.raw[0]) });
                break;
            }
            if s.is_end() {
                ended = true;
            }
        }
        let live = Snap::live_slots(&slots);
        // uninitialised contents exposed as entries
        for s in &live {
            if is_junk_record(&s.raw) {
                w.junk_exposed.push((path.clone(), s.blk, s.off));
            }
        }
        // ... or sitting anywhere else in the directory's clusters (a lookup that walks block by
        // block does not stop at an end marker in an earlier block)
        if w.junk_exposed.is_empty() {
            if let Some(s) = slots.iter().find(|s| is_junk_record(&s.raw)) {
                w.junk_in_extent.push((path.clone(), s.blk, s.off));
            }
        }
        // unique names
        let mut names: HashMap<[u8; 11], u32> = HashMap::new();
        for s in &live {
            if s.is_lfn() || s.is_label() {
                continue;
            }
            *names.entry(s.name()).or_insert(0) += 1;
        }
        for (n, k) in &names {
            if *k > 1 {
                w.findings.push(Finding { rule: "dup-name", path: path.clone(), detail: format!("{} entries named {:?}", k, display_name(n)) });
            }
        }
        // dot entries of sub-directories
        if parent.is_some() {
            let d0 = live.first();
            let d1 = live.get(1);
            let own = match loc {
                DirLoc::Cluster(c) => c,
                DirLoc::Root16 => 0,
            };
            match d0 {
                Some(s) if &s.raw[..11] == b".          " && s.is_dir() => {
                    if s.cluster(self.vol.fat32) != own {
                        w.findings.push(Finding { rule: "dot", path: path.clone(), detail: format!("'.' names cluster {} but the directory starts at {}", s.cluster(self.vol.fat32), own) });
                    }
                }
                _ => w.findings.push(Finding { rule: "dot", path: path.clone(), detail: "first entry is not '.'".into() }),
            }
            let want_parent: Vec<u32> = match parent.unwrap() {
                DirLoc::Root16 => vec![0],
                DirLoc::Cluster(c) => {
                    if self.vol.fat32 && c == self.vol.root_cluster {
                        vec![0, c]
                    } else {
                        vec![c]
                    }
                }
            };
            match d1 {
                Some(s) if &s.raw[..11] == b"..         " && s.is_dir() => {
                    if !want_parent.contains(&s.cluster(self.vol.fat32)) {
                        w.findings.push(Finding { rule: "dotdot", path: path.clone(), detail: format!("'..' names cluster {} but the parent is {:?}", s.cluster(self.vol.fat32), want_parent) });
                    }
                }
                _ => w.findings.push(Finding { rule: "dotdot", path: path.clone(), detail: "second entry is not '..'".into() }),
            }
        }
        w.dir_slots.insert(loc, slots.clone());
        // children
        let mut pending_lfn: Vec<Slot> = Vec::new();
        for s in live {
            if w.nodes.len() > 40_000 || w.chain_total > 3 * (self.vol.clusters as usize + 2) {
                w.findings.push(Finding { rule: "walk-limit", path: path.clone(), detail: "more than 40000 objects or chains three times the volume: walk abandoned (garbage directory?)".into() });
                return;
            }
            if s.is_lfn() {
                pending_lfn.push(s);
                continue;
            }
            let lfn = assemble_lfn(&pending_lfn, &s.name());
            pending_lfn.clear();
            if s.is_label() || s.is_dot() {
                continue;
            }
            let name = display_name(&s.name());
            let cpath = if path.is_empty() { name } else { format!("{}/{}", path, name) };
            let start = s.cluster(self.vol.fat32);
            let is_dir = s.is_dir();
            let size = s.size();
            let (chain, end) = if start == 0 { (vec![], ChainEnd::Eoc) } else { self.chain(start) };
            let idx = w.nodes.len();
            w.chain_total += chain.len();
            w.nodes.push(Node { path: cpath.clone(), parent_dir: loc, slot: s.clone(), is_dir, size, start, chain: chain.clone(), chain_end: end.clone(), lfn, depth });
            if start != 0 {
                if !self.vol.in_range(start) {
                    w.findings.push(Finding { rule: "start-range", path: cpath.clone(), detail: format!("start cluster {:#x} outside 2..{}", start, self.vol.clusters + 2) });
                } else {
                    self.chain_findings(w, &cpath, &end);
                    self.claim(w, &chain, idx, &cpath);
                }
            }
            if is_dir {
                if start == 0 {
                    w.findings.push(Finding { rule: "subdir-cluster0", path: cpath.clone(), detail: "sub-directory entry has no cluster".into() });
                } else if self.vol.in_range(start) && end == ChainEnd::Eoc {
                    self.walk_dir(DirLoc::Cluster(start), cpath, Some(loc), depth + 1, w, visited);
                }
            }
        }
    }

    pub fn fsinfo(&self) -> Option<(u32, u32)> {
        if !self.vol.fat32 {
            return None;
        }
        let b = self.src.get(self.vol.fsinfo_blk);
        Some((rd32(&b, 488), rd32(&b, 492)))
    }
}

pub fn load_fat(src: &dyn Source, vol: &Vol, copy: u32) -> Vec<u32> {
    let n = (vol.clusters + 2) as usize;
    let mut out = Vec::with_capacity(n);
    let eb = if vol.fat32 { 4 } else { 2 };
    let per = 512 / eb;
    let mut cur_blk = u32::MAX;
    let mut cur: Blk = [0u8; 512];
    for c in 0..n {
        let blk = vol.fat_blk + copy * vol.fat_size + (c / per) as u32;
        if blk != cur_blk {
            cur = src.get(blk);
            cur_blk = blk;
        }
        let o = (c % per) * eb;
        out.push(if vol.fat32 { rd32(&cur, o) } else { rd16(&cur, o) });
    }
    out
}

pub fn lfn_checksum(short: &[u8; 11]) -> u8 {
    let mut sum = 0u8;
    for &c in short {
        sum = ((sum & 1) << 7).wrapping_add(sum >> 1).wrapping_add(c);
    }
    sum
}

pub fn lfn_units(raw: &[u8; 32]) -> [u16; 13] {
    let pos = [1usize, 3, 5, 7, 9, 14, 16, 18, 20, 22, 24, 28, 30];
    let mut u = [0u16; 13];
    for (k, &p) in pos.iter().enumerate() {
        u[k] = u16::from_le_bytes([raw[p], raw[p + 1]]);
    }
    u
}

/// Independent long-name assembler: `run` = the LFN slots immediately preceding the short entry
/// (in disk order). Returns the name when the run is complete, ordered and checksummed.
pub fn assemble_lfn(run: &[Slot], short: &[u8; 11]) -> Option<String> {
    assemble_lfn_units(run, short).map(|u| String::from_utf16_lossy(&u))
}

pub fn assemble_lfn_units(run: &[Slot], short: &[u8; 11]) -> Option<Vec<u16>> {
    if run.is_empty() {
        return None;
    }
    // find the last slot carrying the 0x40 flag: a well-formed run starts there
    let startpos = run.iter().rposition(|s| s.raw[0] & 0x40 != 0)?;
    let run = &run[startpos..];
    let n = (run[0].raw[0] & 0x1F) as usize;
    if n == 0 || run.len() != n {
        return None;
    }
    let csum = lfn_checksum(short);
    let mut frags: Vec<[u16; 13]> = Vec::new();
    for (i, s) in run.iter().enumerate() {
        let ord = (s.raw[0] & 0x1F) as usize;
        if ord != n - i {
            return None;
        }
        if i > 0 && s.raw[0] & 0x40 != 0 {
            return None;
        }
        if s.raw[13] != csum {
            return None;
        }
        frags.push(lfn_units(&s.raw));
    }
    // name order: last slot on disk is fragment 1
    let mut units = Vec::new();
    for f in frags.iter().rev() {
        let cut = f.iter().position(|&u| u == 0).unwrap_or(13);
        units.extend_from_slice(&f[..cut]);
    }
    Some(units)
}

// ---------------------------------------------------------------------------------------------
// fsck
// ---------------------------------------------------------------------------------------------

/// What the harness knows (through the API only) about a still-open file.
#[derive(Clone, Debug)]
pub struct Pending {
    pub slot_blk: u32,
    pub slot_off: u32,
    /// file_length() as reported by the library
    pub len: u32,
    pub dirty: bool,
}

#[derive(Debug, Default)]
pub struct FsckOut {
    pub findings: Vec<Finding>,
    /// allocated clusters that no live entry references, grouped in chains (head first)
    pub lost_chains: Vec<Vec<u32>>,
    /// lost chains that could not be attributed to an open dirty file
    pub unexplained_lost: Vec<Vec<u32>>,
    pub allocated: u32,
    pub referenced: u32,
    pub free: u32,
    pub nodes: usize,
    pub junk_exposed: Vec<(String, u32, u32)>,
    pub junk_in_extent: Vec<(String, u32, u32)>,
    /// unreferenced allocated cluster -> (free | live) cluster it links to
    pub lost_dangling: Vec<(u32, u32, bool)>,
}

#[derive(Clone, Copy, PartialEq, Debug)]
pub enum FsckMode {
    /// after a returned API call: sizes must be covered by chains (pending state considered)
    Live,
    /// after a simulated power cut: only C10's list applies
    Crash,
}

pub fn fsck(snap: &Snap, pending: &[Pending], mode: FsckMode) -> (FsckOut, Walk) {
    let w = snap.walk();
    let mut out = FsckOut::default();
    let vol = &snap.vol;
    out.findings = w.findings.clone();
    out.junk_exposed = w.junk_exposed.clone();
    out.junk_in_extent = w.junk_in_extent.clone();
    out.nodes = w.nodes.len();
    // size vs chain
    if mode == FsckMode::Live {
        for n in &w.nodes {
            if n.is_dir {
                continue;
            }
            let p = pending.iter().find(|p| p.slot_blk == n.slot.blk && p.slot_off == n.slot.off);
            let mut need = n.size;
            if let Some(p) = p {
                if n.start != 0 {
                    need = need.max(p.len);
                }
            }
            let have = n.chain.len() as u64 * vol.cluster_bytes() as u64;
            if (need as u64) > have && n.chain_end == ChainEnd::Eoc {
                out.findings.push(Finding { rule: "short-chain", path: n.path.clone(), detail: format!("size {} (pending {}) but chain holds {} bytes", n.size, p.map(|p| p.len).unwrap_or(0), have) });
            }
        }
    }
    // allocated vs referenced
    let mut referenced: HashSet<u32> = HashSet::new();
    for (&c, _) in w.owner.iter() {
        referenced.insert(c);
    }
    let mut lost: Vec<u32> = Vec::new();
    for c in 2..vol.clusters + 2 {
        let v = snap.ent(c);
        if v != 0 && v != vol.bad_mark() {
            out.allocated += 1;
            if !referenced.contains(&c) {
                lost.push(c);
            }
        } else if v == 0 {
            out.free += 1;
        }
    }
    out.referenced = referenced.len() as u32;
    // an unreferenced chain is tolerable residue; one that links into free space or into a live
    // chain is not (the next allocation / a repair tool turns it into a cross-link)
    for &c in &lost {
        let v = snap.ent(c);
        if v >= 2 && v < vol.clusters + 2 {
            if snap.ent(v) == 0 {
                out.lost_dangling.push((c, v, false));
            } else if referenced.contains(&v) {
                out.lost_dangling.push((c, v, true));
            }
        }
    }
    // group lost clusters into chains
    let lost_set: HashSet<u32> = lost.iter().cloned().collect();
    let mut has_pred: HashSet<u32> = HashSet::new();
    for &c in &lost {
        let v = snap.ent(c);
        if lost_set.contains(&v) {
            has_pred.insert(v);
        }
    }
    let mut seen: HashSet<u32> = HashSet::new();
    for &c in &lost {
        if has_pred.contains(&c) || seen.contains(&c) {
            continue;
        }
        let mut ch = vec![];
        let mut x = c;
        while lost_set.contains(&x) && seen.insert(x) {
            ch.push(x);
            x = snap.ent(x);
        }
        out.lost_chains.push(ch);
    }
    // pure cycles among lost clusters
    for &c in &lost {
        if !seen.contains(&c) {
            let mut ch = vec![];
            let mut x = c;
            while lost_set.contains(&x) && seen.insert(x) {
                ch.push(x);
                x = snap.ent(x);
            }
            out.lost_chains.push(ch);
        }
    }
    // attribute lost chains to open dirty files whose on-disk entry has no cluster yet
    let mut claimants: Vec<u32> = Vec::new();
    for p in pending {
        if !p.dirty {
            continue;
        }
        // find the node for that slot
        let n = w.nodes.iter().find(|n| n.slot.blk == p.slot_blk && n.slot.off == p.slot_off);
        match n {
            Some(n) if n.start == 0 => claimants.push(p.len),
            Some(_) => {}
            None => claimants.push(p.len), // entry not visible (e.g. unflushed) – tolerate
        }
    }
    let cb = vol.cluster_bytes() as u64;
    let mut chains: Vec<Vec<u32>> = out.lost_chains.clone();
    chains.sort_by_key(|c| std::cmp::Reverse(c.len()));
    claimants.sort_by_key(|l| std::cmp::Reverse(*l));
    let mut unexplained = Vec::new();
    let mut ci = 0;
    for ch in chains {
        // well-formed: ends in EOC
        let last = *ch.last().unwrap();
        let ok_end = snap.ent(last) >= vol.eoc_min();
        if ci < claimants.len() && ok_end && (claimants[ci] as u64) <= ch.len() as u64 * cb {
            ci += 1;
        } else {
            unexplained.push(ch);
        }
    }
    // a claimant with data but no chain at all is a structural problem (pending data has no home)
    if mode == FsckMode::Live {
        for &l in &claimants[ci.min(claimants.len())..] {
            if l > 0 {
                out.findings.push(Finding { rule: "short-chain", path: "<open file without on-disk cluster>".into(), detail: format!("pending length {} but no unreferenced chain can hold it", l) });
            }
        }
    }
    out.unexplained_lost = unexplained;
    (out, w)
}

/// Convenience: path -> node map.
pub fn by_path(w: &Walk) -> HashMap<String, usize> {
    let mut m = HashMap::new();
    for (i, n) in w.nodes.iter().enumerate() {
        m.entry(n.path.clone()).or_insert(i);
    }
    m
}
