//! Instrumented, sparse block devices: write/read logs, fault plans, crash-prefix images.

use embedded_sdmmc::{Block, BlockCount, BlockDevice, BlockIdx};
use std::cell::RefCell;
use std::collections::HashMap;
use std::rc::Rc;

pub type Blk = [u8; 512];

/// What an unwritten block reads as.
#[derive(Clone, Copy, Debug, PartialEq)]
pub enum Bg {
    Zero,
    /// recognisable filler for other partitions / gaps (must never be written)
    Canary,
    /// "previously used" data clusters: 32-byte records that look like live directory entries
    Junk,
}

#[derive(Clone, Debug)]
pub struct Region {
    pub start: u32,
    pub end: u32,
    pub bg: Bg,
}

pub fn junk_block(idx: u32) -> Blk {
    let mut b = [0u8; 512];
    for k in 0..16u32 {
        let r = &mut b[(k * 32) as usize..(k * 32 + 32) as usize];
        let tag = (idx.wrapping_mul(16).wrapping_add(k)) & 0xFF_FFFF;
        let name = format!("JK{:06X}JNK", tag);
        r[..11].copy_from_slice(name.as_bytes());
        if k == 0 {
            // what a freed directory cluster really holds: entries under names that are in use
            r[..11].copy_from_slice(JUNK_COMMON_NAMES[(idx % JUNK_COMMON_NAMES.len() as u32) as usize]);
        }
        r[11] = 0x20;
        r[14] = 0x21; // plausible time/date
        r[16] = 0x21;
        r[17] = 0x28;
        r[22] = 0x21;
        r[24] = 0x21;
        r[25] = 0x28;
        r[26] = (3 + (idx % 40)) as u8; // plausible start cluster
        r[28] = 0x4B;
        r[29] = 0x4A; // size 0x4A4B
    }
    b
}

/// Is this 32-byte record one of the junk records above?
pub fn is_junk_record(r: &[u8]) -> bool {
    r.len() >= 32 && ((&r[0..2] == b"JK" && &r[8..11] == b"JNK") || JUNK_COMMON_NAMES.iter().any(|n| &r[0..11] == &n[..])) && r[28] == 0x4B && r[29] == 0x4A && r[30] == 0 && r[31] == 0 && r[14] == 0x21 && r[16] == 0x21 && r[17] == 0x28 && r[22] == 0x21 && r[24] == 0x21 && r[25] == 0x28
}

/// names the workloads use all the time (first record of every junk block)
pub const JUNK_COMMON_NAMES: [&[u8; 11]; 6] = [b"Z0      E  ", b"Z1      E  ", b"PRE0    DAT", b"F0      DAT", b"F1      DAT", b"SUB0       "];

pub fn canary_block(idx: u32) -> Blk {
    let mut b = [0xC5u8; 512];
    b[0..4].copy_from_slice(&idx.to_le_bytes());
    b[508..512].copy_from_slice(&(!idx).to_le_bytes());
    b
}

pub trait Source {
    fn get(&self, idx: u32) -> Blk;
    fn nblocks(&self) -> u32;
}

#[derive(Clone, Debug, Default)]
pub struct Image {
    pub nblocks: u32,
    pub regions: Vec<Region>,
    pub blocks: HashMap<u32, Box<Blk>>,
    /// copy-on-write parent: blocks not present here are read from it
    pub base: Option<std::sync::Arc<Image>>,
}

impl Image {
    pub fn new(nblocks: u32) -> Image {
        Image { nblocks, regions: Vec::new(), blocks: HashMap::new(), base: None }
    }
    pub fn bg(&self, idx: u32) -> Bg {
        for r in &self.regions {
            if idx >= r.start && idx < r.end {
                return r.bg;
            }
        }
        Bg::Zero
    }
    pub fn read(&self, idx: u32) -> Blk {
        if let Some(b) = self.blocks.get(&idx) {
            return **b;
        }
        if let Some(base) = &self.base {
            return base.read(idx);
        }
        match self.bg(idx) {
            Bg::Zero => [0u8; 512],
            Bg::Canary => canary_block(idx),
            Bg::Junk => junk_block(idx),
        }
    }
    /// A cheap writable view on top of a frozen image.
    pub fn overlay(base: &std::sync::Arc<Image>) -> Image {
        Image { nblocks: base.nblocks, regions: Vec::new(), blocks: HashMap::new(), base: Some(base.clone()) }
    }
    pub fn write(&mut self, idx: u32, data: &Blk) {
        self.blocks.insert(idx, Box::new(*data));
    }
    /// Write a byte range (may span blocks) – used by the formatter.
    pub fn write_bytes(&mut self, blk: u32, off: usize, data: &[u8]) {
        let mut pos = blk as u64 * 512 + off as u64;
        let mut d = data;
        while !d.is_empty() {
            let b = (pos / 512) as u32;
            let o = (pos % 512) as usize;
            let n = (512 - o).min(d.len());
            let mut cur = self.read(b);
            cur[o..o + n].copy_from_slice(&d[..n]);
            self.write(b, &cur);
            d = &d[n..];
            pos += n as u64;
        }
    }
}

impl Source for Image {
    fn get(&self, idx: u32) -> Blk {
        self.read(idx)
    }
    fn nblocks(&self) -> u32 {
        self.nblocks
    }
}

#[derive(Clone, Debug)]
pub struct WriteRec {
    pub seq: u32,
    pub op: u32,
    pub call: u64,
    pub idx: u32,
    pub data: Box<Blk>,
}

#[derive(Clone, Debug, PartialEq)]
pub enum DevError {
    Injected { call: u64, write: bool, idx: u32 },
    OutOfRange { write: bool, idx: u32 },
    Budget,
}

#[derive(Clone, Copy, Debug, PartialEq)]
pub enum FaultClass {
    Any,
    Reads,
    Writes,
}

#[derive(Clone, Debug)]
pub enum Fault {
    None,
    /// one-shot: the device call with this index fails
    At(u64),
    /// every call from this index on fails
    From(u64),
    /// exactly these call indices fail
    Mask(Vec<u64>),
}

#[derive(Debug)]
pub struct DiskState {
    pub img: Image,
    pub log: Vec<WriteRec>,
    pub record_writes: bool,
    pub reads: Vec<(u32, u32)>,
    pub record_reads: bool,
    /// device calls so far (one per trait call)
    pub calls: u64,
    /// counted per class for `FaultClass`
    pub read_calls: u64,
    pub write_calls: u64,
    pub nreads: u64,
    pub nwrites: u64,
    pub multi_block_calls: u64,
    pub cur_op: u32,
    pub fault: Fault,
    pub fault_class: FaultClass,
    pub fired: Vec<(u64, bool, u32)>,
    pub oob: Vec<(bool, u32)>,
    /// logical hang detector: max device calls per API call
    pub op_calls: u64,
    pub budget: u64,
    pub budget_hit: bool,
}

impl DiskState {
    fn should_fail(&mut self, write: bool) -> Option<u64> {
        let (idx, applicable) = match self.fault_class {
            FaultClass::Any => (self.calls, true),
            FaultClass::Reads => (self.read_calls, !write),
            FaultClass::Writes => (self.write_calls, write),
        };
        if !applicable {
            return None;
        }
        let hit = match &self.fault {
            Fault::None => false,
            Fault::At(i) => *i == idx,
            Fault::From(i) => idx >= *i,
            Fault::Mask(m) => m.binary_search(&idx).is_ok(),
        };
        if hit {
            Some(idx)
        } else {
            None
        }
    }
}

/// Cloneable handle; the VolumeManager owns one clone, the harness keeps another.
#[derive(Clone, Debug)]
pub struct Disk(pub Rc<RefCell<DiskState>>);

impl Disk {
    pub fn new(img: Image) -> Disk {
        Disk(Rc::new(RefCell::new(DiskState {
            img,
            log: Vec::new(),
            record_writes: true,
            reads: Vec::new(),
            record_reads: false,
            calls: 0,
            read_calls: 0,
            write_calls: 0,
            nreads: 0,
            nwrites: 0,
            multi_block_calls: 0,
            cur_op: 0,
            fault: Fault::None,
            fault_class: FaultClass::Any,
            fired: Vec::new(),
            oob: Vec::new(),
            op_calls: 0,
            budget: u64::MAX,
            budget_hit: false,
        })))
    }
    pub fn begin_op(&self, op: u32) {
        let mut s = self.0.borrow_mut();
        s.cur_op = op;
        s.op_calls = 0;
    }
    pub fn log_len(&self) -> usize {
        self.0.borrow().log.len()
    }
    pub fn calls(&self) -> u64 {
        self.0.borrow().calls
    }
    pub fn image(&self) -> Image {
        self.0.borrow().img.clone()
    }
    pub fn with<R>(&self, f: impl FnOnce(&mut DiskState) -> R) -> R {
        f(&mut self.0.borrow_mut())
    }
}

impl BlockDevice for Disk {
    type Error = DevError;

    fn read(&self, blocks: &mut [Block], start: BlockIdx) -> Result<(), DevError> {
        let mut s = self.0.borrow_mut();
        let call = s.calls;
        let fail = s.should_fail(false);
        s.calls += 1;
        s.read_calls += 1;
        s.op_calls += 1;
        if blocks.len() > 1 {
            s.multi_block_calls += 1;
        }
        if s.op_calls > s.budget {
            s.budget_hit = true;
            return Err(DevError::Budget);
        }
        if fail.is_some() {
            // a failed read leaves junk in the caller's buffer
            for (k, b) in blocks.iter_mut().enumerate() {
                for (i, x) in b.contents.iter_mut().enumerate() {
                    *x = 0xA5 ^ (i as u8).wrapping_mul(31) ^ (k as u8);
                }
            }
            s.fired.push((call, false, start.0));
            return Err(DevError::Injected { call, write: false, idx: start.0 });
        }
        for (k, b) in blocks.iter_mut().enumerate() {
            let idx = match start.0.checked_add(k as u32) {
                Some(i) if i < s.img.nblocks => i,
                _ => {
                    s.oob.push((false, start.0.wrapping_add(k as u32)));
                    return Err(DevError::OutOfRange { write: false, idx: start.0.wrapping_add(k as u32) });
                }
            };
            b.contents = s.img.read(idx);
            s.nreads += 1;
            if s.record_reads {
                let op = s.cur_op;
                s.reads.push((op, idx));
            }
        }
        Ok(())
    }

    fn write(&self, blocks: &[Block], start: BlockIdx) -> Result<(), DevError> {
        let mut s = self.0.borrow_mut();
        let call = s.calls;
        let fail = s.should_fail(true);
        s.calls += 1;
        s.write_calls += 1;
        s.op_calls += 1;
        if blocks.len() > 1 {
            s.multi_block_calls += 1;
        }
        if s.op_calls > s.budget {
            s.budget_hit = true;
            return Err(DevError::Budget);
        }
        if fail.is_some() {
            s.fired.push((call, true, start.0));
            return Err(DevError::Injected { call, write: true, idx: start.0 });
        }
        for (k, b) in blocks.iter().enumerate() {
            let idx = match start.0.checked_add(k as u32) {
                Some(i) if i < s.img.nblocks => i,
                _ => {
                    // recorded and refused – never a panic
                    s.oob.push((true, start.0.wrapping_add(k as u32)));
                    return Err(DevError::OutOfRange { write: true, idx: start.0.wrapping_add(k as u32) });
                }
            };
            if s.record_writes {
                let seq = s.log.len() as u32;
                let op = s.cur_op;
                s.log.push(WriteRec { seq, op, call, idx, data: Box::new(b.contents) });
            }
            s.img.write(idx, &b.contents);
            s.nwrites += 1;
        }
        Ok(())
    }

    fn num_blocks(&self) -> Result<BlockCount, DevError> {
        Ok(BlockCount(self.0.borrow().img.nblocks))
    }
}

/// Read-only view over a shared image with a throw-away overlay: used to re-mount crash images
/// with the library itself without cloning the image.
#[derive(Clone)]
pub struct RoDisk {
    pub base: Rc<RefCell<Image>>,
    pub overlay: Rc<RefCell<HashMap<u32, Box<Blk>>>>,
    pub writes: Rc<std::cell::Cell<u64>>,
}

impl RoDisk {
    pub fn new(base: Rc<RefCell<Image>>) -> RoDisk {
        RoDisk { base, overlay: Rc::new(RefCell::new(HashMap::new())), writes: Rc::new(std::cell::Cell::new(0)) }
    }
}

impl BlockDevice for RoDisk {
    type Error = DevError;
    fn read(&self, blocks: &mut [Block], start: BlockIdx) -> Result<(), DevError> {
        let base = self.base.borrow();
        let ov = self.overlay.borrow();
        for (k, b) in blocks.iter_mut().enumerate() {
            let idx = start.0.wrapping_add(k as u32);
            if idx >= base.nblocks {
                return Err(DevError::OutOfRange { write: false, idx });
            }
            b.contents = match ov.get(&idx) {
                Some(x) => **x,
                None => base.read(idx),
            };
        }
        Ok(())
    }
    fn write(&self, blocks: &[Block], start: BlockIdx) -> Result<(), DevError> {
        let n = self.base.borrow().nblocks;
        let mut ov = self.overlay.borrow_mut();
        for (k, b) in blocks.iter().enumerate() {
            let idx = start.0.wrapping_add(k as u32);
            if idx >= n {
                return Err(DevError::OutOfRange { write: true, idx });
            }
            ov.insert(idx, Box::new(b.contents));
            self.writes.set(self.writes.get() + 1);
        }
        Ok(())
    }
    fn num_blocks(&self) -> Result<BlockCount, DevError> {
        Ok(BlockCount(self.base.borrow().nblocks))
    }
}
