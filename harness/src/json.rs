//! Minimal JSON value, writer and parser (no external crates).

#[derive(Clone, Debug, PartialEq)]
pub enum J {
    Null,
    Bool(bool),
    Int(i64),
    UInt(u64),
    Float(f64),
    Str(String),
    Arr(Vec<J>),
    Obj(Vec<(String, J)>),
}

impl J {
    pub fn obj() -> J {
        J::Obj(Vec::new())
    }
    pub fn s<S: Into<String>>(s: S) -> J {
        J::Str(s.into())
    }
    pub fn set<V: Into<J>>(mut self, k: &str, v: V) -> J {
        self.put(k, v);
        self
    }
    pub fn put<V: Into<J>>(&mut self, k: &str, v: V) {
        if let J::Obj(o) = self {
            let v = v.into();
            if let Some(e) = o.iter_mut().find(|(kk, _)| kk == k) {
                e.1 = v;
            } else {
                o.push((k.to_string(), v));
            }
        }
    }
    pub fn get(&self, k: &str) -> Option<&J> {
        match self {
            J::Obj(o) => o.iter().find(|(kk, _)| kk == k).map(|(_, v)| v),
            _ => None,
        }
    }
    pub fn as_str(&self) -> Option<&str> {
        match self {
            J::Str(s) => Some(s),
            _ => None,
        }
    }
    pub fn as_u64(&self) -> Option<u64> {
        match self {
            J::UInt(u) => Some(*u),
            J::Int(i) if *i >= 0 => Some(*i as u64),
            J::Float(f) if *f >= 0.0 => Some(*f as u64),
            _ => None,
        }
    }
    pub fn as_arr(&self) -> Option<&Vec<J>> {
        match self {
            J::Arr(a) => Some(a),
            _ => None,
        }
    }
    pub fn to_string(&self) -> String {
        let mut s = String::new();
        self.write(&mut s, 0, false);
        s
    }
    pub fn pretty(&self) -> String {
        let mut s = String::new();
        self.write(&mut s, 0, true);
        s.push('\n');
        s
    }
    fn write(&self, out: &mut String, ind: usize, pretty: bool) {
        match self {
            J::Null => out.push_str("null"),
            J::Bool(b) => out.push_str(if *b { "true" } else { "false" }),
            J::Int(i) => out.push_str(&i.to_string()),
            J::UInt(u) => out.push_str(&u.to_string()),
            J::Float(f) => {
                if f.is_finite() {
                    out.push_str(&format!("{:.3}", f))
                } else {
                    out.push_str("null")
                }
            }
            J::Str(s) => write_str(out, s),
            J::Arr(a) => {
                // arrays of scalars stay on one line
                let scalar = a.iter().all(|x| !matches!(x, J::Arr(_) | J::Obj(_)));
                out.push('[');
                for (i, x) in a.iter().enumerate() {
                    if i > 0 {
                        out.push(',');
                    }
                    if pretty && !scalar {
                        out.push('\n');
                        out.push_str(&" ".repeat(ind + 1));
                    }
                    x.write(out, ind + 1, pretty);
                }
                if pretty && !scalar && !a.is_empty() {
                    out.push('\n');
                    out.push_str(&" ".repeat(ind));
                }
                out.push(']');
            }
            J::Obj(o) => {
                out.push('{');
                for (i, (k, v)) in o.iter().enumerate() {
                    if i > 0 {
                        out.push(',');
                    }
                    if pretty {
                        out.push('\n');
                        out.push_str(&" ".repeat(ind + 1));
                    }
                    write_str(out, k);
                    out.push(':');
                    if pretty {
                        out.push(' ');
                    }
                    v.write(out, ind + 1, pretty);
                }
                if pretty && !o.is_empty() {
                    out.push('\n');
                    out.push_str(&" ".repeat(ind));
                }
                out.push('}');
            }
        }
    }
    pub fn parse(s: &str) -> Result<J, String> {
        let b = s.as_bytes();
        let mut p = 0usize;
        let v = parse_val(b, &mut p)?;
        skip_ws(b, &mut p);
        if p != b.len() {
            return Err(format!("trailing data at {}", p));
        }
        Ok(v)
    }
}

fn write_str(out: &mut String, s: &str) {
    out.push('"');
    for c in s.chars() {
        match c {
            '"' => out.push_str("\\\""),
            '\\' => out.push_str("\\\\"),
            '\n' => out.push_str("\\n"),
            '\r' => out.push_str("\\r"),
            '\t' => out.push_str("\\t"),
            c if (c as u32) < 0x20 => out.push_str(&format!("\\u{:04x}", c as u32)),
            c => out.push(c),
        }
    }
    out.push('"');
}

fn skip_ws(b: &[u8], p: &mut usize) {
    while *p < b.len() && (b[*p] == b' ' || b[*p] == b'\n' || b[*p] == b'\r' || b[*p] == b'\t') {
        *p += 1;
    }
}

fn parse_val(b: &[u8], p: &mut usize) -> Result<J, String> {
    skip_ws(b, p);
    if *p >= b.len() {
        return Err("eof".into());
    }
    match b[*p] {
        b'{' => {
            *p += 1;
            let mut o = Vec::new();
            skip_ws(b, p);
            if *p < b.len() && b[*p] == b'}' {
                *p += 1;
                return Ok(J::Obj(o));
            }
            loop {
                skip_ws(b, p);
                let k = match parse_val(b, p)? {
                    J::Str(s) => s,
                    _ => return Err("key".into()),
                };
                skip_ws(b, p);
                if *p >= b.len() || b[*p] != b':' {
                    return Err(format!("expected : at {}", p));
                }
                *p += 1;
                let v = parse_val(b, p)?;
                o.push((k, v));
                skip_ws(b, p);
                if *p < b.len() && b[*p] == b',' {
                    *p += 1;
                    continue;
                }
                if *p < b.len() && b[*p] == b'}' {
                    *p += 1;
                    return Ok(J::Obj(o));
                }
                return Err(format!("expected , or }} at {}", p));
            }
        }
        b'[' => {
            *p += 1;
            let mut a = Vec::new();
            skip_ws(b, p);
            if *p < b.len() && b[*p] == b']' {
                *p += 1;
                return Ok(J::Arr(a));
            }
            loop {
                a.push(parse_val(b, p)?);
                skip_ws(b, p);
                if *p < b.len() && b[*p] == b',' {
                    *p += 1;
                    continue;
                }
                if *p < b.len() && b[*p] == b']' {
                    *p += 1;
                    return Ok(J::Arr(a));
                }
                return Err(format!("expected , or ] at {}", p));
            }
        }
        b'"' => {
            *p += 1;
            let mut s = String::new();
            let mut raw: Vec<u8> = Vec::new();
            while *p < b.len() && b[*p] != b'"' {
                if b[*p] == b'\\' {
                    *p += 1;
                    if *p >= b.len() {
                        return Err("eof in escape".into());
                    }
                    let c = b[*p];
                    let ch = match c {
                        b'n' => '\n',
                        b'r' => '\r',
                        b't' => '\t',
                        b'b' => '\u{8}',
                        b'f' => '\u{c}',
                        b'u' => {
                            if *p + 4 >= b.len() {
                                return Err("eof in \\u".into());
                            }
                            let h = std::str::from_utf8(&b[*p + 1..*p + 5]).map_err(|e| e.to_string())?;
                            let v = u32::from_str_radix(h, 16).map_err(|e| e.to_string())?;
                            *p += 4;
                            char::from_u32(v).unwrap_or('\u{fffd}')
                        }
                        c => c as char,
                    };
                    let mut tmp = [0u8; 4];
                    raw.extend_from_slice(ch.encode_utf8(&mut tmp).as_bytes());
                    *p += 1;
                } else {
                    raw.push(b[*p]);
                    *p += 1;
                }
            }
            if *p >= b.len() {
                return Err("eof in string".into());
            }
            *p += 1;
            s.push_str(&String::from_utf8_lossy(&raw));
            Ok(J::Str(s))
        }
        b't' if b[*p..].starts_with(b"true") => {
            *p += 4;
            Ok(J::Bool(true))
        }
        b'f' if b[*p..].starts_with(b"false") => {
            *p += 5;
            Ok(J::Bool(false))
        }
        b'n' if b[*p..].starts_with(b"null") => {
            *p += 4;
            Ok(J::Null)
        }
        _ => {
            let st = *p;
            while *p < b.len() && (b[*p] == b'-' || b[*p] == b'+' || b[*p] == b'.' || b[*p] == b'e' || b[*p] == b'E' || b[*p].is_ascii_digit()) {
                *p += 1;
            }
            let t = std::str::from_utf8(&b[st..*p]).map_err(|e| e.to_string())?;
            if t.is_empty() {
                return Err(format!("unexpected byte {} at {}", b[st], st));
            }
            if let Ok(u) = t.parse::<u64>() {
                Ok(J::UInt(u))
            } else if let Ok(i) = t.parse::<i64>() {
                Ok(J::Int(i))
            } else {
                t.parse::<f64>().map(J::Float).map_err(|e| e.to_string())
            }
        }
    }
}

impl From<&str> for J {
    fn from(s: &str) -> J {
        J::Str(s.to_string())
    }
}
impl From<String> for J {
    fn from(s: String) -> J {
        J::Str(s)
    }
}
impl From<bool> for J {
    fn from(b: bool) -> J {
        J::Bool(b)
    }
}
impl From<u64> for J {
    fn from(b: u64) -> J {
        J::UInt(b)
    }
}
impl From<u32> for J {
    fn from(b: u32) -> J {
        J::UInt(b as u64)
    }
}
impl From<usize> for J {
    fn from(b: usize) -> J {
        J::UInt(b as u64)
    }
}
impl From<i64> for J {
    fn from(b: i64) -> J {
        J::Int(b)
    }
}
impl From<f64> for J {
    fn from(b: f64) -> J {
        J::Float(b)
    }
}
impl From<Vec<J>> for J {
    fn from(b: Vec<J>) -> J {
        J::Arr(b)
    }
}
