//! Small deterministic PRNG (splitmix64 seeding, xoshiro256**). No external crates.

#[derive(Clone, Debug)]
pub struct Rng {
    s: [u64; 4],
}

pub fn splitmix(x: &mut u64) -> u64 {
    *x = x.wrapping_add(0x9E37_79B9_7F4A_7C15);
    let mut z = *x;
    z = (z ^ (z >> 30)).wrapping_mul(0xBF58_476D_1CE4_E5B9);
    z = (z ^ (z >> 27)).wrapping_mul(0x94D0_49BB_1331_11EB);
    z ^ (z >> 31)
}

/// Stable 64-bit mix of several integers (used to derive per-history seeds and hashes).
pub fn mix(parts: &[u64]) -> u64 {
    let mut h = 0x243F_6A88_85A3_08D3u64;
    for &p in parts {
        let mut x = h ^ p;
        h = splitmix(&mut x).rotate_left(17) ^ p.wrapping_mul(0x9E37_79B9_7F4A_7C15);
    }
    let mut x = h;
    splitmix(&mut x)
}

pub fn hash_bytes(b: &[u8]) -> u64 {
    let mut h = 0xcbf2_9ce4_8422_2325u64;
    for &c in b {
        h ^= c as u64;
        h = h.wrapping_mul(0x1000_0000_01b3);
    }
    let mut x = h;
    splitmix(&mut x)
}

impl Rng {
    pub fn new(seed: u64) -> Rng {
        let mut x = seed;
        let s = [splitmix(&mut x), splitmix(&mut x), splitmix(&mut x), splitmix(&mut x)];
        Rng { s }
    }
    pub fn from_parts(parts: &[u64]) -> Rng {
        Rng::new(mix(parts))
    }
    pub fn next_u64(&mut self) -> u64 {
        let r = self.s[1].wrapping_mul(5).rotate_left(7).wrapping_mul(9);
        let t = self.s[1] << 17;
        self.s[2] ^= self.s[0];
        self.s[3] ^= self.s[1];
        self.s[1] ^= self.s[2];
        self.s[0] ^= self.s[3];
        self.s[2] ^= t;
        self.s[3] = self.s[3].rotate_left(45);
        r
    }
    pub fn next_u32(&mut self) -> u32 {
        (self.next_u64() >> 32) as u32
    }
    /// Uniform in [0, n). n must be > 0.
    pub fn below(&mut self, n: u64) -> u64 {
        debug_assert!(n > 0);
        // multiply-shift; bias negligible for our n
        ((self.next_u64() as u128 * n as u128) >> 64) as u64
    }
    pub fn usize_below(&mut self, n: usize) -> usize {
        self.below(n as u64) as usize
    }
    /// Uniform in [a, b] inclusive.
    pub fn range(&mut self, a: u64, b: u64) -> u64 {
        a + self.below(b - a + 1)
    }
    pub fn chance(&mut self, num: u64, den: u64) -> bool {
        self.below(den) < num
    }
    pub fn pick<'a, T>(&mut self, v: &'a [T]) -> &'a T {
        &v[self.usize_below(v.len())]
    }
    pub fn fill(&mut self, buf: &mut [u8]) {
        for c in buf.chunks_mut(8) {
            let v = self.next_u64().to_le_bytes();
            c.copy_from_slice(&v[..c.len()]);
        }
    }
    pub fn shuffle<T>(&mut self, v: &mut [T]) {
        for i in (1..v.len()).rev() {
            let j = self.usize_below(i + 1);
            v.swap(i, j);
        }
    }
    /// Pick an index according to integer weights.
    pub fn weighted(&mut self, w: &[u32]) -> usize {
        let total: u64 = w.iter().map(|&x| x as u64).sum();
        let mut r = self.below(total.max(1));
        for (i, &x) in w.iter().enumerate() {
            if r < x as u64 {
                return i;
            }
            r -= x as u64;
        }
        w.len() - 1
    }
}
