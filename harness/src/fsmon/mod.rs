//! Workload engine: executable model of the VolumeManager API + monitors over the medium.
pub mod crash;
pub mod engine;
pub mod fault;
pub mod gen;
pub mod huge;
pub mod model;
pub mod monitors;
pub mod ops;
pub mod run;
