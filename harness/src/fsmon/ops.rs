//! Concrete operation lists and their mechanical execution against the library.
//!
//! An `Op` names handles by *slot number*, so a recorded history can be re-executed verbatim on
//! another image or under injected faults, where results (and therefore handle values) differ.

use crate::dev::Disk;
use crate::fsx::{self, EntryView};
use crate::json::J;
use crate::report;
use crate::vm::{ek, Clock, Ek, Fl, Nm, SeekTo, Vm};
use embedded_sdmmc::{Mode, RawDirectory, RawFile, RawVolume};

#[derive(Clone, Debug, PartialEq)]
pub enum Op {
    OpenVol { fl: Fl, part: usize, vs: usize },
    CloseVol { fl: Fl, vs: usize },
    DropVol { vs: usize },
    OpenRoot { fl: Fl, vs: usize, ds: usize },
    OpenDir { fl: Fl, parent: usize, name: String, ds: usize },
    ChangeDir { ds: usize, name: String },
    CloseDir { fl: Fl, ds: usize },
    DropDir { ds: usize },
    Find { fl: Fl, ds: usize, name: String },
    Iterate { fl: Fl, ds: usize },
    IterateLfn { fl: Fl, ds: usize, buf: usize },
    OpenFile { fl: Fl, ds: usize, name: String, mode: Mode, fs: usize },
    Delete { fl: Fl, ds: usize, name: String },
    Mkdir { fl: Fl, ds: usize, name: String },
    Label { vs: usize },
    Read { fl: Fl, fs: usize, len: usize },
    Write { fl: Fl, fs: usize, tag: u32, len: usize },
    CloseFile { fl: Fl, fs: usize },
    DropFile { fs: usize },
    Flush { fl: Fl, fs: usize },
    Eof { fl: Fl, fs: usize },
    Len { fl: Fl, fs: usize },
    Off { fl: Fl, fs: usize },
    SeekStart { fl: Fl, fs: usize, to: u32 },
    SeekCur { fl: Fl, fs: usize, by: i32 },
    SeekEnd { fl: Fl, fs: usize, back: u32 },
    SeekIo { fs: usize, to: SeekTo },
    HasOpen,
    /// use closed handle number `idx` of that kind with action `act`
    StaleFile { idx: usize, act: u8 },
    StaleDir { idx: usize, act: u8 },
    StaleVol { idx: usize, act: u8 },
    /// iterate the directory and call every Result-returning method from inside the callback
    Reentrant { ds: usize, lfn: bool },
}

impl Op {
    pub fn kind(&self) -> &'static str {
        match self {
            Op::OpenVol { .. } => "open_volume",
            Op::CloseVol { .. } => "close_volume",
            Op::DropVol { .. } => "drop(Volume)",
            Op::OpenRoot { .. } => "open_root_dir",
            Op::OpenDir { .. } => "open_dir",
            Op::ChangeDir { .. } => "change_dir",
            Op::CloseDir { .. } => "close_dir",
            Op::DropDir { .. } => "drop(Directory)",
            Op::Find { .. } => "find_directory_entry",
            Op::Iterate { .. } => "iterate_dir",
            Op::IterateLfn { .. } => "iterate_dir_lfn",
            Op::OpenFile { .. } => "open_file_in_dir",
            Op::Delete { .. } => "delete_file_in_dir",
            Op::Mkdir { .. } => "make_dir_in_dir",
            Op::Label { .. } => "get_root_volume_label",
            Op::Read { .. } => "read",
            Op::Write { .. } => "write",
            Op::CloseFile { .. } => "close_file",
            Op::DropFile { .. } => "drop(File)",
            Op::Flush { .. } => "flush_file",
            Op::Eof { .. } => "file_eof",
            Op::Len { .. } => "file_length",
            Op::Off { .. } => "file_offset",
            Op::SeekStart { .. } => "file_seek_from_start",
            Op::SeekCur { .. } => "file_seek_from_current",
            Op::SeekEnd { .. } => "file_seek_from_end",
            Op::SeekIo { .. } => "Seek::seek",
            Op::HasOpen => "has_open_handles",
            Op::StaleFile { .. } => "stale file handle",
            Op::StaleDir { .. } => "stale directory handle",
            Op::StaleVol { .. } => "stale volume handle",
            Op::Reentrant { .. } => "re-entrant call from callback",
        }
    }
    /// does not modify the medium or the handle tables when it succeeds
    pub fn read_only(&self) -> bool {
        matches!(
            self,
            Op::Find { .. } | Op::Iterate { .. } | Op::IterateLfn { .. } | Op::Read { .. } | Op::Eof { .. } | Op::Len { .. } | Op::Off { .. } | Op::HasOpen | Op::Label { .. }
        )
    }
    pub fn mode_name(m: Mode) -> &'static str {
        match m {
            Mode::ReadOnly => "ReadOnly",
            Mode::ReadWriteAppend => "Append",
            Mode::ReadWriteTruncate => "Truncate",
            Mode::ReadWriteCreate => "Create",
            Mode::ReadWriteCreateOrTruncate => "CreateOrTruncate",
            Mode::ReadWriteCreateOrAppend => "CreateOrAppend",
        }
    }
    pub fn describe(&self) -> String {
        match self {
            Op::OpenFile { fl, ds, name, mode, fs } => format!("open_file_in_dir[{:?}](d{}, {:?}, {}) -> f{}", fl, ds, name, Op::mode_name(*mode), fs),
            other => format!("{:?}", other),
        }
    }
}

#[derive(Clone, Debug, PartialEq)]
pub enum Out {
    Unit,
    Handle,
    Bytes(Vec<u8>),
    Listing(Vec<EntryView>),
    ListingLfn(Vec<(EntryView, Option<String>)>),
    Entry(EntryView),
    U32(u32),
    U64(u64),
    Bool(bool),
    Label(Option<Vec<u8>>),
    /// result kinds of the probe calls made from inside the callback, plus entries delivered
    Probe(Vec<(String, Option<Ek>)>, usize),
    /// slot was empty: nothing was called
    Skipped,
}

#[derive(Clone, Debug, PartialEq)]
pub enum OpRes {
    Ok(Out),
    Err(Ek),
    Panic(String, String),
}

impl OpRes {
    pub fn short(&self) -> String {
        match self {
            OpRes::Ok(Out::Bytes(b)) => format!("Ok({} bytes)", b.len()),
            OpRes::Ok(Out::Listing(l)) => format!("Ok({} entries)", l.len()),
            OpRes::Ok(Out::ListingLfn(l)) => format!("Ok({} entries)", l.len()),
            OpRes::Ok(Out::Entry(e)) => format!("Ok(entry size {})", e.size),
            OpRes::Ok(o) => format!("Ok({:?})", o),
            OpRes::Err(k) => format!("Err({:?})", k),
            OpRes::Panic(m, l) => format!("PANIC '{}' at {}", m, report::short_loc(l)),
        }
    }
    pub fn is_ok(&self) -> bool {
        matches!(self, OpRes::Ok(_))
    }
    pub fn err(&self) -> Option<Ek> {
        match self {
            OpRes::Err(k) => Some(*k),
            _ => None,
        }
    }
}

pub struct Exec {
    pub vm: Box<dyn Vm>,
    pub disk: Disk,
    pub clock: Clock,
    pub vols: Vec<Option<RawVolume>>,
    pub dirs: Vec<Option<RawDirectory>>,
    pub files: Vec<Option<RawFile>>,
    pub stale_vols: Vec<RawVolume>,
    pub stale_dirs: Vec<RawDirectory>,
    pub stale_files: Vec<RawFile>,
    pub op_id: u32,
    /// every handle value ever returned, for the distinctness check
    pub issued: Vec<(char, u32)>,
    /// handles pushed out of their slot by a later open into the same slot (only happens when a
    /// replay diverges from the recorded run); they are still open
    pub displaced_vols: Vec<RawVolume>,
    pub displaced_dirs: Vec<RawDirectory>,
    pub displaced_files: Vec<RawFile>,
    /// buffer of the last `read` that returned an error
    pub last_read_buf: Vec<u8>,
}

fn slot<T: Copy>(v: &[Option<T>], i: usize) -> Option<T> {
    v.get(i).cloned().flatten()
}
fn put<T>(v: &mut Vec<Option<T>>, i: usize, x: Option<T>) -> Option<T> {
    while v.len() <= i {
        v.push(None);
    }
    std::mem::replace(&mut v[i], x)
}

/// numeric value of a handle (Debug prints it in hex)
pub fn hnum<T: std::fmt::Debug>(h: &T) -> u32 {
    let s = format!("{:?}", h);
    let p = s.rfind("0x").map(|i| &s[i + 2..]).unwrap_or("");
    let hex: String = p.chars().take_while(|c| c.is_ascii_hexdigit()).collect();
    u32::from_str_radix(&hex, 16).unwrap_or(u32::MAX)
}

impl Exec {
    pub fn new(vm: Box<dyn Vm>, disk: Disk, clock: Clock) -> Exec {
        Exec { vm, disk, clock, vols: vec![], dirs: vec![], files: vec![], stale_vols: vec![], stale_dirs: vec![], stale_files: vec![], op_id: 0, issued: vec![], displaced_vols: vec![], displaced_dirs: vec![], displaced_files: vec![], last_read_buf: vec![] }
    }

    pub fn open_counts(&self) -> (usize, usize, usize) {
        (self.vols.iter().flatten().count(), self.dirs.iter().flatten().count(), self.files.iter().flatten().count())
    }

    /// Execute one op. Never panics: library panics are caught and returned.
    pub fn exec(&mut self, op: &Op) -> OpRes {
        self.op_id += 1;
        self.disk.begin_op(self.op_id);
        self.clock.begin_op(self.op_id);
        let r = report::catch(|| self.exec_inner(op));
        match r {
            Ok(x) => x,
            Err((m, l)) => OpRes::Panic(m, l),
        }
    }

    fn res<T>(r: Result<T, crate::vm::E>, f: impl FnOnce(T) -> Out) -> OpRes {
        match r {
            Ok(x) => OpRes::Ok(f(x)),
            Err(e) => OpRes::Err(ek(&e)),
        }
    }

    fn exec_inner(&mut self, op: &Op) -> OpRes {
        let vm = &*self.vm;
        match op {
            Op::OpenVol { fl, part, vs } => match vm.open_volume(*fl, *part) {
                Ok(h) => {
                    self.issued.push(('v', hnum(&h)));
                    if let Some(old) = put(&mut self.vols, *vs, Some(h)) {
                        self.displaced_vols.push(old);
                    }
                    OpRes::Ok(Out::Handle)
                }
                Err(e) => OpRes::Err(ek(&e)),
            },
            Op::CloseVol { fl, vs } => {
                let Some(h) = slot(&self.vols, *vs) else { return OpRes::Ok(Out::Skipped) };
                let r = vm.close_volume(*fl, h);
                if r.is_ok() {
                    let _ = put(&mut self.vols, *vs, None);
                    self.stale_vols.push(h);
                }
                Exec::res(r, |_| Out::Unit)
            }
            Op::DropVol { vs } => {
                let Some(h) = slot(&self.vols, *vs) else { return OpRes::Ok(Out::Skipped) };
                vm.drop_volume(h);
                // drop ignores errors: the volume stays open when something is open on it
                OpRes::Ok(Out::Unit)
            }
            Op::OpenRoot { fl, vs, ds } => {
                let Some(h) = slot(&self.vols, *vs) else { return OpRes::Ok(Out::Skipped) };
                match vm.open_root_dir(*fl, h) {
                    Ok(d) => {
                        self.issued.push(('d', hnum(&d)));
                        if let Some(old) = put(&mut self.dirs, *ds, Some(d)) {
                            self.displaced_dirs.push(old);
                        }
                        OpRes::Ok(Out::Handle)
                    }
                    Err(e) => OpRes::Err(ek(&e)),
                }
            }
            Op::OpenDir { fl, parent, name, ds } => {
                let Some(p) = slot(&self.dirs, *parent) else { return OpRes::Ok(Out::Skipped) };
                match vm.open_dir(*fl, p, Nm::Str(name)) {
                    Ok(d) => {
                        self.issued.push(('d', hnum(&d)));
                        if let Some(old) = put(&mut self.dirs, *ds, Some(d)) {
                            self.displaced_dirs.push(old);
                        }
                        OpRes::Ok(Out::Handle)
                    }
                    Err(e) => OpRes::Err(ek(&e)),
                }
            }
            Op::ChangeDir { ds, name } => {
                let Some(p) = slot(&self.dirs, *ds) else { return OpRes::Ok(Out::Skipped) };
                match vm.change_dir(p, Nm::Str(name)) {
                    Ok(d) => {
                        self.issued.push(('d', hnum(&d)));
                        self.stale_dirs.push(p);
                        let _ = put(&mut self.dirs, *ds, Some(d));
                        OpRes::Ok(Out::Handle)
                    }
                    Err(e) => OpRes::Err(ek(&e)),
                }
            }
            Op::CloseDir { fl, ds } => {
                let Some(h) = slot(&self.dirs, *ds) else { return OpRes::Ok(Out::Skipped) };
                let r = vm.close_dir(*fl, h);
                if r.is_ok() {
                    let _ = put(&mut self.dirs, *ds, None);
                    self.stale_dirs.push(h);
                }
                Exec::res(r, |_| Out::Unit)
            }
            Op::DropDir { ds } => {
                let Some(h) = slot(&self.dirs, *ds) else { return OpRes::Ok(Out::Skipped) };
                vm.drop_dir(h);
                let _ = put(&mut self.dirs, *ds, None);
                self.stale_dirs.push(h);
                OpRes::Ok(Out::Unit)
            }
            Op::Find { fl, ds, name } => {
                let Some(d) = slot(&self.dirs, *ds) else { return OpRes::Ok(Out::Skipped) };
                Exec::res(vm.find(*fl, d, Nm::Str(name)), |e| Out::Entry(fsx::view(&e)))
            }
            Op::Iterate { fl, ds } => {
                let Some(d) = slot(&self.dirs, *ds) else { return OpRes::Ok(Out::Skipped) };
                let mut v = Vec::new();
                let r = vm.iterate(*fl, d, &mut |e| v.push(fsx::view(e)));
                Exec::res(r, |_| Out::Listing(v))
            }
            Op::IterateLfn { fl, ds, buf } => {
                let Some(d) = slot(&self.dirs, *ds) else { return OpRes::Ok(Out::Skipped) };
                let mut v = Vec::new();
                let mut b = vec![0u8; *buf];
                let r = vm.iterate_lfn(*fl, d, &mut b, &mut |e, n| v.push((fsx::view(e), n.map(|s| s.to_string()))));
                Exec::res(r, |_| Out::ListingLfn(v))
            }
            Op::OpenFile { fl, ds, name, mode, fs } => {
                let Some(d) = slot(&self.dirs, *ds) else { return OpRes::Ok(Out::Skipped) };
                match vm.open_file(*fl, d, Nm::Str(name), *mode) {
                    Ok(f) => {
                        self.issued.push(('f', hnum(&f)));
                        if let Some(old) = put(&mut self.files, *fs, Some(f)) {
                            self.displaced_files.push(old);
                        }
                        OpRes::Ok(Out::Handle)
                    }
                    Err(e) => OpRes::Err(ek(&e)),
                }
            }
            Op::Delete { fl, ds, name } => {
                let Some(d) = slot(&self.dirs, *ds) else { return OpRes::Ok(Out::Skipped) };
                Exec::res(vm.delete(*fl, d, Nm::Str(name)), |_| Out::Unit)
            }
            Op::Mkdir { fl, ds, name } => {
                let Some(d) = slot(&self.dirs, *ds) else { return OpRes::Ok(Out::Skipped) };
                Exec::res(vm.mkdir(*fl, d, Nm::Str(name)), |_| Out::Unit)
            }
            Op::Label { vs } => {
                let Some(h) = slot(&self.vols, *vs) else { return OpRes::Ok(Out::Skipped) };
                Exec::res(vm.label(h), Out::Label)
            }
            Op::Read { fl, fs, len } => {
                let Some(f) = slot(&self.files, *fs) else { return OpRes::Ok(Out::Skipped) };
                let mut b = vec![0xEEu8; *len];
                match vm.read(*fl, f, &mut b) {
                    Ok(n) => {
                        b.truncate(n.min(*len));
                        if n > *len {
                            return OpRes::Ok(Out::U64(n as u64));
                        }
                        OpRes::Ok(Out::Bytes(b))
                    }
                    Err(e) => {
                        // what the failed call left in the caller's buffer
                        self.last_read_buf = b;
                        OpRes::Err(ek(&e))
                    }
                }
            }
            Op::Write { fl, fs, tag, len } => {
                let Some(f) = slot(&self.files, *fs) else { return OpRes::Ok(Out::Skipped) };
                let data = fsx::payload(*tag, 0, *len);
                Exec::res(vm.write(*fl, f, &data), |n| Out::U64(n as u64))
            }
            Op::CloseFile { fl, fs } => {
                let Some(f) = slot(&self.files, *fs) else { return OpRes::Ok(Out::Skipped) };
                let r = vm.close_file(*fl, f);
                // the library forgets the handle even when the flush inside close failed
                let _ = put(&mut self.files, *fs, None);
                self.stale_files.push(f);
                Exec::res(r, |_| Out::Unit)
            }
            Op::DropFile { fs } => {
                let Some(f) = slot(&self.files, *fs) else { return OpRes::Ok(Out::Skipped) };
                vm.drop_file(f);
                let _ = put(&mut self.files, *fs, None);
                self.stale_files.push(f);
                OpRes::Ok(Out::Unit)
            }
            Op::Flush { fl, fs } => {
                let Some(f) = slot(&self.files, *fs) else { return OpRes::Ok(Out::Skipped) };
                Exec::res(vm.flush(*fl, f), |_| Out::Unit)
            }
            Op::Eof { fl, fs } => {
                let Some(f) = slot(&self.files, *fs) else { return OpRes::Ok(Out::Skipped) };
                Exec::res(vm.eof(*fl, f), Out::Bool)
            }
            Op::Len { fl, fs } => {
                let Some(f) = slot(&self.files, *fs) else { return OpRes::Ok(Out::Skipped) };
                Exec::res(vm.length(*fl, f), Out::U32)
            }
            Op::Off { fl, fs } => {
                let Some(f) = slot(&self.files, *fs) else { return OpRes::Ok(Out::Skipped) };
                Exec::res(vm.offset(*fl, f), Out::U32)
            }
            Op::SeekStart { fl, fs, to } => {
                let Some(f) = slot(&self.files, *fs) else { return OpRes::Ok(Out::Skipped) };
                Exec::res(vm.seek_start(*fl, f, *to), |_| Out::Unit)
            }
            Op::SeekCur { fl, fs, by } => {
                let Some(f) = slot(&self.files, *fs) else { return OpRes::Ok(Out::Skipped) };
                Exec::res(vm.seek_cur(*fl, f, *by), |_| Out::Unit)
            }
            Op::SeekEnd { fl, fs, back } => {
                let Some(f) = slot(&self.files, *fs) else { return OpRes::Ok(Out::Skipped) };
                Exec::res(vm.seek_end(*fl, f, *back), |_| Out::Unit)
            }
            Op::SeekIo { fs, to } => {
                let Some(f) = slot(&self.files, *fs) else { return OpRes::Ok(Out::Skipped) };
                Exec::res(vm.seek_io(f, *to), Out::U64)
            }
            Op::HasOpen => OpRes::Ok(Out::Bool(vm.has_open_handles())),
            Op::StaleFile { idx, act } => {
                if self.stale_files.is_empty() {
                    return OpRes::Ok(Out::Skipped);
                }
                let f = self.stale_files[*idx % self.stale_files.len()];
                let mut b = [0u8; 16];
                let r = match act % 24 {
                    11 => vm.read(Fl::Wrap, f, &mut b).map(|_| ()),
                    12 => vm.write(Fl::Wrap, f, &[1, 2, 3]).map(|_| ()),
                    13 => vm.flush(Fl::Wrap, f),
                    14 => vm.seek_start(Fl::Wrap, f, 0),
                    15 => vm.seek_cur(Fl::Wrap, f, 0),
                    16 => vm.seek_end(Fl::Wrap, f, 0),
                    17 => vm.close_file(Fl::Wrap, f),
                    18 => vm.read(Fl::Io, f, &mut b).map(|_| ()),
                    19 => vm.write(Fl::Io, f, &[1, 2, 3]).map(|_| ()),
                    20 => vm.flush(Fl::Io, f),
                    21 => vm.seek_io(f, SeekTo::Start(0)).map(|_| ()),
                    22 => vm.seek_io(f, SeekTo::End(0)).map(|_| ()),
                    23 => vm.seek_io(f, SeekTo::Current(0)).map(|_| ()),
                    0 => vm.read(Fl::Raw, f, &mut b).map(|_| ()),
                    1 => vm.write(Fl::Raw, f, &[1, 2, 3]).map(|_| ()),
                    2 => vm.close_file(Fl::Raw, f),
                    3 => vm.flush(Fl::Raw, f),
                    4 => vm.eof(Fl::Raw, f).map(|_| ()),
                    5 => vm.seek_start(Fl::Raw, f, 0),
                    6 => vm.seek_cur(Fl::Raw, f, 0),
                    7 => vm.seek_end(Fl::Raw, f, 0),
                    8 => vm.length(Fl::Raw, f).map(|_| ()),
                    9 => vm.offset(Fl::Raw, f).map(|_| ()),
                    _ => vm.write(Fl::Raw, f, &[]).map(|_| ()),
                };
                Exec::res(r, |_| Out::Unit)
            }
            Op::StaleDir { idx, act } => {
                if self.stale_dirs.is_empty() {
                    return OpRes::Ok(Out::Skipped);
                }
                let d = self.stale_dirs[*idx % self.stale_dirs.len()];
                let mut b = [0u8; 64];
                let r = match act % 14 {
                    // the same calls with a name that is not a valid 8.3 name: the handle is still
                    // what must be refused
                    9 => vm.open_dir(Fl::Raw, d, Nm::Str("A*B")).map(|_| ()),
                    10 => vm.find(Fl::Raw, d, Nm::Str("TOOLONGNAME.TXT")).map(|_| ()),
                    11 => vm.open_file(Fl::Raw, d, Nm::Str("A B"), Mode::ReadWriteCreateOrAppend).map(|_| ()),
                    12 => vm.delete(Fl::Raw, d, Nm::Str("A<B")),
                    13 => vm.mkdir(Fl::Raw, d, Nm::Str("X.Y.Z")),
                    0 => vm.open_dir(Fl::Raw, d, Nm::Str("SUB0")).map(|h| {
                        self.issued.push(('d', hnum(&h)));
                        let n = self.dirs.len();
                        let _ = put(&mut self.dirs, n, Some(h));
                    }),
                    1 => vm.close_dir(Fl::Raw, d),
                    2 => vm.find(Fl::Raw, d, Nm::Str("PRE0.DAT")).map(|_| ()),
                    3 => vm.iterate(Fl::Raw, d, &mut |_| {}),
                    4 => vm.iterate_lfn(Fl::Raw, d, &mut b, &mut |_, _| {}),
                    5 => vm.open_file(Fl::Raw, d, Nm::Str("STALE.NEW"), Mode::ReadWriteCreateOrAppend).map(|h| {
                        self.issued.push(('f', hnum(&h)));
                        let n = self.files.len();
                        let _ = put(&mut self.files, n, Some(h));
                    }),
                    6 => vm.delete(Fl::Raw, d, Nm::Str("PRE0.DAT")),
                    7 => vm.mkdir(Fl::Raw, d, Nm::Str("STALEDIR")),
                    _ => vm.open_dir(Fl::Raw, d, Nm::Str(".")).map(|h| {
                        self.issued.push(('d', hnum(&h)));
                        let n = self.dirs.len();
                        let _ = put(&mut self.dirs, n, Some(h));
                    }),
                };
                Exec::res(r, |_| Out::Unit)
            }
            Op::StaleVol { idx, act } => {
                if self.stale_vols.is_empty() {
                    return OpRes::Ok(Out::Skipped);
                }
                let v = self.stale_vols[*idx % self.stale_vols.len()];
                let r = match act % 3 {
                    0 => vm.open_root_dir(Fl::Raw, v).map(|h| {
                        self.issued.push(('d', hnum(&h)));
                        let n = self.dirs.len();
                        let _ = put(&mut self.dirs, n, Some(h));
                    }),
                    1 => vm.close_volume(Fl::Raw, v),
                    _ => vm.label(v).map(|_| ()),
                };
                Exec::res(r, |_| Out::Unit)
            }
            Op::Reentrant { ds, lfn } => {
                let Some(d) = slot(&self.dirs, *ds) else { return OpRes::Ok(Out::Skipped) };
                let f0 = self.files.iter().flatten().next().cloned();
                let v0 = self.vols.iter().flatten().next().cloned();
                let sf = self.stale_files.first().cloned();
                let mut probes: Vec<(String, Option<Ek>)> = Vec::new();
                let mut delivered = 0usize;
                let mut first = true;
                let mut run = |probes: &mut Vec<(String, Option<Ek>)>| {
                    let mut p = |n: &str, r: Result<(), crate::vm::E>| probes.push((n.to_string(), r.err().map(|e| ek(&e))));
                    let mut b = [0u8; 8];
                    let mut lb = [0u8; 32];
                    p("open_volume", vm.open_volume(Fl::Wrap, 0).map(|_| ()));
                    p("open_raw_volume", vm.open_volume(Fl::Raw, 1).map(|_| ()));
                    p("open_dir", vm.open_dir(Fl::Raw, d, Nm::Str(".")).map(|_| ()));
                    p("Directory::open_dir", vm.open_dir(Fl::Wrap, d, Nm::Str("SUB0")).map(|_| ()));
                    p("close_dir", vm.close_dir(Fl::Raw, d));
                    p("find_directory_entry", vm.find(Fl::Raw, d, Nm::Str("PRE0.DAT")).map(|_| ()));
                    p("Directory::find_directory_entry", vm.find(Fl::Wrap, d, Nm::Str("PRE0.DAT")).map(|_| ()));
                    p("iterate_dir", vm.iterate(Fl::Raw, d, &mut |_| {}));
                    p("Directory::iterate_dir", vm.iterate(Fl::Wrap, d, &mut |_| {}));
                    p("iterate_dir_lfn", vm.iterate_lfn(Fl::Raw, d, &mut lb, &mut |_, _| {}));
                    p("open_file_in_dir", vm.open_file(Fl::Raw, d, Nm::Str("REENT.NEW"), Mode::ReadWriteCreateOrTruncate).map(|_| ()));
                    p("Directory::open_file_in_dir", vm.open_file(Fl::Wrap, d, Nm::Str("PRE0.DAT"), Mode::ReadOnly).map(|_| ()));
                    p("delete_file_in_dir", vm.delete(Fl::Raw, d, Nm::Str("PRE0.DAT")));
                    p("Directory::delete_file_in_dir", vm.delete(Fl::Wrap, d, Nm::Str("PRE1.DAT")));
                    p("make_dir_in_dir", vm.mkdir(Fl::Raw, d, Nm::Str("REENTDIR")));
                    // ... and with names that are not valid 8.3 names (the lock comes first)
                    p("open_dir(invalid name)", vm.open_dir(Fl::Raw, d, Nm::Str("A*B")).map(|_| ()));
                    p("find_directory_entry(invalid name)", vm.find(Fl::Raw, d, Nm::Str("TOOLONGNAME.TXT")).map(|_| ()));
                    p("open_file_in_dir(invalid name)", vm.open_file(Fl::Raw, d, Nm::Str("A B"), Mode::ReadWriteCreate).map(|_| ()));
                    p("delete_file_in_dir(invalid name)", vm.delete(Fl::Raw, d, Nm::Str("A<B")));
                    p("Directory::delete_file_in_dir(invalid name)", vm.delete(Fl::Wrap, d, Nm::Str("A<B")));
                    p("make_dir_in_dir(invalid name)", vm.mkdir(Fl::Raw, d, Nm::Str("X.Y.Z")));
                    p("Directory::make_dir_in_dir", vm.mkdir(Fl::Wrap, d, Nm::Str("REENTDI2")));
                    if let Some(v) = v0 {
                        p("open_root_dir", vm.open_root_dir(Fl::Raw, v).map(|_| ()));
                        p("Volume::open_root_dir", vm.open_root_dir(Fl::Wrap, v).map(|_| ()));
                        p("close_volume", vm.close_volume(Fl::Raw, v));
                        p("get_root_volume_label", vm.label(v).map(|_| ()));
                    }
                    for (f, tagname) in [(f0, "open"), (sf, "stale")] {
                        if let Some(f) = f {
                            p(&format!("read[{}]", tagname), vm.read(Fl::Raw, f, &mut b).map(|_| ()));
                            p(&format!("File::read[{}]", tagname), vm.read(Fl::Wrap, f, &mut b).map(|_| ()));
                            p(&format!("write[{}]", tagname), vm.write(Fl::Raw, f, &[9, 9]).map(|_| ()));
                            p(&format!("File::write[{}]", tagname), vm.write(Fl::Wrap, f, &[9, 9]).map(|_| ()));
                            p(&format!("flush_file[{}]", tagname), vm.flush(Fl::Raw, f));
                            p(&format!("file_eof[{}]", tagname), vm.eof(Fl::Raw, f).map(|_| ()));
                            p(&format!("file_seek_from_start[{}]", tagname), vm.seek_start(Fl::Raw, f, 0));
                            p(&format!("file_seek_from_current[{}]", tagname), vm.seek_cur(Fl::Raw, f, 0));
                            p(&format!("file_seek_from_end[{}]", tagname), vm.seek_end(Fl::Raw, f, 0));
                            p(&format!("file_length[{}]", tagname), vm.length(Fl::Raw, f).map(|_| ()));
                            p(&format!("file_offset[{}]", tagname), vm.offset(Fl::Raw, f).map(|_| ()));
                            p(&format!("Seek::seek[{}]", tagname), vm.seek_io(f, SeekTo::Start(0)).map(|_| ()));
                            // the wrapper type and the embedded-io traits, every variant
                            p(&format!("Seek::seek(End)[{}]", tagname), vm.seek_io(f, SeekTo::End(0)).map(|_| ()));
                            p(&format!("Seek::seek(Current)[{}]", tagname), vm.seek_io(f, SeekTo::Current(0)).map(|_| ()));
                            p(&format!("Read::read[{}]", tagname), vm.read(Fl::Io, f, &mut b).map(|_| ()));
                            p(&format!("Write::write[{}]", tagname), vm.write(Fl::Io, f, &[9, 9]).map(|_| ()));
                            p(&format!("Write::flush[{}]", tagname), vm.flush(Fl::Io, f));
                            p(&format!("File::flush[{}]", tagname), vm.flush(Fl::Wrap, f));
                            p(&format!("File::seek_from_start[{}]", tagname), vm.seek_start(Fl::Wrap, f, 0));
                            p(&format!("File::seek_from_current[{}]", tagname), vm.seek_cur(Fl::Wrap, f, 0));
                            p(&format!("File::seek_from_end[{}]", tagname), vm.seek_end(Fl::Wrap, f, 0));
                            p(&format!("File::close[{}]", tagname), vm.close_file(Fl::Wrap, f));
                            p(&format!("close_file[{}]", tagname), vm.close_file(Fl::Raw, f));
                        }
                    }
                };
                let r = if *lfn {
                    let mut lb = vec![0u8; 64];
                    vm.iterate_lfn(Fl::Raw, d, &mut lb, &mut |_, _| {
                        delivered += 1;
                        if first {
                            first = false;
                            run(&mut probes);
                        }
                    })
                } else {
                    vm.iterate(Fl::Raw, d, &mut |_| {
                        delivered += 1;
                        if first {
                            first = false;
                            run(&mut probes);
                        }
                    })
                };
                Exec::res(r, |_| Out::Probe(probes, delivered))
            }
        }
    }
}

pub fn ops_json(ops: &[Op], results: &[OpRes], cap: usize) -> J {
    let mut a = Vec::new();
    let skip = ops.len().saturating_sub(cap);
    for (i, op) in ops.iter().enumerate().skip(skip) {
        let r = results.get(i).map(|r| r.short()).unwrap_or_default();
        a.push(J::s(format!("#{} {} => {}", i, op.describe(), r)));
    }
    J::Arr(a)
}
