//! History construction and the model-based checks (C01-C05, C07, C08, C16).

use super::engine::{Engine, Flags};
use super::gen::Profile;
use super::ops;
use crate::fsx::{self, Recipe};
use crate::json::J;
use crate::mkfs::{Fmt, FsInfoInit, Geom};
use crate::prng::Rng;
use crate::report::{self, Ctx, Evidence, Report};
use crate::vm::LIMITS;

#[derive(Clone, Debug)]
pub struct HistCfg {
    pub prop: String,
    pub seed: u64,
    pub index: u64,
    pub profile: Profile,
    pub limits: (usize, usize, usize),
    pub id_offset: u32,
    pub nops: usize,
    pub two_parts: bool,
    pub fat32: Option<bool>,
    pub max_spc: u32,
    pub recipe: Recipe,
    pub leave_free: Option<(u32, u32)>,
    pub force_two_fats: bool,
    pub fsinfo: Option<FsInfoInit>,
    /// add a directory FULLDIR whose slots are all taken, and open it as directory slot 1
    pub full_dir: bool,
    /// sanitizer legs only: the smallest FAT16 volume, and no further ops are issued after this
    /// instant (a budget on how much is explored, never a verdict)
    pub mini_deadline: Option<std::time::Instant>,
}

impl HistCfg {
    pub fn to_json(&self) -> J {
        J::obj()
            .set("check", self.prop.as_str())
            .set("seed", self.seed)
            .set("history_index", self.index)
            .set("profile", format!("{:?}", self.profile))
            .set("limits", format!("{:?}", self.limits))
            .set("id_offset", self.id_offset)
            .set("nops", self.nops)
            .set("recipe", format!("{:?}", self.recipe))
            .set("leave_free", format!("{:?}", self.leave_free))
    }
}

pub struct Built {
    pub img: crate::dev::Image,
    pub parts: Vec<Geom>,
}

/// Deterministic image for a history configuration.
pub fn build_image(cfg: &HistCfg) -> Built {
    let mut rng = Rng::from_parts(&[cfg.seed, cfg.index, 0x1337]);
    let mut g1 = Geom::random(&mut rng, cfg.fat32, cfg.max_spc);
    if cfg.mini_deadline.is_some() {
        let keep = (g1.part_slot, g1.part_start.min(2049), g1.nfats.min(2));
        g1 = Geom::base_fat16(4085 + rng.below(60) as u32, 1);
        g1.part_slot = keep.0;
        g1.part_start = keep.1;
        g1.nfats = keep.2;
    }
    if cfg.force_two_fats {
        g1.nfats = 2;
    }
    if cfg.prop == "C16" && g1.nfats > 2 {
        g1.nfats = 2;
    }
    if let Some(f) = &cfg.fsinfo {
        if g1.fat32 {
            g1.fsinfo = f.clone();
        }
    }
    if g1.part_start > 0x0100_0000 && cfg.two_parts {
        g1.part_start = 2048;
    }
    let mut parts = Vec::new();
    let mut f = Fmt::new(g1, Rng::new(rng.next_u64()));
    fsx::populate(&mut f, cfg.recipe, &mut rng);
    if cfg.full_dir && (f.g.fat32 || f.dir_capacity(0) - f.dirs[0].used >= 3) && f.g.spc <= if cfg.prop == "C09" || cfg.prop == "C10" { 64 } else { 8 } {
        let d = f.mkdir(0, &crate::mkfs::name11("FULLDIR"), 0, crate::mkfs::Alloc::Seq);
        let cap = f.dir_capacity(d);
        for i in 0..cap - 2 {
            // empty files: they take a slot but no cluster
            f.add_file(d, &crate::mkfs::name11(&format!("Z{}.E", i)), 0x20, &[], crate::mkfs::Alloc::Seq);
        }
    }
    if let Some((k, which)) = cfg.leave_free {
        f.fill_leaving(k, which);
    }
    let (mut img, g1, _) = f.finish();
    parts.push(g1.clone());
    if cfg.two_parts {
        let mut g2 = Geom::random(&mut rng, Some(false), 4);
        if cfg.prop == "C16" && g2.nfats > 2 {
            g2.nfats = 2;
        }
        // (now and then directly behind the first volume: what is written past its end lands in this one)
        g2.part_start = g1.part_end() + g1.mbr_len_extra + *rng.pick(&[0u32, 0, 17]);
        g2.part_slot = (g1.part_slot + 1 + rng.usize_below(3)) % 4;
        g2.neighbours = false;
        let mut f2 = Fmt::new_into(g2, Rng::new(rng.next_u64()), Some(img));
        fsx::populate(&mut f2, Recipe::Small, &mut rng);
        let (img2, g2, _) = f2.finish();
        img = img2;
        parts.push(g2);
    }
    Built { img, parts }
}

pub fn flags_for(prop: &str) -> Flags {
    let mut f = Flags { prop: prop.to_string(), ..Default::default() };
    match prop {
        "C02" => f.remount = true,
        "C03" => f.fsck = true,
        "C04" => f.writes = true,
        "C05" => f.space = true,
        "C16" => f.fat_meta = true,
        "C09" => f.obligations = true,
        _ => {}
    }
    f
}

pub fn cfg_for(prop: &str, seed: u64, index: u64) -> HistCfg {
    cfg_for_tier(prop, seed, index, false)
}

/// `thorough`: every fourth history is four times as long (accumulating errors), and larger
/// cluster sizes are used on FAT32 too.
pub fn cfg_for_tier(prop: &str, seed: u64, index: u64, thorough: bool) -> HistCfg {
    let mut rng = Rng::from_parts(&[seed, index, 0xC0F6, prop.bytes().fold(0u64, |a, b| a * 131 + b as u64)]);
    let profile = match prop {
        "C01" => *rng.pick(&[Profile::Rw, Profile::Rw, Profile::Rw, Profile::Mixed, Profile::Fill]),
        "C02" => *rng.pick(&[Profile::Dirs, Profile::Rw, Profile::Mixed, Profile::Grow, Profile::Fill]),
        "C03" => *rng.pick(&[Profile::Dirs, Profile::Fill, Profile::Mixed, Profile::Matrix, Profile::Grow]),
        "C04" => *rng.pick(&[Profile::Dirs, Profile::Fill, Profile::Rw, Profile::Mixed, Profile::Grow]),
        "C05" => *rng.pick(&[Profile::Fill, Profile::Fill, Profile::Dirs]),
        "C07" => *rng.pick(&[Profile::Matrix, Profile::Matrix, Profile::Dirs]),
        "C08" => Profile::Limits,
        "C16" => *rng.pick(&[Profile::Fill, Profile::Dirs, Profile::Rw, Profile::Grow]),
        _ => Profile::Mixed,
    };
    let edge = matches!(prop, "C03" | "C04" | "C05" | "C16") && index % 6 == 5;
    let profile = if edge { Profile::Edge } else { profile };
    let limits = if prop == "C08" || rng.chance(1, 3) { LIMITS[(index as usize) % LIMITS.len()] } else { (4, 4, 1) };
    let fat32 = match prop {
        "C16" => Some(index % 3 != 0),
        _ => Some(rng.chance(1, 4)),
    };
    let is_fat32 = fat32 == Some(true);
    let max_spc = if is_fat32 { if thorough { *rng.pick(&[1u32, 1, 2, 8, 16, 64]) } else { *rng.pick(&[1u32, 1, 2, 8]) } } else { *rng.pick(&[1u32, 1, 2, 4, 8, 8, 32, 128]) };
    let long = thorough && index % 4 == 0;
    let leave_free = match profile {
        Profile::Edge => Some((*rng.pick(&[0u32, 1, 1, 2, 3]), rng.below(3) as u32)),
        Profile::Fill => Some((*rng.pick(&[0u32, 1, 2, 3, 17, 130]), rng.below(3) as u32)),
        _ => {
            if rng.chance(1, 3) {
                Some((*rng.pick(&[5u32, 40, 300]), rng.below(3) as u32))
            } else {
                None
            }
        }
    };
    HistCfg {
        prop: prop.to_string(),
        seed,
        index,
        profile,
        limits,
        id_offset: *rng.pick(&[0u32, 5000, 5000, 0xFFFF_FFF0]),
        nops: (20 + rng.usize_below(if profile == Profile::Fill || profile == Profile::Grow { 300 } else { 180 })) * if long { 4 } else { 1 },
        two_parts: limits.2 >= 2 && rng.chance(1, 2),
        fat32,
        max_spc,
        recipe: *rng.pick(&[Recipe::Small, Recipe::Rich, Recipe::Rich, Recipe::Empty]),
        leave_free,
        force_two_fats: prop == "C16" && index % 2 == 0,
        fsinfo: None,
        full_dir: edge,
        mini_deadline: None,
    }
}

/// Run one history; returns the engine for inspection.
pub fn run_history(cfg: &HistCfg) -> Result<Engine, String> {
    let built = match report::catch(|| build_image(cfg)) {
        Ok(b) => b,
        Err((m, l)) => return Err(format!("image construction failed: {} at {} for {:?}", m, l, cfg)),
    };
    let mut case = cfg.to_json();
    case.put("geometry", J::Arr(built.parts.iter().map(|g| J::s(g.describe())).collect()));
    let mut e = Engine::new(built.img, built.parts, cfg.limits, cfg.id_offset, flags_for(&cfg.prop), case)?;
    let mut rng = Rng::from_parts(&[cfg.seed, cfg.index, 0x0b5]);
    for op in e.setup_ops(&mut rng) {
        e.step(op);
    }
    if cfg.full_dir {
        e.step(super::ops::Op::OpenDir { fl: crate::vm::Fl::Raw, parent: 0, name: "FULLDIR".into(), ds: 1 });
    }
    for _ in 0..cfg.nops {
        if e.aborted {
            break;
        }
        if cfg.mini_deadline.map(|d| std::time::Instant::now() > d).unwrap_or(false) {
            break;
        }
        let op = e.gen_op(&mut rng, cfg.profile);
        e.step(op);
    }
    if !e.aborted {
        e.teardown();
    } else {
        super::monitors::after_divergence(&mut e);
    }
    // final whole-medium comparison
    if !e.aborted && e.flags.remount {
        for vi in 0..e.vs.len() {
            super::monitors::medium_vs_model(&mut e, vi, true);
        }
    }
    Ok(e)
}

pub fn absorb(e: Engine, cfg: &HistCfg, rep: &mut Report, sample_cap: usize) {
    rep.evaluations += e.ops.len() as u64;
    for (k, n) in &e.counters {
        rep.count(k, *n);
    }
    rep.count("histories", 1);
    rep.count("device_block_writes", e.ex.disk.with(|s| s.nwrites));
    rep.count("device_block_reads", e.ex.disk.with(|s| s.nreads));
    if e.nontrivial {
        // distinct = geometry x op-kind sequence
        let mut h = e.vs.iter().fold(0u64, |a, v| crate::prng::mix(&[a, v.g.hash()]));
        for op in &e.ops {
            h = crate::prng::mix(&[h, crate::prng::hash_bytes(op.kind().as_bytes())]);
        }
        rep.distinct.insert(h);
    }
    if rep.samples.len() < sample_cap && e.viol.is_empty() && e.ops.len() > 10 {
        rep.samples.push(cfg.to_json().set("geometry", J::Arr(e.vs.iter().map(|v| J::s(v.g.describe())).collect())).set("ops", ops::ops_json(&e.ops, &e.results, 40)));
    }
    for v in e.viol {
        rep.violate(v);
    }
}

fn evidence_for(prop: &str) -> Evidence {
    let (rule, min) = match prop {
        "C08" => ("a case is one API history (geometry, limit configuration, id offset, op list drawn from the whole public API incl. wrappers and embedded-io adapters) executed against the real library with every result compared to the executable model's acceptable set, and the handle tables / re-entrancy probe compared call by call; distinct = distinct (geometry, op-kind sequence) hashes among histories that opened/closed handles or ran the probe", 50),
        _ => ("a case is one API history (geometry x pre-populated tree x limit configuration x seeded op list, 20..400 calls) executed against the real library; after every call the result is compared with the executable model's acceptable set, the length/offset/eof observers of all open files are compared, and the property's medium monitor runs on the raw image; 'evaluations' counts API calls; distinct = distinct (geometry, op-kind sequence) hashes among histories that performed at least one successful data or namespace operation", 50),
    };
    let specific = match prop {
        "C01" => " Monitor of this check: every read (count and bytes), seek, length/offset/eof answer of every open file vs the byte-array model, through raw, wrapper and embedded-io flavours.",
        "C02" => " Monitor of this check: after each flush/close/delete/mkdir the raw image is walked by the independent reader and (on closes) mounted by a fresh VolumeManager and compared with the model (observed.medium_comparisons, files_compared_on_medium, library_remounts); plus the U+00E5 first-character scenario.",
        "C03" => " Monitor of this check: independent fsck of the raw image after every call that wrote (observed.fsck_after_call).",
        "C04" => " Monitor of this check: every logged block write judged against the pre-write image (observed.block_writes_total).",
        "C05" => " Monitor of this check: exact capacity prediction per write/create/mkdir from the independent free count, and allocated-vs-reachable comparison whenever no file is open (observed.leak_checks).",
        "C07" => " Monitor of this check: result variant vs acceptable set for each (mode x target) cell (observed 'cell ...' counters), post-state, and no block write on refused calls.",
        "C08" => " Monitor of this check: handle distinctness, stale-handle uses, limits per configuration, close_volume rules, has_open_handles, and the re-entrancy probe calling every Result-returning method from inside callbacks (observed.reentrant_probe_calls).",
        "C16" => " Monitor of this check: byte comparison of all FAT copies after each writing call (observed.fat_copy_comparisons), FSInfo count/hint vs independent FAT scan after flush/close (observed.fsinfo_checks), twin runs with stale records (observed.stale_fsinfo_twin_runs).",
        _ => "",
    };
    let rule = format!("{}{}", rule, specific);
    Evidence {
        level: "exploration",
        rule,
        assumptions: vec![
            "independent reader/formatter (fatref/mkfs) and the executable model are correct (cross-validated in selftest; model validated by silence on the unchanged tree and by seeded mutants)".into(),
            "harness built with overflow-checks and debug-assertions; panics inside the library are caught per call".into(),
            "block writes are applied atomically and in issue order by the simulated device".into(),
        ],
        exhaustive: None,
        extra: vec![],
        min_distinct: min,
        min_counters: match prop {
            "C01" => vec![("huge_file_scenarios", 10), ("huge_file_writes_across_the_limit", 5)],
            "C02" => vec![("medium_comparisons", 200), ("library_remounts", 50), ("files_compared_on_medium", 500), ("huge_file_media_confirmed", 10)],
            "C03" => vec![("fsck_after_call", 1000)],
            "C04" => vec![("block_writes_total", 5000)],
            "C05" => vec![("leak_checks", 200), ("write=DiskFull", 20)],
            "C08" => vec![("reentrant_probe_calls", 20), ("stale file handle=BadHandle", 50), ("open_file_in_dir=TooManyOpenFiles", 10), ("open_root_dir=TooManyOpenDirs", 10)],
            "C16" => vec![("fat_copy_comparisons", 500), ("fsinfo_checks", 50), ("stale_fsinfo_twin_runs", 5)],
            _ => vec![],
        },
    }
}

/// Reduced workload for the Miri / sanitizer legs: no threads, no evidence file, small volumes.
/// argv: --leg mini --n <histories> --shard k
fn run_mini(ctx: &Ctx, prop: &str) -> i32 {
    let n = ctx.arg_u64("n").unwrap_or(2);
    let shard = ctx.arg_u64("shard").unwrap_or(0);
    let mut evaluations = 0u64;
    let mut violations = 0u64;
    for i in 0..n {
        let mut cfg = cfg_for(prop, ctx.seed, 1_000_000 + shard * 1000 + i);
        cfg.fat32 = Some(false);
        cfg.max_spc = 1;
        cfg.two_parts = false;
        cfg.recipe = Recipe::Empty;
        cfg.leave_free = None;
        cfg.nops = ctx.arg_u64("ops").unwrap_or(60) as usize;
        cfg.full_dir = false;
        // budget per process: 100 s of issuing ops in the quick tier, 15 min in the thorough one
        let budget = ctx.arg_u64("budget").unwrap_or(100);
        cfg.mini_deadline = Some(ctx.start + std::time::Duration::from_secs(budget));
        if cfg.profile == Profile::Edge {
            cfg.profile = Profile::Mixed;
        }
        cfg.limits = LIMITS[((shard * 7 + i) as usize) % LIMITS.len()];
        match run_history(&cfg) {
            Ok(e) => {
                evaluations += e.ops.len() as u64;
                for v in e.viol.iter().filter(|v| v.prop == prop) {
                    // known findings are filtered by the driver
                    println!("MINI-VIOLATION {} :: {}", v.sig, v.msg);
                    violations += 1;
                }
            }
            Err(er) => println!("MINI-INCONCLUSIVE {}", er),
        }
    }
    println!("MINI-DONE evaluations={} violations={}", evaluations, violations);
    if violations > 0 {
        1
    } else {
        0
    }
}

/// C02 scenario outside the model's name alphabet: a name whose first character is U+00E5.
/// Its Latin-1 byte 0xE5 is the "deleted entry" marker; the specification stores 0x05 instead.
fn e5_scenario(seed: u64, i: u64, rep: &mut Report) {
    use crate::vm::{Fl, Nm};
    let mut rng = Rng::from_parts(&[seed, i, 0xE5]);
    let g = Geom::random(&mut rng, Some(i % 2 == 0), 4);
    let b = fsx::build(g, Recipe::Small, None, &mut rng);
    let m = fsx::mount_image(b.img, (4, 4, 1), 5000);
    let name = if i % 3 == 0 { "\u{e5}B.TXT" } else { "\u{e5}" };
    let content = fsx::payload(77 + i as u32, 0, 700);
    let r = report::catch(|| -> Result<(), crate::vm::E> {
        let v = m.vm.open_volume(Fl::Raw, b.g.part_slot)?;
        let d = m.vm.open_root_dir(Fl::Raw, v)?;
        let f = m.vm.open_file(Fl::Raw, d, Nm::Str(name), embedded_sdmmc::Mode::ReadWriteCreate)?;
        m.vm.write(Fl::Raw, f, &content)?;
        m.vm.close_file(Fl::Raw, f)?;
        m.vm.close_dir(Fl::Raw, d)?;
        m.vm.close_volume(Fl::Raw, v)
    });
    rep.evaluations += 1;
    let case = J::obj().set("scenario", "name starting with U+00E5").set("geometry", b.g.describe()).set("name", name);
    match r {
        Ok(Ok(())) => {}
        other => {
            rep.violate(crate::report::Violation::new("C02", "C02.missing", "open_file_in_dir", "first name byte 0xE5 (create failed)", format!("creating {:?} failed: {:?}", name, other.map(|x| x.map_err(|e| crate::vm::ek(&e)))), case));
            return;
        }
    }
    let img = m.disk.image();
    let Ok(snap) = crate::fatref::Snap::open(&img, b.g.part_slot) else { return };
    let w = snap.walk();
    let found = w.nodes.iter().find(|n| {
        let nm = n.slot.name();
        !n.path.contains('/') && (nm[0] == 0x05 || nm[0] == 0xC5 || nm[0] == 0xE5) && (name.len() <= 2 || nm[1] == b'B') && n.size == 700
    });
    match found {
        Some(n) if snap.read_chain_bytes(&n.chain, n.size) == content => rep.count("e5_names_found_after_remount", 1),
        _ => rep.violate(crate::report::Violation::new("C02", "C02.missing", "close_file", "first name byte 0xE5", format!("file {:?} was created, written and closed, but a fresh reader of the medium finds no such live entry (first byte 0xE5 reads as deleted)", name), case)),
    }
}

/// C16: the same op list on a twin image whose FSInfo record is stale / out of range must give
/// the same results and never panic.
fn stale_fsinfo_twin(cfg: &HistCfg, golden: &Engine, rep: &mut Report) {
    use super::ops::Exec;
    use crate::vm::{make_vm, Clock};
    let mut rng = Rng::from_parts(&[cfg.seed, cfg.index, 0x57A1]);
    let variants = [
        FsInfoInit::Custom { count: 0, hint: 0xFFFF_FFFF },
        FsInfoInit::Custom { count: 0xFFFF_FFFE, hint: 2 },
        FsInfoInit::Custom { count: 7, hint: 0 },
        FsInfoInit::Custom { count: 1, hint: 1 },
        FsInfoInit::Custom { count: 0x0FFF_FFFF, hint: 0x0FFF_FFF8 },
        FsInfoInit::Custom { count: rng.next_u32(), hint: rng.next_u32() },
        FsInfoInit::Custom { count: 0xFFFF_FFFF, hint: 0xFFFF_FFF0 },
        FsInfoInit::Unknown,
    ];
    let fsinfo = variants[(cfg.index as usize / 5) % variants.len()].clone();
    let mut c2 = cfg.clone();
    c2.fsinfo = Some(fsinfo.clone());
    let built = match report::catch(|| build_image(&c2)) {
        Ok(b) => b,
        Err(_) => return,
    };
    if !built.parts[0].fat32 {
        return;
    }
    let hint = match &fsinfo {
        FsInfoInit::Custom { hint, .. } => *hint,
        _ => 0xFFFF_FFFF,
    };
    let disk = crate::dev::Disk::new(built.img);
    disk.with(|s| s.record_writes = false);
    let clock = Clock::new(1000);
    let vm = make_vm(cfg.limits, disk.clone(), clock.clone(), cfg.id_offset);
    let mut ex = Exec::new(vm, disk, clock);
    let case = cfg.to_json().set("twin_fsinfo", format!("{:?}", fsinfo)).set("geometry", built.parts[0].describe());
    for (i, op) in golden.ops.iter().enumerate() {
        let r = ex.exec(op);
        rep.evaluations += 1;
        if let super::ops::OpRes::Panic(m, l) = &r {
            rep.violate(crate::report::Violation::new("C16", "C16.panic", op.kind(), &crate::report::short_loc(l), format!("op #{} {} panicked on the twin volume with FSInfo {:?}: '{}' at {}", i, op.describe(), fsinfo, m, crate::report::short_loc(l)), case.clone()));
            return;
        }
        if golden.results.get(i) != Some(&r) {
            // the allocator may pick different clusters, which shows in entry views (start cluster) only
            let same_kind = match (golden.results.get(i), &r) {
                (Some(super::ops::OpRes::Ok(super::ops::Out::Entry(_))), super::ops::OpRes::Ok(super::ops::Out::Entry(_))) => true,
                (Some(super::ops::OpRes::Ok(super::ops::Out::Listing(a))), super::ops::OpRes::Ok(super::ops::Out::Listing(b))) => a.len() == b.len(),
                (Some(super::ops::OpRes::Ok(super::ops::Out::ListingLfn(a))), super::ops::OpRes::Ok(super::ops::Out::ListingLfn(b))) => a.len() == b.len(),
                _ => false,
            };
            if !same_kind {
                rep.violate(crate::report::Violation::new(
                    "C16",
                    "C16.stale-diverges",
                    op.kind(),
                    &format!("hint {}", if hint == 0xFFFF_FFFF { "unknown" } else if hint < 2 { "below 2" } else { "other" }),
                    format!("op #{} {}: {} with a correct FSInfo record, {} with {:?}", i, op.describe(), golden.results[i].short(), r.short(), fsinfo),
                    case.clone(),
                ));
                return;
            }
        }
    }
    rep.count("stale_fsinfo_twin_runs", 1);
}

pub fn run_model_check(ctx: &Ctx, prop: &str, quick_n: usize, thorough_n: usize) -> i32 {
    if ctx.arg("leg") == Some("mini") {
        return run_mini(ctx, prop);
    }
    if let Some(rp) = &ctx.replay {
        let idx = rp.get("case").and_then(|c| c.get("history_index")).and_then(|x| x.as_u64()).unwrap_or(0);
        let cfg = cfg_for_tier(prop, ctx.seed, idx, !ctx.quick());
        let mut rep = Report::new();
        match run_history(&cfg) {
            Ok(e) => {
                println!("replaying history {} ({} ops)", idx, e.ops.len());
                for (i, op) in e.ops.iter().enumerate() {
                    println!("  #{} {} => {}", i, op.describe(), e.results.get(i).map(|r| r.short()).unwrap_or_default());
                }
                absorb(e, &cfg, &mut rep, 0);
            }
            Err(er) => rep.inconclusive.push(er),
        }
        rep.distinct_extra = 2;
        return report::finish(ctx, rep, evidence_for(prop));
    }
    let n = ctx.arg_u64("histories").map(|x| x as usize).unwrap_or(ctx.pick(quick_n, thorough_n));
    let total = report::parallel(ctx.threads, n, |i, rep| {
        let cfg = cfg_for_tier(prop, ctx.seed, i as u64, !ctx.quick());
        match run_history(&cfg) {
            Ok(e) => {
                if prop == "C16" && i % 5 == 0 && cfg.fat32 == Some(true) && !e.aborted && !cfg.two_parts {
                    stale_fsinfo_twin(&cfg, &e, rep);
                }
                absorb(e, &cfg, rep, 2)
            }
            Err(er) => rep.inconclusive.push(format!("history {}: {}", i, er)),
        }
        if (prop == "C01" || prop == "C02") && i % 25 == 0 {
            super::huge::scenario(prop, ctx.seed, i as u64, rep);
        }
        if prop == "C02" && i % 40 == 0 {
            e5_scenario(ctx.seed, i as u64, rep);
        }
    });
    report::finish(ctx, total, evidence_for(prop))
}
