//! C09 / C10 – power loss after every block write: every prefix of the write log is rebuilt,
//! read by the independent checker and re-mounted by the library.

use super::engine::Engine;
use super::gen::Profile;
use super::run::{build_image, flags_for, HistCfg};
use crate::dev::Image;
use crate::fatref::{self, FsckMode, Snap};
use crate::fsx::{self, Recipe};
use crate::json::J;
use crate::prng::Rng;
use crate::report::{self, Ctx, Evidence, Report, Violation};
use crate::vm::{Fl, Nm};
use std::cell::RefCell;
use std::rc::Rc;

fn crash_cfg(prop: &str, seed: u64, index: u64) -> HistCfg {
    let mut rng = Rng::from_parts(&[seed, index, 0xC7A5, prop.len() as u64 + prop.as_bytes()[2] as u64]);
    let fat32 = rng.chance(1, 5);
    let edge = index % 8 == 7;
    HistCfg {
        prop: prop.to_string(),
        seed,
        index,
        profile: if edge { Profile::Edge } else { *rng.pick(&[Profile::Dirs, Profile::Dirs, Profile::Mixed, Profile::Fill, Profile::Grow]) },
        limits: (4, 4, 1),
        id_offset: 5000,
        nops: 15 + rng.usize_below(90),
        two_parts: false,
        fat32: Some(fat32),
        max_spc: if edge { *rng.pick(&[2u32, 8, 16, 32, 64]) } else { *rng.pick(&[1u32, 1, 2, 4, 4, 16]) },
        recipe: *rng.pick(&[Recipe::Small, Recipe::Rich, Recipe::Empty]),
        leave_free: if edge { Some((*rng.pick(&[0u32, 1, 2, 3]), rng.below(3) as u32)) } else if rng.chance(1, 3) { Some((*rng.pick(&[2u32, 6, 30]), rng.below(3) as u32)) } else { None },
        force_two_fats: false,
        fsinfo: None,
        full_dir: edge,
        mini_deadline: None,
    }
}

const C10_RULES: &[&str] = &["start-range", "chain-free", "chain-bad", "chain-range", "cycle", "crosslink", "subdir-cluster0"];

fn c10_rule_id(r: &str) -> &'static str {
    match r {
        "start-range" | "chain-range" => "C10.live-range",
        "chain-free" => "C10.live-free",
        "chain-bad" => "C10.live-bad",
        "cycle" => "C10.cycle",
        "crosslink" => "C10.crosslink",
        _ => "C10.subdir-cluster0",
    }
}

pub fn one_history(prop: &str, cfg: &HistCfg, library_every: usize, rep: &mut Report) {
    let built = match report::catch(|| build_image(cfg)) {
        Ok(b) => b,
        Err((m, _)) => {
            rep.inconclusive.push(format!("image construction failed: {}", m));
            return;
        }
    };
    let initial = built.img.clone();
    let part = built.parts[0].part_slot;
    let mut case = cfg.to_json();
    case.put("geometry", built.parts[0].describe());
    let mut e = match Engine::new(built.img, built.parts.clone(), cfg.limits, cfg.id_offset, flags_for(if prop == "C09" { "C09" } else { "C10" }), case.clone()) {
        Ok(e) => e,
        Err(er) => {
            rep.inconclusive.push(er);
            return;
        }
    };
    e.flags.obligations = true;
    let mut rng = Rng::from_parts(&[cfg.seed, cfg.index, 0x0b5]);
    for op in e.setup_ops(&mut rng) {
        e.step(op);
    }
    if cfg.full_dir {
        // (refused harmlessly where the image has no such directory)
        e.step(super::ops::Op::OpenDir { fl: crate::vm::Fl::Raw, parent: 0, name: "FULLDIR".into(), ds: 1 });
    }
    for _ in 0..cfg.nops {
        if e.aborted {
            break;
        }
        let op = e.gen_op(&mut rng, cfg.profile);
        e.step(op);
    }
    if !e.aborted {
        e.teardown();
    }
    // a model-level problem in the fault-free run is some other property's business; the log up to
    // there is still a valid sequence of block writes
    let log: Vec<(u32, u32, Box<[u8; 512]>)> = e.ex.disk.with(|s| s.log.iter().map(|r| (r.op, r.idx, r.data.clone())).collect());
    let n = log.len();
    rep.count("histories", 1);
    rep.count("block_writes_logged", n as u64);
    if n == 0 {
        return;
    }
    let img = Rc::new(RefCell::new(initial));
    let geom_hash = built.parts[0].hash();
    let mut kind_hash = 0u64;
    let mut last_op = 0u32;
    let mut ord_in_op = 0usize;
    let obligations = e.obligations.clone();
    for k in 0..=n {
        // prefix k = the first k writes reached the medium
        if k > 0 {
            let (op, idx, data) = &log[k - 1];
            img.borrow_mut().write(*idx, data);
            if *op != last_op {
                last_op = *op;
                ord_in_op = 0;
                let kind = e.ops.get(*op as usize - 1).map(|o| o.kind()).unwrap_or("?");
                kind_hash = crate::prng::mix(&[kind_hash, crate::prng::hash_bytes(kind.as_bytes())]);
            }
            ord_in_op += 1;
        }
        let opkind = if k == 0 { "before any write" } else { e.ops.get(last_op as usize - 1).map(|o| o.kind()).unwrap_or("?") };
        let opdesc = if k == 0 { String::new() } else { e.ops.get(last_op as usize - 1).map(|o| o.describe()).unwrap_or_default() };
        let mk_case = |case: &J| {
            let mut c = case.clone();
            c.put("crash_after_log_entry", k);
            c.put("write_ordinal_in_call", ord_in_op);
            c.put("call", opdesc.clone());
            c
        };
        rep.evaluations += 1;
        if std::env::var_os("SDV_TRACE").is_some() {
            eprintln!("crash prefix {}/{} during {}", k, n, opdesc);
        }
        rep.distinct.insert(crate::prng::mix(&[geom_hash, kind_hash, ord_in_op as u64]));
        let b = img.borrow();
        let snap = match Snap::open(&*b, part) {
            Ok(s) => s,
            Err(er) => {
                rep.violate(Violation::new(prop, &format!("{}.nomount", prop), opkind, &format!("crash after write #{} of the call", ord_in_op), format!("crash image {} of {} does not mount: {}", k, n, er), mk_case(&case)));
                return;
            }
        };
        if prop == "C10" {
            let (out, _w) = fatref::fsck(&snap, &[], FsckMode::Crash);
            if let Some(f) = out.findings.iter().find(|f| C10_RULES.contains(&f.rule)) {
                rep.violate(Violation::new("C10", c10_rule_id(f.rule), opkind, &format!("crash after write #{} of the call", ord_in_op), format!("crash image {}/{} ({}): {}: {}", k, n, opdesc, f.path, f.detail), mk_case(&case)));
                return;
            }
            if let Some((c, v, live)) = out.lost_dangling.first() {
                rep.violate(Violation::new("C10", if *live { "C10.crosslink" } else { "C10.live-free" }, opkind, &format!("unreferenced chain, crash after write #{} of the call", ord_in_op), format!("crash image {}/{} ({}): cluster {} is allocated but referenced by nothing, and links to cluster {} which is {} - not mere lost space: the next allocation or a repair makes two chains share a cluster", k, n, opdesc, c, v, if *live { "part of a live chain" } else { "free" }), mk_case(&case)));
                return;
            }
            if let Some((p, blk, off)) = out.junk_in_extent.first() {
                rep.violate(Violation::new("C10", "C10.junk-exposed", opkind, &format!("behind the end marker, crash after write #{} of the call", ord_in_op), format!("crash image {}/{} ({}): a cluster of directory '{}' still holds uninitialised contents (block {} offset {}) behind the end marker: they turn into entries as soon as the slots before them are used up", k, n, opdesc, p, blk, off), mk_case(&case)));
                return;
            }
            if let Some((p, blk, off)) = out.junk_exposed.first() {
                rep.violate(Violation::new("C10", "C10.junk-exposed", opkind, &format!("crash after write #{} of the call", ord_in_op), format!("crash image {}/{} ({}): directory '{}' lists uninitialised cluster contents as an entry (block {} offset {})", k, n, opdesc, p, blk, off), mk_case(&case)));
                return;
            }
            rep.count("crash_images_checked", 1);
        } else {
            // C09: every active obligation must be readable
            let w = snap.walk();
            let idx = fatref::by_path(&w);
            for o in obligations.iter().filter(|o| o.from_log <= k && k <= o.until_log.unwrap_or(n)) {
                let made = e.ops.get(o.made_by_op).map(|x| x.kind()).unwrap_or("?");
                let detail = format!("flushed by {}, crash during {}", made, opkind);
                match idx.get(&o.path) {
                    None => {
                        rep.violate(Violation::new("C09", "C09.lost", opkind, &detail, format!("crash image {}/{} ({} write #{}): {} (flushed with {} bytes at log position {}) is gone", k, n, opdesc, ord_in_op, o.path, o.len, o.from_log), mk_case(&case)));
                        return;
                    }
                    Some(&i) => {
                        let x = &w.nodes[i];
                        if x.size < o.len {
                            rep.violate(Violation::new("C09", "C09.short", opkind, &detail, format!("crash image {}/{} ({} write #{}): {} has {} bytes, {} were flushed", k, n, opdesc, ord_in_op, o.path, x.size, o.len), mk_case(&case)));
                            return;
                        }
                        let got = snap.read_chain_bytes(&x.chain, o.len);
                        if got != o.data {
                            let at = got.iter().zip(o.data.iter()).position(|(a, b)| a != b).unwrap_or(got.len());
                            rep.violate(Violation::new("C09", "C09.bytes", opkind, &detail, format!("crash image {}/{} ({} write #{}): {} differs from its flushed contents at byte {}", k, n, opdesc, ord_in_op, o.path, at), mk_case(&case)));
                            return;
                        }
                        rep.count("obligation_checks", 1);
                    }
                }
            }
        }
        drop(snap);
        drop(b);
        // the library itself must mount the crash image (and, for C09, read the files)
        if std::env::var_os("SDV_TRACE").is_some() {
            eprintln!("  reference done");
        }
        if k % library_every == 0 || k == n {
            let (vm, _ro) = fsx::mount_ro(img.clone());
            let active: Vec<_> = obligations.iter().filter(|o| prop == "C09" && o.from_log <= k && k <= o.until_log.unwrap_or(n)).cloned().collect();
            let r = report::catch(|| -> Result<Option<String>, crate::vm::E> {
                let v = vm.open_volume(Fl::Raw, part)?;
                let d = vm.open_root_dir(Fl::Raw, v)?;
                let _ = fsx::list_dir(&*vm, d)?;
                vm.close_dir(Fl::Raw, d)?;
                for o in &active {
                    let (dir, name) = match o.path.rsplit_once('/') {
                        Some((d, n)) => (d.to_string(), n.to_string()),
                        None => (String::new(), o.path.clone()),
                    };
                    let d = fsx::open_path(&*vm, v, &dir)?;
                    let data = fsx::read_all(&*vm, d, Nm::Str(&name), 4096)?;
                    vm.close_dir(Fl::Raw, d)?;
                    if data.len() < o.len as usize || data[..o.len as usize] != o.data[..] {
                        return Ok(Some(format!("{} reads back {} bytes, flushed {} (contents {})", o.path, data.len(), o.len, if data.len() >= o.len as usize { "differ" } else { "short" })));
                    }
                }
                Ok(None)
            });
            let detail = format!("library re-mount, crash after write #{} of the call", ord_in_op);
            match r {
                Ok(Ok(None)) => rep.count("library_remounts", 1),
                Ok(Ok(Some(msg))) => {
                    rep.violate(Violation::new("C09", "C09.bytes", opkind, &detail, format!("crash image {}/{} ({}): fresh library mount: {}", k, n, opdesc, msg), mk_case(&case)));
                    return;
                }
                Ok(Err(er)) => {
                    rep.violate(Violation::new(prop, &format!("{}.nomount", prop), opkind, &detail, format!("crash image {}/{} ({}): fresh library mount fails with {:?}", k, n, opdesc, er), mk_case(&case)));
                    return;
                }
                Err((pm, loc)) => {
                    rep.violate(Violation::new(prop, &format!("{}.nomount", prop), opkind, &detail, format!("crash image {}/{} ({}): fresh library mount panics: {} at {}", k, n, opdesc, pm, report::short_loc(&loc)), mk_case(&case)));
                    return;
                }
            }
        }
    }
    if prop == "C09" {
        rep.count("obligations", obligations.len() as u64);
    }
    if rep.samples.len() < 2 {
        rep.samples.push(
            cfg.to_json()
                .set("geometry", built.parts[0].describe())
                .set("block_writes", n)
                .set("crash_images", n + 1)
                .set("obligations", J::Arr(obligations.iter().take(6).map(|o| J::s(format!("{} len {} active over log [{}, {}]", o.path, o.len, o.from_log, o.until_log.map(|x| x.to_string()).unwrap_or_else(|| "end".into())))).collect()))
                .set("ops", super::ops::ops_json(&e.ops, &e.results, 30)),
        );
    }
    let _ = Image::new(1);
}

pub fn run(ctx: &Ctx, prop: &'static str) -> i32 {
    let library_every = ctx.pick(4usize, 1usize);
    let ev = || Evidence {
        level: "fault_enumeration",
        rule: "a case is one crash image: a seeded API history is run fault-free against the logging device, then EVERY prefix of its block-write log (0..N writes applied to the initial image, writes atomic and in issue order) is rebuilt and examined by the independent checker and by a freshly mounted library; distinct = distinct (geometry, op-kind sequence up to the interrupted call, write ordinal inside the call); all prefixes are enumerated, none sampled".into(),
        assumptions: vec![
            "block writes are atomic and reach the medium in issue order (stated by the property)".into(),
            "free data clusters of the initial image are pre-filled with junk records that look like live directory entries, so uninitialised contents are visible".into(),
            "independent reader/fsck is correct (selftest)".into(),
        ],
        exhaustive: Some(true),
        extra: vec![("exhaustive_scope".into(), J::s("every write boundary of every history run; histories themselves are sampled"))],
        min_distinct: 100,
        min_counters: if prop == "C09" { vec![("obligation_checks", 1000), ("library_remounts", 100)] } else { vec![("crash_images_checked", 1000), ("library_remounts", 100)] },
    };
    if let Some(rp) = &ctx.replay {
        let idx = rp.get("case").and_then(|c| c.get("history_index")).and_then(|x| x.as_u64()).unwrap_or(0);
        let mut rep = Report::new();
        one_history(prop, &crash_cfg(prop, ctx.seed, idx), 1, &mut rep);
        rep.distinct_extra += 100;
        return report::finish(ctx, rep, ev());
    }
    let n = ctx.arg_u64("histories").map(|x| x as usize).unwrap_or(ctx.pick(3000usize, 60_000usize));
    let total = report::parallel(ctx.threads, n, |i, rep| {
        one_history(prop, &crash_cfg(prop, ctx.seed, i as u64), library_every, rep);
    });
    report::finish(ctx, total, ev())
}
