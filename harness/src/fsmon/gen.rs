//! Hostile op generation from the model's current state.

use super::engine::Engine;
use super::model::Kind;
use super::ops::Op;
use crate::prng::Rng;
use crate::vm::{Fl, SeekTo};
use embedded_sdmmc::Mode;

#[derive(Clone, Copy, Debug, PartialEq)]
pub enum Profile {
    /// read/write/seek on several open files
    Rw,
    /// create / delete / mkdir / listings
    Dirs,
    /// drive the volume to "no free cluster" and back
    Fill,
    /// open to the limits and beyond, stale handles, re-entrancy
    Limits,
    /// the open-mode x target matrix
    Matrix,
    Mixed,
    /// keep adding entries to one directory until it has to grow (several times)
    Grow,
    /// mkdir / create inside a directory that is exactly full, on a volume with 0-3 free clusters
    Edge,
}

pub const MODES: [Mode; 6] = [Mode::ReadOnly, Mode::ReadWriteAppend, Mode::ReadWriteTruncate, Mode::ReadWriteCreate, Mode::ReadWriteCreateOrTruncate, Mode::ReadWriteCreateOrAppend];

const VALID_NAMES: &[&str] = &["F0.DAT", "F1.DAT", "F2.DAT", "F3.DAT", "f4.dat", "F5", "PRE0.DAT", "PRE1.DAT", "PRE2.DAT", "RO.DAT", "HIDSYS.DAT", "INSUB.DAT", "EMPTY.DAT", "LEAF.BIN", "\u{c9}T\u{c9}.\u{a3}", "E5.DAT", "E10.DAT", "TOP.DAT", "INRO.DAT", "OLDLFN~1.TXT", "OLDLFN~1.TXT"];
const DIR_NAMES: &[&str] = &["SUB0", "SUB1", "DEEP", "NEWDIR0", "NEWDIR1", "nd2", "BIGDIR", ".", "..", "RODIR", "HIDDIR"];
const BAD_NAMES: &[&str] = &["TOOLONGNAME.TXT", "A B", "X*Y", "A.B.C", "\u{100}B", "A.TOOL", ".A", "A<B", "NAME.EX\u{1}"];

fn pick_fl(rng: &mut Rng) -> Fl {
    match rng.below(6) {
        0 => Fl::Wrap,
        1 => Fl::Io,
        _ => Fl::Raw,
    }
}

fn free_slot<T>(v: &[Option<T>], max: usize) -> usize {
    for i in 0..max {
        if v.get(i).map(|x| x.is_none()).unwrap_or(true) {
            return i;
        }
    }
    max // one beyond: the library must refuse
}

fn open_idx<T>(v: &[Option<T>], rng: &mut Rng) -> Option<usize> {
    let o: Vec<usize> = v.iter().enumerate().filter(|(_, x)| x.is_some()).map(|(i, _)| i).collect();
    if o.is_empty() {
        None
    } else {
        Some(*rng.pick(&o))
    }
}

pub fn snap_len(rng: &mut Rng, cb: u32) -> usize {
    let v = match rng.below(14) {
        0 => 0,
        1 => 1,
        2 => 511,
        3 => 512,
        4 => 513,
        5 => cb - 1,
        6 => cb,
        7 => cb + 1,
        8 => 2 * cb + 3,
        9 => 3 * cb,
        10 => 5 * cb - 1,
        11 => rng.below(2 * cb as u64 + 2) as u32,
        _ => rng.below(1500) as u32,
    };
    (v as usize).min(260_000)
}

fn pick_name(rng: &mut Rng, e: &Engine, dir: usize, want_existing: u64) -> String {
    // mostly names that exist in that directory, sometimes fresh or invalid ones
    let kids: Vec<usize> = e.m.nodes[dir].children.iter().cloned().filter(|&c| e.m.nodes[c].exists && e.m.nodes[c].kind != Kind::Opaque).collect();
    if !kids.is_empty() && rng.below(100) < want_existing {
        let c = *rng.pick(&kids);
        let nm = crate::fatref::display_name(&e.m.nodes[c].name);
        if super::model::key_of(&nm).is_ok() {
            return nm;
        }
    }
    // names that used to exist here (deleted files): a new file under an old name takes the old slot
    let gone: Vec<usize> = (0..e.m.nodes.len()).filter(|&c| !e.m.nodes[c].exists && e.m.nodes[c].kind == Kind::File && e.m.nodes[c].parent == Some(dir)).collect();
    if !gone.is_empty() && rng.chance(1, 4) {
        let nm = crate::fatref::display_name(&e.m.nodes[*rng.pick(&gone)].name);
        if super::model::key_of(&nm).is_ok() {
            return nm;
        }
    }
    match rng.below(12) {
        0 => rng.pick(BAD_NAMES).to_string(),
        1 | 2 => rng.pick(DIR_NAMES).to_string(),
        _ => rng.pick(VALID_NAMES).to_string(),
    }
}

impl Engine {
    pub fn cluster_bytes_of_file(&self, fs: usize) -> u32 {
        let hf = self.m.hfiles[fs].as_ref().unwrap();
        let vi = self.vstate_of_mvol(hf.vol);
        self.vs[vi].vol.cluster_bytes()
    }

    /// Ops that bring the engine to "every partition open (as far as limits allow), root open".
    pub fn setup_ops(&self, rng: &mut Rng) -> Vec<Op> {
        let mut v = Vec::new();
        let maxv = self.m.limits.2;
        for (i, vs) in self.vs.iter().enumerate() {
            if i >= maxv {
                break;
            }
            v.push(Op::OpenVol { fl: pick_fl(rng), part: vs.g.part_slot, vs: i });
        }
        v.push(Op::OpenRoot { fl: pick_fl(rng), vs: 0, ds: 0 });
        v
    }

    pub fn gen_op(&self, rng: &mut Rng, profile: Profile) -> Op {
        let (maxd, maxf, maxv) = self.m.limits;
        let (nv, nd, nf) = self.m.open_counts();
        // weights: [open_file, close_file, read, write, seek, flush, delete, mkdir, open_dir,
        //           close_dir, find, iterate, query, stale, reentrant, volume, has_open, label, open_root]
        let w: [u32; 19] = match profile {
            Profile::Rw => [10, 5, 25, 30, 18, 6, 1, 0, 1, 1, 1, 1, 6, 0, 0, 0, 0, 0, 1],
            Profile::Dirs => [14, 10, 3, 8, 1, 3, 12, 8, 8, 5, 6, 8, 1, 0, 0, 1, 1, 1, 2],
            Profile::Fill => [8, 6, 3, 40, 4, 4, 10, 3, 1, 1, 0, 1, 1, 0, 0, 0, 0, 0, 1],
            Profile::Limits => [14, 8, 1, 2, 1, 1, 1, 2, 14, 9, 1, 2, 2, 16, 4, 8, 6, 2, 8],
            Profile::Matrix => [40, 14, 2, 8, 1, 2, 10, 5, 6, 3, 4, 2, 1, 1, 0, 0, 0, 0, 1],
            Profile::Mixed => [12, 8, 10, 14, 6, 4, 6, 4, 5, 4, 3, 4, 3, 3, 1, 2, 2, 1, 3],
            Profile::Grow => [40, 30, 1, 4, 0, 2, 6, 6, 4, 1, 2, 3, 0, 0, 0, 0, 0, 0, 1],
            Profile::Edge => [18, 16, 0, 3, 0, 6, 8, 30, 1, 0, 1, 2, 0, 0, 0, 3, 0, 0, 1],
        };
        for _ in 0..40 {
            let k = rng.weighted(&w);
            let fl = pick_fl(rng);
            match k {
                0 => {
                    let Some(ds) = open_idx(&self.m.hdirs, rng) else { continue };
                    let dir = self.m.hdirs[ds].as_ref().unwrap().node;
                    let fs = free_slot(&self.m.hfiles, maxf);
                    let mode = *rng.pick(&MODES);
                    let existing = if profile == Profile::Matrix { 60 } else { 50 };
                    if (profile == Profile::Grow || profile == Profile::Edge) && rng.chance(4, 5) {
                        // a fresh name every time, preferably in a sub-directory: the directory must grow
                        let ds = self.m.hdirs.iter().enumerate().filter(|(_, h)| h.as_ref().map(|h| !self.m.nodes[h.node].is_root).unwrap_or(false)).map(|(i, _)| i).next().unwrap_or(ds);
                        let dir = self.m.hdirs[ds].as_ref().unwrap().node;
                        let name = format!("G{}.X", self.m.nodes[dir].children.len() + self.ops.len() % 7 * 1000);
                        return Op::OpenFile { fl, ds, name, mode: *rng.pick(&[Mode::ReadWriteCreate, Mode::ReadWriteCreateOrAppend, Mode::ReadWriteCreateOrTruncate]), fs };
                    }
                    return Op::OpenFile { fl, ds, name: pick_name(rng, self, dir, existing), mode, fs };
                }
                1 => {
                    let Some(fs) = open_idx(&self.m.hfiles, rng) else { continue };
                    return if rng.chance(1, 6) { Op::DropFile { fs } } else { Op::CloseFile { fl, fs } };
                }
                2 => {
                    let Some(fs) = open_idx(&self.m.hfiles, rng) else { continue };
                    let cb = self.cluster_bytes_of_file(fs);
                    return Op::Read { fl, fs, len: snap_len(rng, cb) };
                }
                3 => {
                    let Some(fs) = open_idx(&self.m.hfiles, rng) else { continue };
                    let hf = self.m.hfiles[fs].as_ref().unwrap();
                    let cb = self.cluster_bytes_of_file(fs);
                    let cur = self.m.nodes[hf.node].data.len();
                    let mut len = snap_len(rng, cb);
                    let cap = (40 * cb as usize).min(700_000);
                    if profile != Profile::Fill && cur + len > cap {
                        len = len.min(600);
                    }
                    if profile == Profile::Fill {
                        len = match rng.below(5) {
                            0 => 1,
                            1 => (cb as usize) * 3,
                            2 => cb as usize,
                            _ => len,
                        };
                    }
                    return Op::Write { fl, fs, tag: rng.next_u32() | 1, len };
                }
                4 => {
                    let Some(fs) = open_idx(&self.m.hfiles, rng) else { continue };
                    let hf = self.m.hfiles[fs].as_ref().unwrap();
                    let len = self.m.nodes[hf.node].data.len() as u32;
                    let cb = self.cluster_bytes_of_file(fs);
                    let tgt = match rng.below(12) {
                        0 => 0,
                        1 => len,
                        2 => len.saturating_add(1),
                        3 => len.saturating_sub(1),
                        4 => (len / cb) * cb,
                        5 => ((len / cb) * cb).saturating_sub(1),
                        6 => 512.min(len),
                        7 => cb.min(len),
                        8 => (cb + 1).min(len),
                        _ => rng.below(len as u64 + 1) as u32,
                    };
                    return match rng.below(5) {
                        0 => Op::SeekStart { fl, fs, to: tgt },
                        1 => Op::SeekCur { fl, fs, by: tgt as i64 as i32 - hf.off as i32 + if rng.chance(1, 10) { len as i32 + 5 } else { 0 } },
                        2 => Op::SeekEnd { fl, fs, back: len.wrapping_sub(tgt) },
                        3 => Op::SeekIo {
                            fs,
                            to: match rng.below(4) {
                                0 => SeekTo::Start(if rng.chance(1, 12) { 1u64 << 33 } else { tgt as u64 }),
                                1 => SeekTo::Current(tgt as i64 - hf.off as i64),
                                2 => SeekTo::End(tgt as i64 - len as i64),
                                _ => SeekTo::End(if rng.chance(1, 2) { 1 } else { -(len as i64) - 1 }),
                            },
                        },
                        _ => Op::SeekStart { fl, fs, to: tgt },
                    };
                }
                5 => {
                    let Some(fs) = open_idx(&self.m.hfiles, rng) else { continue };
                    return Op::Flush { fl, fs };
                }
                6 => {
                    let Some(ds) = open_idx(&self.m.hdirs, rng) else { continue };
                    let dir = self.m.hdirs[ds].as_ref().unwrap().node;
                    return Op::Delete { fl, ds, name: pick_name(rng, self, dir, 75) };
                }
                7 => {
                    let Some(ds) = open_idx(&self.m.hdirs, rng) else { continue };
                    let dir = self.m.hdirs[ds].as_ref().unwrap().node;
                    if profile == Profile::Edge && rng.chance(4, 5) {
                        let ds = self.m.hdirs.iter().enumerate().filter(|(_, h)| h.as_ref().map(|h| !self.m.nodes[h.node].is_root).unwrap_or(false)).map(|(i, _)| i).next().unwrap_or(ds);
                        return Op::Mkdir { fl, ds, name: format!("M{}", self.ops.len()) };
                    }
                    let name = if rng.chance(2, 3) { rng.pick(&["NEWDIR0", "NEWDIR1", "nd2", "ND3", "SUB0"]).to_string() } else { pick_name(rng, self, dir, 40) };
                    return Op::Mkdir { fl, ds, name };
                }
                8 => {
                    let Some(parent) = open_idx(&self.m.hdirs, rng) else { continue };
                    let dir = self.m.hdirs[parent].as_ref().unwrap().node;
                    let name = if rng.chance(3, 4) {
                        let subs: Vec<usize> = self.m.nodes[dir].children.iter().cloned().filter(|&c| self.m.nodes[c].exists && self.m.nodes[c].kind == Kind::Dir).collect();
                        if !subs.is_empty() && rng.chance(3, 4) {
                            crate::fatref::display_name(&self.m.nodes[*rng.pick(&subs)].name)
                        } else {
                            rng.pick(DIR_NAMES).to_string()
                        }
                    } else {
                        pick_name(rng, self, dir, 60)
                    };
                    if rng.chance(1, 8) {
                        return Op::ChangeDir { ds: parent, name };
                    }
                    return Op::OpenDir { fl, parent, name, ds: free_slot(&self.m.hdirs, maxd) };
                }
                9 => {
                    if nd <= 1 && profile != Profile::Limits {
                        continue;
                    }
                    let Some(ds) = open_idx(&self.m.hdirs, rng) else { continue };
                    return if rng.chance(1, 6) { Op::DropDir { ds } } else { Op::CloseDir { fl, ds } };
                }
                10 => {
                    let Some(ds) = open_idx(&self.m.hdirs, rng) else { continue };
                    let dir = self.m.hdirs[ds].as_ref().unwrap().node;
                    return Op::Find { fl, ds, name: pick_name(rng, self, dir, 60) };
                }
                11 => {
                    let Some(ds) = open_idx(&self.m.hdirs, rng) else { continue };
                    return if rng.chance(1, 3) { Op::IterateLfn { fl, ds, buf: *rng.pick(&[0usize, 16, 64, 255]) } } else { Op::Iterate { fl, ds } };
                }
                12 => {
                    let Some(fs) = open_idx(&self.m.hfiles, rng) else { continue };
                    return match rng.below(3) {
                        0 => Op::Eof { fl, fs },
                        1 => Op::Len { fl, fs },
                        _ => Op::Off { fl, fs },
                    };
                }
                13 => {
                    let idx = rng.usize_below(64);
                    let act = rng.below(64) as u8;
                    let kinds: Vec<u8> = [(self.m.closed_files > 0, 0u8), (self.m.closed_dirs > 0, 1), (self.m.closed_vols > 0, 2)].iter().filter(|x| x.0).map(|x| x.1).collect();
                    if kinds.is_empty() {
                        continue;
                    }
                    return match *rng.pick(&kinds) {
                        0 => Op::StaleFile { idx, act },
                        1 => Op::StaleDir { idx, act },
                        _ => Op::StaleVol { idx, act },
                    };
                }
                14 => {
                    let Some(ds) = open_idx(&self.m.hdirs, rng) else { continue };
                    return Op::Reentrant { ds, lfn: rng.chance(1, 2) };
                }
                15 => {
                    // volumes: open another partition / the same again / close one
                    if rng.chance(1, 2) {
                        let part = if rng.chance(3, 4) { self.vs[rng.usize_below(self.vs.len())].g.part_slot } else { rng.usize_below(5) };
                        return Op::OpenVol { fl, part, vs: free_slot(&self.m.hvols, maxv) };
                    }
                    let Some(vs) = open_idx(&self.m.hvols, rng) else { continue };
                    if nv == 1 && self.m.vol_in_use(vs) && rng.chance(2, 3) {
                        continue;
                    }
                    return if rng.chance(1, 8) { Op::DropVol { vs } } else { Op::CloseVol { fl, vs } };
                }
                16 => return Op::HasOpen,
                17 => {
                    let Some(vs) = open_idx(&self.m.hvols, rng) else { continue };
                    return Op::Label { vs };
                }
                _ => {
                    let Some(vs) = open_idx(&self.m.hvols, rng) else {
                        // nothing open at all: reopen a volume
                        return Op::OpenVol { fl, part: self.vs[0].g.part_slot, vs: free_slot(&self.m.hvols, maxv) };
                    };
                    if nd >= maxd && rng.chance(2, 3) {
                        continue;
                    }
                    return Op::OpenRoot { fl, vs, ds: free_slot(&self.m.hdirs, maxd) };
                }
            }
        }
        let _ = nf;
        Op::HasOpen
    }

    /// Close everything (files, directories, volumes) – used at the end of a history.
    pub fn teardown(&mut self) {
        for fs in 0..self.m.hfiles.len() {
            if self.m.hfiles[fs].is_some() {
                self.step(Op::CloseFile { fl: Fl::Raw, fs });
            }
        }
        for ds in 0..self.m.hdirs.len() {
            if self.m.hdirs[ds].is_some() {
                self.step(Op::CloseDir { fl: Fl::Raw, ds });
            }
        }
        for vs in 0..self.m.hvols.len() {
            if self.m.hvols[vs].is_some() {
                // (both API flavours end histories: raw close_volume and Volume::close)
                let fl = if (self.ops.len() + vs) % 2 == 0 { Fl::Raw } else { Fl::Wrap };
                self.step(Op::CloseVol { fl, vs });
            }
        }
    }
}
