//! C01 at the far end of the offset range: one pre-existing file whose length sits within a few
//! bytes / blocks / clusters of the largest length a FAT directory entry can record (2^32 - 1).
//! The byte-array model is kept sparse: the file's initial contents are whatever the (sparse) image
//! holds in its clusters, overlaid with the bytes written during the scenario.
use crate::dev::Image;
use crate::json::J;
use crate::mkfs::{name11, Alloc, Fmt, Geom};
use crate::prng::Rng;
use crate::report::{self, Report, Violation};
use crate::vm::{ek, Ek, Fl, Nm, SeekTo, Vm};
use embedded_sdmmc::Mode;

const MAX: u64 = u32::MAX as u64;

struct Sparse {
    img: Image,
    g: Geom,
    chain: Vec<u32>,
    /// bytes written by the scenario, by file offset
    over: std::collections::BTreeMap<u64, u8>,
    len: u64,
}

impl Sparse {
    fn byte(&self, off: u64) -> u8 {
        if let Some(b) = self.over.get(&off) {
            return *b;
        }
        let cb = self.g.cluster_bytes() as u64;
        let ci = (off / cb) as usize;
        if ci >= self.chain.len() {
            return 0;
        }
        let blk = self.g.cluster_blk(self.chain[ci]) + ((off % cb) / 512) as u32;
        self.img.read(blk)[(off % 512) as usize]
    }
    fn bytes(&self, off: u64, n: usize) -> Vec<u8> {
        (0..n as u64).map(|k| self.byte(off + k)).collect()
    }
}

fn v(rule: &str, call: &str, detail: &str, msg: String, case: &J) -> Violation {
    Violation::new("C01", rule, call, detail, msg, case.clone())
}

pub fn scenario(prop: &str, seed: u64, i: u64, rep: &mut Report) {
    let c02 = prop == "C02";
    let mut rng = Rng::from_parts(&[seed, i, 0x4_0000_0000]);
    let spc = *rng.pick(&[64u32, 128]);
    let cb = spc as u64 * 512;
    let need = ((MAX + cb - 1) / cb) as u32;
    let mut g = Geom::base_fat32(need.max(65525) + 150 + rng.below(200) as u32, spc);
    g.nfats = 1 + rng.below(2) as u32;
    g.part_start = *rng.pick(&[1u32, 2048, 63]);
    g.part_slot = rng.usize_below(4);
    let odd = 70000 + rng.below(5000);
    let short_by = *rng.pick(&[0u64, 0, 1, 2, 511, 512, 513, 4095, cb - 1, cb, cb + 1, 40000, odd]);
    let size = MAX - short_by;
    let mut f = Fmt::new(g, Rng::new(rng.next_u64()));
    f.add_file(0, &name11("SMALL.DAT"), 0x20, &crate::fsx::payload(9, 0, 3000), Alloc::Seq);
    let hi = f.add_sparse_file_sized(0, &name11("HUGE.BIN"), size as u32, if rng.chance(1, 2) { Alloc::Seq } else { Alloc::Tail });
    let chain = f.placed[hi].chain.clone();
    let (img, g, _) = f.finish();
    let mut model = Sparse { img: img.clone(), g: g.clone(), chain, over: Default::default(), len: size };
    let case = J::obj().set("scenario", "file near the 4 GiB length limit").set("geometry", g.describe()).set("initial_length", size).set("index", i);
    let m = crate::fsx::mount_image(img, (4, 4, 1), 5000);
    let vm: &dyn Vm = &*m.vm;
    let mut trace: Vec<String> = Vec::new();
    let res = report::catch(|| -> Result<(), String> {
        let vol = vm.open_volume(Fl::Raw, g.part_slot).map_err(|e| format!("open_volume {:?}", ek(&e)))?;
        let root = vm.open_root_dir(Fl::Raw, vol).map_err(|e| format!("open_root_dir {:?}", ek(&e)))?;
        let mode = *rng.pick(&[Mode::ReadWriteAppend, Mode::ReadWriteCreateOrAppend, Mode::ReadOnly]);
        let fh = vm.open_file(Fl::Raw, root, Nm::Str("HUGE.BIN"), mode).map_err(|e| format!("open HUGE.BIN {:?}: {:?}", mode, ek(&e)))?;
        let writable = mode != Mode::ReadOnly;
        let mut off: u64 = if writable { model.len } else { 0 };
        let nops = 12 + rng.usize_below(25);
        let run_ops = |model: &mut Sparse, off: &mut u64, rng: &mut Rng, rep: &mut Report, trace: &mut Vec<String>| -> Result<(), String> {
        let off_out = off;
        let mut off: u64 = *off_out;
        let r = (|| -> Result<(), String> {
        for opi in 0..nops {
            let fl = *rng.pick(&[Fl::Raw, Fl::Wrap, Fl::Io]);
            rep.evaluations += 1;
            let near = |rng: &mut Rng, len: u64| -> u64 {
                let back = *rng.pick(&[0u64, 1, 2, 511, 512, 513, 1000, cb - 1, cb, cb + 1, 2 * cb + 7, 100_000]);
                len.saturating_sub(back.min(len))
            };
            match rng.below(10) {
                0 | 1 => {
                    let to = if rng.chance(1, 6) { model.len + 1 + rng.below(5) } else { near(&mut *rng, model.len) };
                    if to > MAX {
                        continue;
                    }
                    let r = vm.seek_start(fl, fh, to as u32);
                    trace.push(format!("seek_from_start({}) -> {:?}", to, r.as_ref().map_err(ek)));
                    match (r, to <= model.len) {
                        (Ok(()), true) => off = to,
                        (Err(e), false) if ek(&e) == Ek::InvalidOffset => {}
                        (r, _) => return Err(format!("op {}: seek_from_start({}) on a {}-byte file gave {:?}", opi, to, model.len, r.map_err(|e| ek(&e)))),
                    }
                }
                2 => {
                    let back = *rng.pick(&[0u64, 1, 512, cb, 70000, model.len, model.len + 1]);
                    if back > MAX {
                        continue;
                    }
                    let r = vm.seek_end(fl, fh, back as u32);
                    trace.push(format!("seek_from_end({}) -> {:?}", back, r.as_ref().map_err(ek)));
                    match (r, back <= model.len) {
                        (Ok(()), true) => off = model.len - back,
                        (Err(e), false) if ek(&e) == Ek::InvalidOffset => {}
                        (r, _) => return Err(format!("op {}: seek_from_end({}) on a {}-byte file gave {:?}", opi, back, model.len, r.map_err(|e| ek(&e)))),
                    }
                }
                3 => {
                    let d: i64 = *rng.pick(&[1i64, -1, 511, -512, 70000, -70000, i32::MAX as i64, i32::MIN as i64 + 1, 40000]);
                    let new = off as i64 + d;
                    let r = vm.seek_cur(fl, fh, d as i32);
                    trace.push(format!("seek_from_current({}) at {} -> {:?}", d, off, r.as_ref().map_err(ek)));
                    match (r, new >= 0 && new as u64 <= model.len) {
                        (Ok(()), true) => off = new as u64,
                        (Err(e), false) if ek(&e) == Ek::InvalidOffset => {}
                        (r, _) => return Err(format!("op {}: seek_from_current({}) at offset {} of a {}-byte file gave {:?}", opi, d, off, model.len, r.map_err(|e| ek(&e)))),
                    }
                }
                4 => {
                    // the embedded-io seek, 64-bit positions
                    let to = match rng.below(5) {
                        0 => SeekTo::Start(near(&mut *rng, model.len)),
                        1 => SeekTo::End(-(*rng.pick(&[0i64, 1, 512, 70000]))),
                        2 => SeekTo::Current(*rng.pick(&[0i64, -1, 1, -70000])),
                        // distances that do not fit 32 bits, and the extremes of the 64-bit range
                        3 => {
                            let far = *rng.pick(&[0x9000_0000i64, 0xA000_0000, 0xFFFF_FF00, 0x8000_0000, 0x7FFF_FFFF]);
                            if off as i64 >= far { SeekTo::Current(-far) } else { SeekTo::Current(far) }
                        }
                        _ => *rng.pick(&[SeekTo::End(i64::MIN), SeekTo::End(i64::MAX), SeekTo::End(i64::MIN + 1), SeekTo::Current(i64::MIN), SeekTo::Current(i64::MAX), SeekTo::Start(u64::MAX), SeekTo::Start(1 << 32), SeekTo::End(-(1 << 32)), SeekTo::End(-(model.len as i64))]),
                    };
                    let want: i128 = match to {
                        SeekTo::Start(s) => s as i128,
                        SeekTo::End(e) => model.len as i128 + e as i128,
                        SeekTo::Current(c) => off as i128 + c as i128,
                    };
                    let r = vm.seek_io(fh, to);
                    trace.push(format!("Seek::seek({:?}) -> {:?}", to, r.as_ref().map_err(ek)));
                    match (r, want >= 0 && want as u64 <= model.len) {
                        (Ok(p), true) if p as i128 == want => off = want as u64,
                        (Err(_), false) => {}
                        (r, _) => return Err(format!("op {}: Seek::seek({:?}) at offset {} of a {}-byte file gave {:?}, position should be {}", opi, to, off, model.len, r.map_err(|e| ek(&e)), want)),
                    }
                }
                5 | 6 => {
                    let len = *rng.pick(&[1usize, 100, 512, 513, 5000, 70000]);
                    let mut buf = vec![0xA5u8; len];
                    let r = vm.read(fl, fh, &mut buf);
                    let want_n = (model.len - off).min(len as u64) as usize;
                    trace.push(format!("read({}) at {} -> {:?}", len, off, r.as_ref().map_err(ek)));
                    match r {
                        Ok(n) if n == want_n => {
                            let want = model.bytes(off, n);
                            if buf[..n] != want[..] {
                                let at = buf[..n].iter().zip(want.iter()).position(|(a, b)| a != b).unwrap();
                                return Err(format!("op {}: read of {} bytes at offset {}: byte {} is {:#04x}, the file holds {:#04x}", opi, len, off, at, buf[at], want[at]));
                            }
                            off += n as u64;
                            rep.count("huge_file_reads_confirmed", 1);
                        }
                        r => return Err(format!("op {}: read of {} bytes at offset {} of a {}-byte file gave {:?}, expected {} bytes", opi, len, off, model.len, r.map_err(|e| ek(&e)), want_n)),
                    }
                }
                _ => {
                    if !writable {
                        continue;
                    }
                    let len = *rng.pick(&[1usize, 2, 100, 511, 512, 513, 5000, 40000]);
                    let data = crate::fsx::payload(0xB16 ^ opi as u32 ^ i as u32, 0, len);
                    let room = MAX - off;
                    let r = vm.write(fl, fh, &data);
                    let new_off = vm.offset(Fl::Raw, fh).map_err(|e| format!("file_offset {:?}", ek(&e)))? as u64;
                    let accepted = new_off as i64 - off as i64;
                    trace.push(format!("write({}) at {} -> {:?}, offset now {}", len, off, r.as_ref().map_err(ek), new_off));
                    if accepted < 0 || accepted as u64 > (len as u64).min(room) {
                        return Err(format!("op {}: write of {} bytes at offset {} moved the offset by {}", opi, len, off, accepted));
                    }
                    let acc = accepted as usize;
                    if c02 {
                        // deciding C02: the model holds what the call CLAIMED to have taken
                        let claimed = match &r {
                            Ok(n) => (*n).min(len),
                            Err(_) => acc,
                        };
                        for k in 0..claimed {
                            if off + (k as u64) < MAX {
                                model.over.insert(off + k as u64, data[k]);
                            }
                        }
                        let end = (off + claimed as u64).min(MAX);
                        model.len = model.len.max(end);
                        let cbn = ((model.len + cb - 1) / cb) as usize;
                        if cbn > model.chain.len() {
                            model.chain.resize(cbn, 0);
                        }
                        off = new_off;
                        rep.count("huge_file_writes", 1);
                        if claimed != acc {
                            return Err("foreign: write claimed more than it took".into());
                        }
                        continue;
                    }
                    match r {
                        // a count is only truthful if that many bytes were taken
                        Ok(n) if n == acc && (n == len || fl == Fl::Io) => {}
                        Ok(n) => {
                            return Err(format!(
                                "op {}: write of {} bytes at offset {} (room below the length limit: {}) reported {} bytes written but accepted {}",
                                opi, len, off, room, n, acc
                            ))
                        }
                        Err(e) => {
                            if len as u64 <= room {
                                return Err(format!("op {}: write of {} bytes at offset {} failed with {:?} although {} bytes fit below the length limit", opi, len, off, ek(&e), room));
                            }
                        }
                    }
                    for k in 0..acc {
                        model.over.insert(off + k as u64, data[k]);
                    }
                    off += acc as u64;
                    model.len = model.len.max(off);
                    let cbn = ((model.len + cb - 1) / cb) as usize;
                    if cbn > model.chain.len() {
                        // (new clusters: their old contents are irrelevant, every byte below len is in `over`)
                        model.chain.resize(cbn, 0);
                    }
                    rep.count(if len as u64 > room { "huge_file_writes_across_the_limit" } else { "huge_file_writes" }, 1);
                }
            }
            // observers
            let l = vm.length(Fl::Raw, fh).map_err(|e| format!("file_length {:?}", ek(&e)))? as u64;
            let o = vm.offset(Fl::Raw, fh).map_err(|e| format!("file_offset {:?}", ek(&e)))? as u64;
            let e = vm.eof(Fl::Raw, fh).map_err(|e| format!("file_eof {:?}", ek(&e)))?;
            if l != model.len || o != off || e != (off == model.len) {
                return Err(format!("op {}: library reports length {} offset {} eof {}, model length {} offset {} eof {}", opi, l, o, e, model.len, off, off == model.len));
            }
        }
        Ok(())
        })();
        *off_out = off;
        r
        };
        let r_ops = run_ops(&mut model, &mut off, &mut rng, rep, &mut trace);
        if let Err(m) = r_ops {
            if !c02 {
                return Err(m);
            }
            // deciding C02: a length/offset/seek disagreement is C01's business; what was flushed
            // must still be on the medium
            rep.count("huge_file_histories_cut_short_by_another_propertys_violation", 1);
        }
        let lib_len = vm.length(Fl::Raw, fh).map_err(|e| format!("file_length {:?}", ek(&e)))? as u64;
        vm.close_file(Fl::Raw, fh).map_err(|e| format!("close_file {:?}", ek(&e)))?;
        if c02 {
            // ---- the medium, through the independent reader --------------------------------------
            let img2 = m.disk.image();
            let snap = crate::fatref::Snap::open(&img2, g.part_slot).map_err(|e| format!("C02: independent reader cannot open the volume after close: {:?}", e))?;
            let w = snap.walk();
            let Some(n) = w.nodes.iter().find(|n| n.path == "HUGE.BIN") else { return Err("C02: HUGE.BIN is gone from the medium after close".into()) };
            if n.size as u64 != lib_len {
                return Err(format!("C02: after close the medium records {} bytes for HUGE.BIN, the library reported {} when it was flushed", n.size, lib_len));
            }
            let upto = lib_len.min(model.len);
            let start = upto.saturating_sub(3 * cb + 100_100);
            let mut o = start;
            while o < upto {
                let ci = (o / cb) as usize;
                let Some(&c) = n.chain.get(ci) else { return Err(format!("C02: the chain of HUGE.BIN on the medium has {} clusters, offset {} needs more", n.chain.len(), o)) };
                let blk = snap.vol.cluster_blk(c) + ((o % cb) / 512) as u32;
                let b = snap.src.get(blk);
                let lim = (512 - (o % 512)).min(upto - o);
                for k in 0..lim {
                    let want = model.byte(o + k);
                    if b[((o + k) % 512) as usize] != want {
                        return Err(format!("C02: after close the medium holds {:#04x} at offset {} of HUGE.BIN, the flushed contents have {:#04x}", b[((o + k) % 512) as usize], o + k, want));
                    }
                }
                o += lim;
            }
            rep.count("huge_file_media_confirmed", 1);
            let _ = vm.close_dir(Fl::Raw, root);
            let _ = vm.close_volume(Fl::Raw, vol);
            return Ok(());
        }
        // re-open and read the tail back
        let fh = vm.open_file(Fl::Raw, root, Nm::Str("HUGE.BIN"), Mode::ReadOnly).map_err(|e| format!("re-open {:?}", ek(&e)))?;
        let l = vm.length(Fl::Raw, fh).map_err(|e| format!("file_length {:?}", ek(&e)))? as u64;
        if l != model.len {
            return Err(format!("after close and re-open the file is {} bytes long, model {}", l, model.len));
        }
        let start = model.len.saturating_sub(3 * cb + 100);
        vm.seek_start(Fl::Raw, fh, start as u32).map_err(|e| format!("seek {:?}", ek(&e)))?;
        let mut got = Vec::new();
        let mut buf = vec![0u8; 8192];
        loop {
            let n = vm.read(Fl::Raw, fh, &mut buf).map_err(|e| format!("tail read {:?}", ek(&e)))?;
            if n == 0 {
                break;
            }
            got.extend_from_slice(&buf[..n]);
            if got.len() as u64 > 4 * cb {
                break;
            }
        }
        let want = model.bytes(start, (model.len - start) as usize);
        if got != want {
            let at = got.iter().zip(want.iter()).position(|(a, b)| a != b).unwrap_or(got.len().min(want.len()));
            return Err(format!("after close and re-open: tail read from offset {} delivers {} bytes (expected {}), first difference at offset {}", start, got.len(), want.len(), start + at as u64));
        }
        rep.count("huge_file_tails_confirmed_after_reopen", 1);
        vm.close_file(Fl::Raw, fh).map_err(|e| format!("close_file {:?}", ek(&e)))?;
        vm.close_dir(Fl::Raw, root).map_err(|e| format!("close_dir {:?}", ek(&e)))?;
        vm.close_volume(Fl::Raw, vol).map_err(|e| format!("close_volume {:?}", ek(&e)))?;
        Ok(())
    });
    let tail: Vec<J> = trace.iter().rev().take(12).rev().map(|s| J::s(s.as_str())).collect();
    let case = case.set("last_calls", J::Arr(tail));
    match res {
        Ok(Ok(())) => {
            rep.count("huge_file_scenarios", 1);
            rep.distinct.insert(crate::prng::mix(&[0x4_0000_0000, seed, i]));
        }
        Ok(Err(msg)) if c02 => {
            if msg.starts_with("C02:") {
                rep.violate(Violation::new("C02", if msg.contains("holds") || msg.contains("chain of") { "C02.bytes" } else if msg.contains("records") { "C02.size" } else { "C02.missing" }, "close_file", "file near the 4 GiB length limit", msg, case.clone()));
            } else {
                rep.count("huge_file_scenarios_not_completed", 1);
            }
        }
        Ok(Err(msg)) => {
            let (rule, detail) = if msg.contains("reported") && msg.contains("accepted") {
                ("C01.off", "write cut short by the length limit reported as complete")
            } else if msg.contains("read of") || msg.contains("tail read") || msg.contains("after close") {
                ("C01.read-bytes", "file near the 4 GiB length limit")
            } else {
                ("C01.off", "file near the 4 GiB length limit")
            };
            rep.violate(v(rule, "write/read/seek", detail, msg, &case));
        }
        Err((pm, loc)) => rep.violate(v("C01.panic", "write/read/seek", &report::short_loc(&loc), format!("library panicked on a file near the 4 GiB length limit: '{}' at {}", pm, report::short_loc(&loc)), &case)),
    }
}
