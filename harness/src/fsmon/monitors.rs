//! Monitors over the medium: C02 (fresh mount), C03 (fsck per call), C04 (write rules),
//! C05 (leaks), C16 (FAT copies / FSInfo).

use super::engine::Engine;
use super::model::{key_of, Kind, Model};
use super::ops::{Op, OpRes};
use crate::dev::{Blk, Source};
use crate::fatref::{self, DirLoc, FsckOut, Snap, Vol, Walk};
use crate::fsx;
use crate::vm::{Fl, Nm};
use embedded_sdmmc::Mode;
use std::collections::HashSet;

/// An object of the initial image, for the "untouched objects stay byte-identical" check.
#[derive(Clone, Debug)]
pub struct InitialObj {
    pub mvol: usize,
    pub path: String,
    pub is_dir: bool,
    pub slot_blk: u32,
    pub slot_off: u32,
    pub raw: [u8; 32],
    pub chain: Vec<u32>,
    pub content_hash: u64,
    /// non-short slots (LFN fragments, labels) are kept as raw location + bytes
    pub opaque: bool,
    /// long-name fragments: where the short entry they belong to sits
    pub owner: Option<(u32, u32)>,
}

fn hash_chain(snap: &Snap, chain: &[u32]) -> u64 {
    let mut h = 0u64;
    for &c in chain {
        for k in 0..snap.vol.spc {
            let b = snap.src.get(snap.vol.cluster_blk(c) + k);
            h = crate::prng::mix(&[h, crate::prng::hash_bytes(&b)]);
        }
    }
    h
}

pub fn collect_initial(snap: &Snap, w: &Walk, mvol: usize, out: &mut Vec<InitialObj>) {
    for n in &w.nodes {
        let hash = if n.is_dir || n.chain.len() > 4096 { 0 } else { hash_chain(snap, &n.chain) };
        out.push(InitialObj { mvol, path: n.path.clone(), is_dir: n.is_dir, slot_blk: n.slot.blk, slot_off: n.slot.off, raw: n.slot.raw, chain: n.chain.clone(), content_hash: hash, opaque: false, owner: None });
    }
    for (_, slots) in &w.dir_slots {
        let mut pending: Vec<usize> = Vec::new();
        for s in slots.iter() {
            if s.is_end() {
                break;
            }
            if s.is_deleted() {
                // fragments in front of a deleted slot are orphans: they belong to nobody
                pending.clear();
                continue;
            }
            if s.is_lfn() {
                pending.push(out.len());
                out.push(InitialObj { mvol, path: String::new(), is_dir: false, slot_blk: s.blk, slot_off: s.off, raw: s.raw, chain: vec![], content_hash: 0, opaque: true, owner: None });
            } else if s.is_label() {
                pending.clear();
                out.push(InitialObj { mvol, path: String::new(), is_dir: false, slot_blk: s.blk, slot_off: s.off, raw: s.raw, chain: vec![], content_hash: 0, opaque: true, owner: None });
            } else {
                // a short entry: the fragments directly in front of it are its own
                for i in pending.drain(..) {
                    out[i].owner = Some((s.blk, s.off));
                }
            }
        }
    }
}

pub fn name_class(name: &str) -> &'static str {
    match key_of(name) {
        Ok(_) => "valid name",
        Err(true) => "invalid name",
        Err(false) => "unpinned name",
    }
}

pub fn target_class(m: &Model, target: Option<usize>, name: &str) -> String {
    match target {
        None => format!("missing ({})", name_class(name)),
        Some(t) => {
            let n = &m.nodes[t];
            let mut s = match n.kind {
                Kind::Dir => "directory".to_string(),
                Kind::Opaque => "label".to_string(),
                Kind::File => {
                    if n.attr & 1 != 0 {
                        "read-only file".to_string()
                    } else {
                        "file".to_string()
                    }
                }
            };
            if n.open {
                s = format!("already-open {}", s);
            }
            s
        }
    }
}

/// What the engine knows just before a call (for the write rules and the capacity rules).
#[derive(Clone, Debug, Default)]
pub struct PreOp {
    pub free: u32,
    /// pre-call chain of the object the call targets (file written / truncated / deleted, or the
    /// directory that may grow)
    pub target_chain: Vec<u32>,
    pub dir_chain: Vec<u32>,
    /// slot (blk, off) the call owns, when it exists before the call
    pub own_slot: Option<(u32, u32)>,
    /// delete: the long-name fragments directly in front of the entry (they go with it)
    pub own_lfn: Vec<(u32, u32)>,
    pub may_write_on_error: bool,
    pub file_off: u32,
    pub file_node: Option<usize>,
    pub dir_node: Option<usize>,
    pub new_name: Option<[u8; 11]>,
}

impl PreOp {
    pub fn capture(e: &Engine, op: &Op, vi: Option<usize>) -> PreOp {
        let mut p = PreOp::default();
        let Some(vi) = vi else { return p };
        p.free = e.vs[vi].free;
        let dir_chain_of = |node: usize| -> Vec<u32> {
            let n = &e.m.nodes[node];
            if n.is_root {
                if e.vs[vi].vol.fat32 {
                    e.vs[vi].walk.owner.iter().filter(|(_, &o)| o == usize::MAX).map(|(&c, _)| c).collect()
                } else {
                    vec![]
                }
            } else {
                let path = e.m.path_of(node);
                e.vs[vi].walk.nodes.iter().find(|x| x.path == path).map(|x| x.chain.clone()).unwrap_or_default()
            }
        };
        let slot_of = |node: usize| -> Option<(u32, u32)> {
            let path = e.m.path_of(node);
            e.vs[vi].walk.nodes.iter().find(|x| x.path == path).map(|x| (x.slot.blk, x.slot.off))
        };
        match op {
            Op::Write { fs, .. } | Op::Flush { fs, .. } | Op::CloseFile { fs, .. } | Op::DropFile { fs } => {
                if let Some(hf) = e.m.hfiles.get(*fs).cloned().flatten() {
                    p.target_chain = e.file_chain(vi, &hf);
                    p.own_slot = slot_of(hf.node);
                    p.file_off = hf.off;
                    p.file_node = Some(hf.node);
                    // a write through a read-only handle is a refusal: it must not touch the medium
                    p.may_write_on_error = !(matches!(op, Op::Write { .. }) && !hf.writable);
                }
            }
            Op::OpenFile { ds, name, mode, .. } => {
                if let Some(hd) = e.m.hdirs.get(*ds).cloned().flatten() {
                    p.dir_chain = dir_chain_of(hd.node);
                    p.dir_node = Some(hd.node);
                    if let Ok(k) = key_of(name) {
                        p.new_name = Some(k);
                        if let Some(t) = e.m.resolve(hd.node, &k) {
                            if e.m.nodes[t].kind == Kind::File && matches!(mode, Mode::ReadWriteTruncate | Mode::ReadWriteCreateOrTruncate) {
                                let path = e.m.path_of(t);
                                if let Some(x) = e.vs[vi].walk.nodes.iter().find(|x| x.path == path) {
                                    p.target_chain = x.chain.clone();
                                    p.own_slot = Some((x.slot.blk, x.slot.off));
                                    p.file_node = Some(t);
                                }
                            }
                        } else {
                            p.may_write_on_error = true; // creation may fail half-way (out of space)
                        }
                    }
                }
            }
            Op::Mkdir { ds, name, .. } => {
                if let Some(hd) = e.m.hdirs.get(*ds).cloned().flatten() {
                    p.dir_chain = dir_chain_of(hd.node);
                    p.dir_node = Some(hd.node);
                    p.new_name = key_of(name).ok();
                    p.may_write_on_error = true;
                }
            }
            Op::Delete { ds, name, .. } => {
                if let Some(hd) = e.m.hdirs.get(*ds).cloned().flatten() {
                    if let Ok(k) = key_of(name) {
                        if let Some(t) = e.m.resolve(hd.node, &k) {
                            let path = e.m.path_of(t);
                            if let Some(x) = e.vs[vi].walk.nodes.iter().find(|x| x.path == path) {
                                p.target_chain = x.chain.clone();
                                p.own_slot = Some((x.slot.blk, x.slot.off));
                                if let Some(slots) = e.vs[vi].walk.dir_slots.get(&x.parent_dir) {
                                    if let Some(pos) = slots.iter().position(|s| s.blk == x.slot.blk && s.off == x.slot.off) {
                                        let mut k = pos;
                                        while k > 0 && slots[k - 1].is_lfn() && !slots[k - 1].is_deleted() && !slots[k - 1].is_end() {
                                            k -= 1;
                                            p.own_lfn.push((slots[k].blk, slots[k].off));
                                        }
                                    }
                                }
                            }
                        }
                    }
                }
            }
            _ => {}
        }
        p
    }
}

fn diff_ranges(a: &Blk, b: &Blk) -> Vec<(usize, usize)> {
    let mut v = Vec::new();
    let mut i = 0;
    while i < 512 {
        if a[i] != b[i] {
            let s = i;
            while i < 512 && a[i] != b[i] {
                i += 1;
            }
            v.push((s, i));
        } else {
            i += 1;
        }
    }
    v
}

fn region_name(vol: &Vol, b: u32) -> &'static str {
    if b < vol.part_start || b >= vol.part_start.saturating_add(vol.part_len) {
        if b == 0 {
            "master boot record"
        } else {
            "outside the partition"
        }
    } else if b == vol.part_start {
        "boot sector"
    } else if vol.fat32 && b == vol.fsinfo_blk {
        "fsinfo"
    } else if b < vol.fat_blk {
        "reserved area"
    } else if b < vol.fat_blk + vol.fat_size {
        "fat0"
    } else if b < vol.root_blk {
        "fatN"
    } else if b < vol.data_blk {
        "root region"
    } else if b < vol.data_end() {
        "data"
    } else {
        "past the last cluster"
    }
}

/// C04: every logged write of this call against the image as it was before that write.
fn write_rules(e: &mut Engine, op: &Op, res: &OpRes, vi: Option<usize>, pre: &PreOp, log_before: usize, log_after: usize) {
    let recs: Vec<(u32, Blk)> = {
        let st = e.ex.disk.0.borrow();
        st.log[log_before..log_after].iter().map(|r| (r.idx, *r.data)).collect()
    };
    if recs.is_empty() {
        return;
    }
    let Some(vi) = vi else {
        let (idx, data) = &recs[0];
        e.shadow.write(*idx, data);
        e.violate("C04", "C04.outside-partition", "write by a call that targets no volume", format!("block {} written", idx));
        return;
    };
    let vol = e.vs[vi].vol.clone(); // post-call == pre-call geometry
    let eb: usize = if vol.fat32 { 4 } else { 2 };
    let per = 512 / eb;
    let mask: u32 = if vol.fat32 { 0x0FFF_FFFF } else { 0xFFFF };
    let mut allocated: HashSet<u32> = HashSet::new();
    let target: HashSet<u32> = pre.target_chain.iter().chain(pre.dir_chain.iter()).cloned().collect();
    // allowed byte ranges in data / root blocks
    let mut allowed: Vec<(u32, usize, usize)> = Vec::new();
    // (1) the slot the call owns
    let post_walk = &e.vs[vi].walk;
    let mut own: Vec<(u32, u32, usize)> = Vec::new(); // blk, off, len
    if let Some((b, o)) = pre.own_slot {
        let len = if matches!(op, Op::Delete { .. }) { 1 } else { 32 };
        own.push((b, o, len));
    }
    for (b, o) in &pre.own_lfn {
        own.push((*b, *o, 1));
    }
    if let (Some(dn), Some(k)) = (pre.dir_node, pre.new_name) {
        // the new entry (create / mkdir): find it in the post-call walk
        let dpath = e.m.path_of(dn);
        let name = fatref::display_name(&k);
        let path = if dpath.is_empty() { name } else { format!("{}/{}", dpath, name) };
        if let Some(x) = post_walk.nodes.iter().find(|x| x.path == path) {
            own.push((x.slot.blk, x.slot.off, 32));
            // long-name fragments that sat orphaned in front of the slot taken are marked deleted
            // with it (their first byte), or they would become the new entry's long name
            if let Some(slots) = post_walk.dir_slots.get(&x.parent_dir) {
                if let Some(pos) = slots.iter().position(|s| s.blk == x.slot.blk && s.off == x.slot.off) {
                    let mut k = pos;
                    while k > 0 && slots[k - 1].is_deleted() && slots[k - 1].raw[11] & 0x3F == 0x0F {
                        k -= 1;
                        own.push((slots[k].blk, slots[k].off, 1));
                    }
                }
            }
        } else if !res.is_ok() {
            // failed creation may have left a slot behind; C03 judges the structure, C04 lets the
            // one slot the call was creating pass: look for it by name in the directory listing
            let loc = e.dir_loc(vi, dn).unwrap_or(DirLoc::Root16);
            if let Some(slots) = post_walk.dir_slots.get(&loc) {
                for s in slots.iter().filter(|s| s.name() == k) {
                    own.push((s.blk, s.off, 32));
                }
            }
        }
    }
    for (b, o, l) in &own {
        allowed.push((*b, *o as usize, *o as usize + *l));
    }
    // (2) the byte range of the write, through the post-call chain
    if let (Op::Write { fs, .. }, Some(node)) = (op, pre.file_node) {
        let hf = e.m.hfiles.get(*fs).cloned().flatten();
        if let Some(hf) = hf {
            let chain = e.file_chain(vi, &hf);
            let start = pre.file_off as u64;
            let end = hf.off as u64;
            let _ = node;
            let cb = vol.cluster_bytes() as u64;
            let mut pos = start;
            while pos < end {
                let ci = (pos / cb) as usize;
                let Some(&c) = chain.get(ci) else { break };
                let within = pos % cb;
                let blk = vol.cluster_blk(c) + (within / 512) as u32;
                let bo = (within % 512) as usize;
                let n = ((512 - bo) as u64).min(end - pos) as usize;
                allowed.push((blk, bo, bo + n));
                pos += n as u64;
            }
        }
    }
    for (idx, data) in recs.iter() {
        let idx = *idx;
        let old = e.shadow.read(idx);
        let region = region_name(&vol, idx);
        let mut bad: Option<(&'static str, String, String)> = None;
        match region {
            "master boot record" | "outside the partition" => bad = Some(("C04.outside-partition", region.to_string(), format!("block {} lies outside the operated volume ({}..{})", idx, vol.part_start, vol.part_start as u64 + vol.part_len as u64))),
            "boot sector" => bad = Some(("C04.boot", "boot sector".into(), format!("boot sector (block {}) written", idx))),
            "reserved area" => bad = Some(("C04.reserved", "reserved area".into(), format!("reserved block {} written", idx))),
            "past the last cluster" => bad = Some(("C04.past-last-cluster", "tail".into(), format!("block {} is past the last cluster (data ends at {})", idx, vol.data_end()))),
            "fsinfo" => {
                for (s, t) in diff_ranges(&old, data) {
                    if s < 488 || t > 496 {
                        bad = Some(("C04.fsinfo-bytes", "outside 488..496".into(), format!("FSInfo bytes {}..{} changed", s, t)));
                    }
                }
            }
            "fat0" => {
                let first = (idx - vol.fat_blk) as usize * per;
                for i in 0..per {
                    let c = (first + i) as u32;
                    let rd = |b: &Blk| -> u32 {
                        if vol.fat32 {
                            u32::from_le_bytes([b[i * 4], b[i * 4 + 1], b[i * 4 + 2], b[i * 4 + 3]])
                        } else {
                            u16::from_le_bytes([b[i * 2], b[i * 2 + 1]]) as u32
                        }
                    };
                    let (o, n) = (rd(&old), rd(data));
                    if o == n {
                        continue;
                    }
                    if c < 2 {
                        bad = Some(("C04.fat-foreign-entry", "reserved entry 0/1".into(), format!("FAT entry {} changed {:#x} -> {:#x}", c, o, n)));
                        break;
                    }
                    if c >= vol.clusters + 2 {
                        bad = Some(("C04.fat-slack", "slack entry".into(), format!("FAT slack entry {} (volume has clusters 2..{}) changed {:#x} -> {:#x}", c, vol.clusters + 2, o, n)));
                        break;
                    }
                    if vol.fat32 && (o & 0xF000_0000) != (n & 0xF000_0000) {
                        bad = Some(("C04.fat-nibble", "reserved high nibble".into(), format!("FAT32 entry {} high nibble changed {:#x} -> {:#x}", c, o, n)));
                        break;
                    }
                    let was_free = o & mask == 0;
                    if was_free && n & mask != 0 {
                        allocated.insert(c);
                    } else if allocated.contains(&c) || target.contains(&c) {
                        // further edits of a cluster taken in this call, or of the target's own chain
                    } else {
                        bad = Some(("C04.fat-foreign-entry", "entry of another chain".into(), format!("FAT entry {} ({:#x} -> {:#x}) belongs neither to the call's target nor to clusters it allocated", c, o, n)));
                        break;
                    }
                }
            }
            "fatN" => {
                let rel = (idx - vol.fat_blk) % vol.fat_size;
                let mirror = e.shadow.read(vol.fat_blk + rel);
                if *data != mirror {
                    bad = Some(("C04.fat-mirror", "payload differs from primary".into(), format!("write to FAT copy block {} differs from the primary FAT block {}", idx, vol.fat_blk + rel)));
                }
            }
            _ => {
                // data area or FAT16 root region
                let in_new_cluster = region == "data" && allocated.contains(&(2 + (idx - vol.data_blk) / vol.spc));
                if !in_new_cluster {
                    for (s, t) in diff_ranges(&old, data) {
                        let mut covered = vec![false; t - s];
                        for (b, lo, hi) in &allowed {
                            if *b == idx {
                                for p in s.max(*lo)..t.min(*hi) {
                                    covered[p - s] = true;
                                }
                            }
                        }
                        if let Some(p) = covered.iter().position(|c| !*c) {
                            let what = if region == "data" {
                                let c = 2 + (idx - vol.data_blk) / vol.spc;
                                let owner = e.vs[vi].walk.owner.get(&c).map(|&o| if o == usize::MAX { "<root>".to_string() } else { e.vs[vi].walk.nodes[o].path.clone() });
                                format!("cluster {} ({})", c, owner.unwrap_or_else(|| "unowned".into()))
                            } else {
                                "root directory region".to_string()
                            };
                            bad = Some(("C04.data-foreign-bytes", if region == "data" { "data area".into() } else { "root region".into() }, format!("block {} byte {} ({:#04x} -> {:#04x}) in {} is outside the call's file range / new clusters / own slot", idx, s + p, old[s + p], data[s + p], what)));
                            break;
                        }
                    }
                }
            }
        }
        e.shadow.write(idx, data);
        if let Some((rule, detail, msg)) = bad {
            if e.flags.prop == "C04" || true {
                e.violate("C04", rule, &detail, msg);
            }
            // keep the shadow in step with the medium for the remaining records
            for (i2, d2) in recs.iter() {
                e.shadow.write(*i2, d2);
            }
            return;
        }
    }
    e.count("block_writes_checked");
    *e.counters.entry("block_writes_total".into()).or_insert(0) += recs.len() as u64;
}

fn keep_shadow_in_step(e: &mut Engine, log_before: usize, log_after: usize) {
    let recs: Vec<(u32, Blk)> = {
        let st = e.ex.disk.0.borrow();
        st.log[log_before..log_after].iter().map(|r| (r.idx, *r.data)).collect()
    };
    for (i, d) in recs {
        e.shadow.write(i, &d);
    }
}

pub fn post_op(e: &mut Engine, op: &Op, res: &OpRes, vi: Option<usize>, pre: &PreOp, log_before: usize, log_after: usize) {
    let wrote = log_after > log_before;
    // any write outside every known volume is caught by the write rules; writes into ANOTHER
    // volume than the targeted one as well (region_name is relative to the targeted volume)
    let mut out: Option<FsckOut> = None;
    if wrote {
        if let Some(vi) = vi {
            out = e.resnap(vi);
            if out.is_none() {
                e.violate("C03", "C03.start-range", "volume no longer mounts", "independent reader cannot mount the volume after the call".into());
                return;
            }
        }
    }
    // pending chain heads of files that got their first cluster in this call
    if let (Op::Write { fs, .. }, Some(vi)) = (op, vi) {
        if let Some(hf) = e.m.hfiles.get(*fs).cloned().flatten() {
            let path = e.m.path_of(hf.node);
            let on_disk_start = e.vs[vi].walk.nodes.iter().find(|n| n.path == path).map(|n| n.start).unwrap_or(0);
            if on_disk_start == 0 && hf.pending_head.is_none() {
                let known: Vec<u32> = e.m.hfiles.iter().flatten().filter(|h| h.vol == hf.vol).filter_map(|h| h.pending_head).collect();
                let fresh: Vec<u32> = e.vs[vi].lost_heads.iter().cloned().filter(|h| !known.contains(h)).collect();
                if fresh.len() == 1 {
                    e.m.hfiles[*fs].as_mut().unwrap().pending_head = Some(fresh[0]);
                }
            }
        }
    }
    if e.flags.writes || e.flags.prop == "C04" {
        write_rules(e, op, res, vi, pre, log_before, log_after);
        if e.aborted {
            return;
        }
    } else if wrote {
        keep_shadow_in_step(e, log_before, log_after);
    }
    let Some(vi) = vi else { return };
    // ---- C03: structure after every call -----------------------------------------------------
    if e.flags.fsck && wrote {
        if let Some(o) = &out {
            if let Some(f) = o.findings.first() {
                let rule = format!("C03.{}", f.rule);
                let detail = f.rule.to_string();
                let msg = format!("{}: {} ({} findings)", if f.path.is_empty() { "<root>" } else { &f.path }, f.detail, o.findings.len());
                e.violate("C03", &rule, &detail, msg);
                return;
            }
            e.count("fsck_after_call");
        }
    }
    // ---- C05: no leak when nothing is open -----------------------------------------------------
    if e.flags.space && wrote {
        if let Some(o) = &out {
            let mvol = e.vs[vi].mvol;
            if e.m.files_open_on(mvol) == 0 && !o.lost_chains.is_empty() {
                let n: usize = o.lost_chains.iter().map(|c| c.len()).sum();
                let msg = format!("{} clusters are marked in use but belong to no file or directory (first chain starts at {}), {} chains", n, o.lost_chains[0][0], o.lost_chains.len());
                e.violate("C05", "C05.leak", "clusters left allocated", msg);
                return;
            } else if !o.unexplained_lost.is_empty() {
                let n: usize = o.unexplained_lost.iter().map(|c| c.len()).sum();
                let msg = format!("{} allocated clusters cannot be attributed to any open file (first at {})", n, o.unexplained_lost[0][0]);
                e.violate("C05", "C05.leak", "clusters left allocated", msg);
                return;
            }
            e.count("leak_checks");
        }
    }
    // ---- C16: FAT copies identical; FSInfo truthful after flush / close_volume -----------------
    if e.flags.fat_meta {
        fat_meta(e, op, res, vi, wrote);
        if e.aborted {
            return;
        }
    }
    // ---- C02: whole-medium comparison at quiescent points ----------------------------------------
    if e.flags.remount && res.is_ok() && matches!(op, Op::Flush { .. } | Op::CloseFile { .. } | Op::DropFile { .. } | Op::Delete { .. } | Op::Mkdir { .. } | Op::CloseVol { .. }) {
        medium_vs_model(e, vi, matches!(op, Op::CloseFile { .. } | Op::DropFile { .. } | Op::CloseVol { .. }));
    }
}

/// A violation of ANOTHER property has ended the history: the model can no longer say what the next
/// call should do, but the rules of C03 / C05 / C16 that need no model still apply to what the
/// library leaves on the medium. Every file the history still had open is closed through the
/// library (the damage a wrong pending length or chain does only reaches the medium then) and the
/// medium is judged once more. Nothing is concluded when a close is refused.
pub fn after_divergence(e: &mut Engine) {
    let own = e.flags.prop.clone();
    if !e.aborted || !matches!(own.as_str(), "C03" | "C05" | "C16") {
        return;
    }
    if e.viol.is_empty() || e.viol.iter().any(|v| v.prop == own) || matches!(e.results.last(), Some(OpRes::Panic(..))) {
        return;
    }
    let mut closed_ok: Option<(Op, OpRes)> = None;
    for fs in 0..e.m.hfiles.len() {
        if e.m.hfiles[fs].is_none() {
            continue;
        }
        let op = Op::CloseFile { fl: crate::vm::Fl::Raw, fs };
        let r = e.ex.exec(&op);
        if !r.is_ok() {
            return;
        }
        closed_ok = Some((op, r));
    }
    e.count("medium_judged_after_divergence");
    let foreign = e.viol.last().map(|v| v.sig.clone()).unwrap_or_default();
    for vi in 0..e.vs.len() {
        let out = {
            let st = e.ex.disk.0.borrow();
            let Ok(snap) = Snap::open(&st.img, e.vs[vi].g.part_slot) else { continue };
            fatref::fsck(&snap, &[], fatref::FsckMode::Live).0
        };
        match own.as_str() {
            "C03" => {
                if let Some(f) = out.findings.first() {
                    let msg = format!("{}: {} ({} findings) - after every open file was closed; the history had diverged from the model before ({})", if f.path.is_empty() { "<root>" } else { &f.path }, f.detail, out.findings.len(), foreign);
                    e.violate("C03", &format!("C03.{}", f.rule), &f.rule.to_string(), msg);
                    return;
                }
            }
            "C05" => {
                if !out.lost_chains.is_empty() {
                    let n: usize = out.lost_chains.iter().map(|c| c.len()).sum();
                    e.violate("C05", "C05.leak", "clusters left allocated", format!("{} clusters are marked in use but belong to no file or directory after every open file was closed; the history had diverged from the model before ({})", n, foreign));
                    return;
                }
            }
            _ => {
                if let Some((op, r)) = &closed_ok {
                    let mvol = e.vs[vi].mvol;
                    if e.m.hvols.iter().flatten().any(|h| h.vol == mvol) {
                        fat_meta(e, op, r, vi, true);
                        if e.viol.iter().any(|v| v.prop == own) {
                            return;
                        }
                    }
                }
            }
        }
    }
}

fn fat_meta(e: &mut Engine, op: &Op, res: &OpRes, vi: usize, wrote: bool) {
    let vol = e.vs[vi].vol.clone();
    if wrote && vol.nfats >= 2 {
        let st = e.ex.disk.0.borrow();
        let mut diff = None;
        for k in 0..vol.fat_size {
            let a = st.img.read(vol.fat_blk + k);
            for copy in 1..vol.nfats {
                let b = st.img.read(vol.fat_blk + copy * vol.fat_size + k);
                if a != b {
                    let p = a.iter().zip(b.iter()).position(|(x, y)| x != y).unwrap();
                    diff = Some((k, copy, p));
                    break;
                }
            }
            if diff.is_some() {
                break;
            }
        }
        drop(st);
        if let Some((k, copy, p)) = diff {
            e.violate("C16", "C16.fat-copies", "copies differ", format!("FAT copy {} differs from the first at sector {} byte {}", copy, k, p));
            return;
        }
        e.count("fat_copy_comparisons");
    }
    if !vol.fat32 {
        return;
    }
    // flush of a dirty file, close of a file, close of the volume: the record must be truthful
    let (check, vs) = match op {
        Op::Flush { fs, .. } | Op::CloseFile { fs, .. } | Op::DropFile { fs } => {
            // (the model entry of a closed file is gone; use the executor's bookkeeping instead)
            // ("after a flush": whether or not this particular handle had anything to write -
            // another call of the history may have allocated or freed clusters since)
            let _ = (fs, wrote);
            (res.is_ok(), None)
        }
        Op::CloseVol { vs, .. } => (res.is_ok(), Some(*vs)),
        _ => (false, None),
    };
    if !check {
        return;
    }
    let mvol = e.vs[vi].mvol;
    let vs = vs.or_else(|| e.m.hvols.iter().position(|h| h.as_ref().map(|h| h.vol == mvol).unwrap_or(false)));
    let Some(vs) = vs else { return };
    let Some(&(c0, _h0, f0)) = e.fsinfo_mount.get(&vs) else { return };
    let (count, hint, free_now) = {
        let st = e.ex.disk.0.borrow();
        let snap = match Snap::open(&st.img, vol.slot) {
            Ok(s) => s,
            Err(_) => return,
        };
        let (c, h) = snap.fsinfo().unwrap();
        (c, h, snap.free_count())
    };
    if matches!(op, Op::CloseVol { .. }) {
        e.fsinfo_mount.remove(&vs);
    }
    if c0 == 0xFFFF_FFFF {
        if count != 0xFFFF_FFFF {
            e.violate("C16", "C16.count-unknown", "unknown became a number", format!("free count was unknown at mount, now stored as {}", count));
            return;
        }
    } else {
        let want = c0 as i64 + free_now as i64 - f0 as i64;
        if want >= 0 && want < 0xFFFF_FFFF && count as i64 != want {
            e.violate(
                "C16",
                "C16.count-delta",
                &format!("off by {}", (count as i64 - want).clamp(-3, 3)),
                format!("stored free count {} ; at mount {} with {} free entries, now {} free entries, so it should be {}", count, c0, f0, free_now, want),
            );
            return;
        }
    }
    if hint != 0xFFFF_FFFF && !(hint >= 2 && hint < vol.clusters + 2) {
        e.violate("C16", "C16.hint-range", "hint outside the volume", format!("stored next-free hint {} is neither unknown nor a cluster of the volume (2..{})", hint, vol.clusters + 2));
        return;
    }
    e.count("fsinfo_checks");
}

fn ts_ok(set: &[embedded_sdmmc::Timestamp], d: u16, t: u16) -> bool {
    let got = fsx::ts_from_fat(d, t);
    set.iter().any(|s| fsx::ts_tuple(s) == got)
}

/// C02: the raw medium (independent reader) and a fresh library mount agree with the model about
/// every file that is not dirty; untouched objects are byte-identical to the initial image.
pub fn medium_vs_model(e: &mut Engine, vi: usize, with_library: bool) {
    let mvol = e.vs[vi].mvol;
    let img = e.ex.disk.image();
    let part = e.vs[vi].g.part_slot;
    let snap = match Snap::open(&img, part) {
        Ok(s) => s,
        Err(er) => {
            e.violate("C02", "C02.missing", "volume does not mount", format!("independent reader: {}", er));
            return;
        }
    };
    let w = snap.walk();
    let idx = fatref::by_path(&w);
    // files the model knows
    let dirty_nodes: HashSet<usize> = e.m.hfiles.iter().flatten().filter(|h| h.unflushed).map(|h| h.node).collect();
    let node_ids: Vec<usize> = (0..e.m.nodes.len()).filter(|&i| e.m.nodes[i].vol == mvol && e.m.nodes[i].exists && !e.m.nodes[i].is_root && e.m.nodes[i].kind != Kind::Opaque).collect();
    let mut expected_paths: HashSet<String> = HashSet::new();
    for i in 0..e.m.nodes.len() {
        if e.m.nodes[i].vol == mvol && e.m.nodes[i].exists && e.m.nodes[i].kind == Kind::Opaque {
            expected_paths.insert(e.m.path_of(i));
        }
    }
    for id in node_ids {
        let path = e.m.path_of(id);
        expected_paths.insert(path.clone());
        let n = e.m.nodes[id].clone();
        let Some(&wi) = idx.get(&path) else {
            let b0 = n.name[0];
            e.violate("C02", "C02.missing", &if b0 == 0xE5 { "first name byte 0xE5".to_string() } else { format!("{} not on the medium", if n.kind == Kind::Dir { "directory" } else { "file" }) }, format!("{} exists in the model but the independent reader does not find it", path));
            return;
        };
        let x = &w.nodes[wi];
        if x.is_dir != (n.kind == Kind::Dir) {
            e.violate("C02", "C02.attr", "directory bit", format!("{}: directory bit {} on the medium", path, x.is_dir));
            return;
        }
        if n.kind == Kind::Dir {
            continue;
        }
        if dirty_nodes.contains(&id) {
            continue; // not flushed: the statement says nothing yet
        }
        if x.size != n.disk_len || n.disk_len as usize != n.data.len() {
            e.violate("C02", "C02.size", "length", format!("{}: {} bytes on the medium, flushed length {} (model {})", path, x.size, n.disk_len, n.data.len()));
            return;
        }
        let got = snap.read_chain_bytes(&x.chain, x.size);
        if got != n.data {
            let at = got.iter().zip(n.data.iter()).position(|(a, b)| a != b).unwrap_or(got.len().min(n.data.len()));
            e.violate("C02", "C02.bytes", "contents", format!("{}: medium differs from the flushed contents at byte {} (medium holds {} bytes)", path, at, got.len()));
            return;
        }
        // attribute bits: RO / hidden / system must be what they were; archive is free
        if (x.slot.attr() & 0x07) != (n.attr & 0x07) {
            e.violate("C02", "C02.attr", "RO/hidden/system bits", format!("{}: attribute byte {:#04x}, expected bits {:#04x}", path, x.slot.attr(), n.attr & 0x07));
            return;
        }
        // a file the history created has the 8.3 name it was created under and no other: a long
        // name in front of its entry is somebody else's (left behind by a deleted file)
        if !n.pre_existing {
            if let Some(l) = &x.lfn {
                e.violate("C02", "C02.missing", "created file appears under a foreign long name", format!("{}: an independent reader shows this file, created as {:?}, under the long name {:?} left behind by a deleted entry", path, fatref::display_name(&n.name), l));
                return;
            }
        }
        let r = &x.slot.raw;
        let rd = |o: usize| u16::from_le_bytes([r[o], r[o + 1]]);
        if n.pre_existing {
            // a creation time never changes after creation - also for files the history rewrote
            if let Some(o) = e.initial.iter().find(|o| o.mvol == mvol && !o.opaque && o.path == path) {
                // (offsets 12..18: name-case flags, creation time in 10 ms units, creation time, creation date)
                if r[12..18] != o.raw[12..18] {
                    let msg = format!("{}: name-case flags / creation time bytes (offsets 12..18) {:02x?} differ from the formatter's {:02x?}", path, &r[12..18], &o.raw[12..18]);
                    e.violate("C02", "C02.ctime", "creation time of a pre-existing file", msg);
                    return;
                }
            }
        }
        if !n.pre_existing {
            if !ts_ok(&n.ctime_ok, rd(16), rd(14)) {
                e.violate("C02", "C02.ctime", "creation time", format!("{}: creation time on the medium {:?} is not the clock value of the creating call {:?}", path, fsx::ts_from_fat(rd(16), rd(14)), n.ctime_ok.iter().map(fsx::ts_tuple).collect::<Vec<_>>()));
                return;
            }
        }
        if n.mtime_missed {
            e.violate("C02", "C02.mtime", "modification time", format!("{}: the last call that stored bytes in this file never asked the clock for the time: the modification time on the medium {:?} cannot be that of the last write", path, fsx::ts_from_fat(rd(24), rd(22))));
            return;
        }
        if !n.mtime_ok.is_empty() && !ts_ok(&n.mtime_ok, rd(24), rd(22)) {
            e.violate("C02", "C02.mtime", "modification time", format!("{}: modification time on the medium {:?} is not the clock value of the last write {:?}", path, fsx::ts_from_fat(rd(24), rd(22)), n.mtime_ok.iter().map(fsx::ts_tuple).collect::<Vec<_>>()));
            return;
        }
        e.count("files_compared_on_medium");
    }
    // nothing on the medium that the model does not know (deleted files must be gone)
    for x in &w.nodes {
        if !expected_paths.contains(&x.path) {
            e.violate("C02", "C02.missing", "unexpected object on the medium", format!("{} is on the medium but not in the model (deleted or never created)", x.path));
            return;
        }
    }
    // untouched objects byte-for-byte
    let untouched: Vec<InitialObj> = e.initial.iter().filter(|o| o.mvol == mvol).cloned().collect();
    for o in untouched {
        if o.opaque {
            let b = img.get(o.slot_blk);
            let cur = &b[o.slot_off as usize..o.slot_off as usize + 32];
            // a long-name fragment goes with its entry: marked deleted (first byte only) once
            // that entry has been deleted
            // (once the entry it belonged to has been deleted, the fragment's slot is free and may hold
            // anything a later call put there)
            let went_with_its_entry = match o.owner {
                Some((ob, oo)) => {
                    let owner_path = e.initial.iter().find(|x| x.mvol == mvol && !x.opaque && x.slot_blk == ob && x.slot_off == oo).map(|x| x.path.clone());
                    match owner_path {
                        Some(pth) => {
                            // is the pre-existing object of that path still there?
                            let mut cur_n = e.m.vols[mvol].root;
                            let mut alive = true;
                            for part in pth.split('/').filter(|p| !p.is_empty()) {
                                let key = crate::mkfs::name11(part);
                                match e.m.nodes[cur_n].children.iter().cloned().find(|&c| e.m.nodes[c].name == key && e.m.nodes[c].pre_existing) {
                                    Some(c) => cur_n = c,
                                    None => {
                                        alive = false;
                                        break;
                                    }
                                }
                            }
                            !alive
                        }
                        None => false,
                    }
                }
                // an orphan (no entry behind it): not part of any object; a create that takes the
                // free slot behind it clears it, after which the slot is anybody's
                None => (o.raw[11] & 0x3F) == 0x0F,
            };
            if cur != o.raw && !went_with_its_entry {
                e.violate("C02", "C02.untouched-slot", "long-name or label slot", format!("slot at block {} offset {} (long-name fragment or label) changed", o.slot_blk, o.slot_off));
                return;
            }
            continue;
        }
        // was it touched?
        let touched = {
            let parts: Vec<&str> = o.path.split('/').collect();
            let mut cur = e.m.vols[mvol].root;
            let mut t = false;
            let mut found = true;
            for p in parts {
                let key = crate::mkfs::name11(p);
                match e.m.nodes[cur].children.iter().cloned().find(|&c| e.m.nodes[c].name == key && e.m.nodes[c].pre_existing) {
                    Some(c) => cur = c,
                    None => {
                        found = false;
                        break;
                    }
                }
            }
            if found {
                t = e.m.nodes[cur].touched && e.m.nodes[cur].kind == Kind::File;
            } else {
                t = true; // deleted (or an ancestor changed)
            }
            t
        };
        if touched {
            continue;
        }
        let b = img.get(o.slot_blk);
        if b[o.slot_off as usize..o.slot_off as usize + 32] != o.raw {
            e.violate("C02", "C02.untouched-slot", "directory entry", format!("directory entry of untouched {} changed", o.path));
            return;
        }
        if !o.is_dir {
            let (chain, _) = if o.chain.is_empty() { (vec![], fatref::ChainEnd::Eoc) } else { snap.chain(o.chain[0]) };
            if chain != o.chain {
                e.violate("C02", "C02.untouched-data", "chain", format!("cluster chain of untouched {} changed", o.path));
                return;
            }
            if o.chain.len() <= 4096 {
                let mut h = 0u64;
                for &c in &o.chain {
                    for k in 0..snap.vol.spc {
                        h = crate::prng::mix(&[h, crate::prng::hash_bytes(&img.get(snap.vol.cluster_blk(c) + k))]);
                    }
                }
                if h != o.content_hash {
                    e.violate("C02", "C02.untouched-data", "contents", format!("contents of untouched {} changed", o.path));
                    return;
                }
            }
        }
    }
    e.count("medium_comparisons");
    // the library itself, freshly mounted on a copy
    if with_library {
        let m = fsx::mount_image(img.clone(), (4, 4, 1), 5000);
        let r = crate::report::catch(|| -> Result<Option<(String, String)>, crate::vm::E> {
            let v = m.vm.open_volume(Fl::Raw, part)?;
            let mut dirs: Vec<String> = vec![String::new()];
            dirs.extend(w.nodes.iter().filter(|n| n.is_dir).map(|n| n.path.clone()));
            for dp in dirs.iter().take(12) {
                let d = fsx::open_path(&*m.vm, v, dp)?;
                let listing = fsx::list_dir(&*m.vm, d)?;
                for x in w.nodes.iter().filter(|n| !n.is_dir && n.path.rsplit_once('/').map(|p| p.0).unwrap_or("") == dp.as_str()) {
                    let nm = x.slot.name();
                    let Some(le) = listing.iter().find(|l| l.name == nm) else { return Ok(Some(("file not listed".into(), format!("fresh library mount does not list {}", x.path)))) };
                    if le.size != x.size {
                        return Ok(Some(("size".into(), format!("fresh library mount reports size {} for {}, medium has {}", le.size, x.path, x.size))));
                    }
                    if x.size <= 200_000 {
                        let name = fatref::display_name(&nm);
                        if key_of(&name).is_ok() {
                            let data = fsx::read_all(&*m.vm, d, Nm::Str(&name), 4096)?;
                            let want = snap.read_chain_bytes(&x.chain, x.size);
                            if data != want {
                                return Ok(Some(("contents".into(), format!("fresh library mount reads {} differently from the medium", x.path))));
                            }
                        }
                    }
                }
                m.vm.close_dir(Fl::Raw, d)?;
            }
            Ok(None)
        });
        match r {
            Ok(Ok(None)) => e.count("library_remounts"),
            Ok(Ok(Some((d, msg)))) => e.violate("C02", "C02.bytes", &format!("library re-mount: {}", d), msg),
            Ok(Err(er)) => e.violate("C02", "C02.missing", "library re-mount fails", format!("fresh library mount failed: {:?}", er)),
            Err((pm, loc)) => e.violate("C02", "C02.missing", "library re-mount panics", format!("fresh library mount panicked: {} at {}", pm, loc)),
        }
    }
}
