//! C11 – a failure injected at every single device-call index of a history.

use super::engine::Engine;
use super::gen::Profile;
use super::ops::{Exec, Op, OpRes, Out};
use super::run::{build_image, flags_for, HistCfg};
use crate::dev::{Disk, Fault, FaultClass, Image};
use crate::fatref::{self, Snap};
use crate::fsx::Recipe;
use crate::json::J;
use crate::prng::Rng;
use crate::report::{self, Ctx, Evidence, Report, Violation};
use crate::vm::{make_vm, Clock, Ek, Fl};
use std::collections::HashMap;

fn fault_cfg(seed: u64, index: u64) -> HistCfg {
    let mut rng = Rng::from_parts(&[seed, index, 0xFA17]);
    // every fifth history works inside a directory whose slots are all taken (it has to grow: a
    // cluster is allocated, wiped and linked under fault)
    let edge = index % 5 == 4;
    HistCfg {
        prop: "C11".into(),
        seed,
        index,
        profile: if edge { Profile::Edge } else { *rng.pick(&[Profile::Dirs, Profile::Dirs, Profile::Mixed, Profile::Rw]) },
        limits: (4, 4, 1),
        id_offset: 5000,
        nops: if edge { 4 + rng.usize_below(9) } else { 8 + rng.usize_below(32) },
        two_parts: false,
        fat32: Some(index % 3 == 0),
        max_spc: *rng.pick(&[1u32, 1, 2]),
        recipe: Recipe::Rich, // multi-cluster directories: FAT reads happen during directory walks
        leave_free: if edge {
            if rng.chance(1, 2) { Some((*rng.pick(&[2u32, 3, 6]), rng.below(3) as u32)) } else { None }
        } else if index % 3 != 0 && rng.chance(1, 4) {
            Some((*rng.pick(&[1u32, 4, 30]), rng.below(3) as u32))
        } else {
            None
        },
        force_two_fats: false,
        fsinfo: None,
        full_dir: edge,
        mini_deadline: None,
    }
}

fn v(rule: &str, call: &str, detail: &str, msg: String, case: J) -> Violation {
    Violation::new("C11", rule, call, detail, msg, case)
}

/// names an op involves (so that "files not involved in the failed call" can be told apart)
fn op_names(op: &Op) -> Vec<String> {
    match op {
        Op::OpenFile { name, .. } | Op::Delete { name, .. } | Op::Mkdir { name, .. } | Op::Find { name, .. } | Op::OpenDir { name, .. } | Op::ChangeDir { name, .. } => vec![name.to_uppercase()],
        _ => vec![],
    }
}

struct Snapshot {
    /// path -> (size, chain, content hash)
    files: HashMap<String, (u32, Vec<u32>, u64)>,
}

fn snapshot(img: &Image, part: usize) -> Option<Snapshot> {
    let snap = Snap::open(img, part).ok()?;
    let w = snap.walk();
    let mut files = HashMap::new();
    for n in w.nodes.iter().filter(|n| !n.is_dir && n.size < (1 << 20)) {
        let data = snap.read_chain_bytes(&n.chain, n.size);
        files.insert(n.path.clone(), (n.size, n.chain.clone(), crate::prng::hash_bytes(&data)));
    }
    Some(Snapshot { files })
}

fn fresh_exec(img: &std::sync::Arc<Image>, limits: (usize, usize, usize), id_offset: u32) -> Exec {
    let disk = Disk::new(Image::overlay(img));
    disk.with(|s| s.record_writes = false);
    let clock = Clock::new(1000);
    let vm = make_vm(limits, disk.clone(), clock.clone(), id_offset);
    Exec::new(vm, disk, clock)
}

fn acceptable_error(op: &Op, k: Ek) -> bool {
    if k == Ek::DeviceError {
        return true;
    }
    // documented mappings of an allocation failure inside write
    matches!(op, Op::Write { .. }) && matches!(k, Ek::DiskFull | Ek::AllocationError)
}

pub struct Plan {
    pub fault: Fault,
    pub class: FaultClass,
    pub label: String,
}

/// Re-execute `ops` on a fresh copy of `initial` under the fault plan and judge the outcome.
#[allow(clippy::too_many_arguments)]
fn faulted_run(initial: &std::sync::Arc<Image>, part: usize, cfg: &HistCfg, ops: &[Op], golden: &[OpRes], calls_start: &[(u64, u64, u64)], plan: &Plan, nblocks_budget: u64, case: &J, rep: &mut Report) -> bool {
    let mut ex = fresh_exec(initial, cfg.limits, cfg.id_offset);
    ex.disk.with(|s| {
        s.fault = plan.fault.clone();
        s.fault_class = plan.class;
        s.budget = nblocks_budget;
    });
    let single = matches!(plan.fault, Fault::At(_));
    let mk_case = |opi: usize| {
        let mut c = case.clone();
        c.put("fault", plan.label.as_str());
        c.put("faulted_op_index", opi);
        c.put("faulted_op", ops[opi].describe());
        c
    };
    let mut pre: Option<Snapshot> = None;
    let mut faulted_at: Option<usize> = None;
    let mut open_files_at_fault: Vec<String> = Vec::new();
    let mut open_names: HashMap<usize, String> = HashMap::new();
    let mut read_off: Option<u32> = None;
    // a close_volume that met a fault may or may not have released the volume (close_file does
    // release its handle on error; either policy keeps the API usable)
    let mut closevol_faulted = false;
    let mut free_before: Option<u32>;
    for (i, op) in ops.iter().enumerate() {
        let fired_before = ex.disk.with(|s| s.fired.len());
        // which op will receive a one-shot fault is not known in advance under a class filter, so
        // take the cheap precaution of snapshotting lazily: only ops that touch the device matter
        let res = {
            // snapshot right before the op that will receive the one-shot fault (known from the
            // golden run's device-call counters, which the replay reproduces exactly up to there)
            if single && pre.is_none() {
                if let Fault::At(x) = plan.fault {
                    let sel = |c: &(u64, u64, u64)| match plan.class {
                        FaultClass::Any => c.0,
                        FaultClass::Reads => c.1,
                        FaultClass::Writes => c.2,
                    };
                    let next = calls_start.get(i + 1).map(sel).unwrap_or(u64::MAX);
                    if calls_start.get(i).map(sel).unwrap_or(0) <= x && x < next {
                        pre = snapshot(&ex.disk.0.borrow().img, part);
                    }
                }
            }
            if let Op::Read { fs, .. } = op {
                read_off = ex.files.get(*fs).cloned().flatten().and_then(|h| ex.vm.offset(Fl::Raw, h).ok());
            }
            // several faults in one run: once an earlier call has failed, the volume is no longer in
            // the state the fault-free run had here (a failed create may keep the cluster it took),
            // so "out of space" can be this call's own, truthful reason although the fault-free run
            // succeeded - the medium says whether it can be
            if !single && faulted_at.is_some() && matches!(op, Op::Mkdir { .. } | Op::OpenFile { .. }) {
                free_before = Snap::open(&ex.disk.0.borrow().img, part).ok().map(|s| s.free_count());
            } else {
                free_before = None;
            }
            ex.exec(op)
        };
        let fired_after = ex.disk.with(|s| s.fired.len());
        let hit = fired_after > fired_before;
        match op {
            Op::OpenFile { fs, name, .. } if res.is_ok() => {
                open_names.insert(*fs, name.to_uppercase());
            }
            Op::CloseFile { fs, .. } | Op::DropFile { fs } => {
                if !hit {
                    open_names.remove(fs);
                }
            }
            _ => {}
        }
        if hit && matches!(op, Op::CloseVol { .. }) && !res.is_ok() {
            closevol_faulted = true;
        }
        if ex.disk.with(|s| s.budget_hit) {
            rep.violate(v("C11.hang", op.kind(), "device-call budget exceeded", format!("{} issued more than {} device calls after {}", op.describe(), nblocks_budget, plan.label), mk_case(i)));
            return false;
        }
        if let OpRes::Panic(m, l) = &res {
            rep.violate(v("C11.panic", op.kind(), &report::short_loc(l), format!("{} panicked ('{}' at {}) under {}", op.describe(), m, report::short_loc(l), plan.label), mk_case(i)));
            return false;
        }
        if !hit {
            if faulted_at.is_none() && single && golden.get(i).map(|g| *g != res).unwrap_or(false) && !matches!(res, OpRes::Ok(Out::Skipped)) {
                // before the fault the run must replay the golden run exactly
                rep.inconclusive.push(format!("replay diverged before the fault at op {} ({} vs golden {})", i, res.short(), golden[i].short()));
                return false;
            }
            if faulted_at.is_some() && single {
                // later ops may legitimately differ (the failed call did not take effect)
            }
            continue;
        }
        // ---- this call saw a failing device call -------------------------------------------------
        rep.count("faulted_calls", 1);
        rep.count(&format!("faulted {}", op.kind()), 1);
        if faulted_at.is_none() {
            faulted_at = Some(i);
        }
        let returns_result = !matches!(op, Op::DropFile { .. } | Op::DropDir { .. } | Op::DropVol { .. } | Op::HasOpen);
        match &res {
            OpRes::Ok(out) if returns_result => {
                let what = match out {
                    Out::Listing(l) => format!("Ok listing with {} entries (fault-free: {})", l.len(), match golden.get(i) { Some(OpRes::Ok(Out::Listing(g))) => g.len().to_string(), _ => "?".into() }),
                    Out::ListingLfn(l) => format!("Ok listing with {} entries", l.len()),
                    o => format!("Ok({:?})", o).chars().take(80).collect(),
                };
                rep.violate(v("C11.ok-despite-fault", op.kind(), "returned success", format!("{} returned {} although a device call failed during it ({})", op.describe(), what, plan.label), mk_case(i)));
                return false;
            }
            // (a call that fails for its own reason in the fault-free run too - e.g. NotEnoughSpace -
            // still "returns an error" when a device call fails during its clean-up)
            // (several faults in one run: once an earlier call has failed, the volume is no longer in
            // the state the fault-free run had at this point - a failed create may keep the cluster
            // it took, a failed delete keeps its slot in a full FAT16 root - so the fault-free run
            // cannot say what this call's own reason would be. Such a call "returns an error", which
            // is what the statement asks; the own-reason comparison is made for the first faulted
            // call of a run only, where the state before it equals the fault-free one.)
            OpRes::Err(_) if faulted_at != Some(i) => {
                let _ = free_before;
                rep.count("errors_after_an_earlier_faulted_call_not_compared", 1);
            }
            OpRes::Err(k) if !acceptable_error(op, *k) && golden.get(i) != Some(&OpRes::Err(*k)) => {
                rep.violate(v("C11.ok-despite-fault", op.kind(), &format!("fabricated answer {:?}", k), format!("{} answered {:?} although the device failed during it ({})", op.describe(), k, plan.label), mk_case(i)));
                return false;
            }
            _ => {}
        }
        if !single {
            continue;
        }
        // ---- a read-only call that failed on a transient fault answers correctly when retried ------
        open_files_at_fault = open_names.values().cloned().collect();
        let retryable = op.read_only() || matches!(op, Op::OpenDir { .. }) || matches!(op, Op::OpenFile { mode: embedded_sdmmc::Mode::ReadOnly, .. });
        if retryable {
            if let (Op::Read { fs, .. }, OpRes::Err(_)) = (op, &res) {
                // the caller gets no byte count with an error: the failed read must have left the
                // position where it found it, or the plain retry below skips part of the file
                if let (Some(h), Some(o)) = (ex.files.get(*fs).cloned().flatten(), read_off) {
                    if let Ok(after) = ex.vm.offset(Fl::Raw, h) {
                        rep.count("failed_reads_offset_checked", 1);
                        if after != o {
                            rep.violate(v("C11.retry-differs", op.kind(), "failed read moved the file position", format!("{} failed ({}) and left the offset at {} (was {}): the error carries no byte count, so a retry cannot give the answer the failed call owed", op.describe(), plan.label, after, o), mk_case(i)));
                            return false;
                        }
                    }
                }
            }
            let again = ex.exec(op);
            let same = match (&again, golden.get(i)) {
                (a, Some(g)) => a == g,
                _ => true,
            };
            if !same {
                rep.violate(v("C11.retry-differs", op.kind(), "retry after transient fault", format!("{} retried after the transient fault gives {}, fault-free run gave {} ({})", op.describe(), again.short(), golden[i].short(), plan.label), mk_case(i)));
                return false;
            }
            rep.count("retries_compared", 1);
        }
        break;
    }
    let Some(fi) = faulted_at else {
        rep.count("fault_never_fired", 1);
        return true;
    };
    // ---- afterwards every handle can still be queried and closed --------------------------------
    ex.disk.with(|s| s.fault = Fault::None);
    // ---- nothing of the failed call lives on in the library: what it now lists is what is on the medium
    if single {
        let open_dirs: Vec<embedded_sdmmc::RawDirectory> = ex.dirs.iter().flatten().cloned().collect();
        for d in open_dirs {
            let mut live: Vec<crate::fsx::EntryView> = Vec::new();
            let r = report::catch(|| ex.vm.iterate(Fl::Raw, d, &mut |e| live.push(crate::fsx::view(e))).map_err(|e| crate::vm::ek(&e)));
            if !matches!(r, Ok(Ok(()))) {
                continue; // (judged by the handle checks below)
            }
            let img = ex.disk.0.borrow();
            let mut per_block: HashMap<u32, usize> = HashMap::new();
            let mut bad: Option<String> = None;
            for e in &live {
                *per_block.entry(e.blk).or_insert(0) += 1;
                let b = img.img.read(e.blk);
                let o = e.off as usize;
                if o + 32 > 512 || b[o..o + 11] != e.name[..] || u32::from_le_bytes([b[o + 28], b[o + 29], b[o + 30], b[o + 31]]) != e.size {
                    bad = Some(format!("it lists {:?} ({} bytes) at block {} offset {}, the medium holds {:02x?} there", crate::fatref::display_name(&e.name), e.size, e.blk, e.off, &b[o.min(480)..o.min(480) + 11]));
                    break;
                }
            }
            if bad.is_none() {
                for (blk, n) in &per_block {
                    let b = img.img.read(*blk);
                    let mut on_medium = 0usize;
                    for s in b.chunks(32) {
                        if s[0] == 0x00 {
                            break;
                        }
                        if s[0] != 0xE5 && (s[11] & 0x3F) != 0x0F {
                            on_medium += 1;
                        }
                    }
                    if on_medium != *n {
                        bad = Some(format!("it lists {} entries from directory block {}, the medium holds {} live entries there", n, blk, on_medium));
                        break;
                    }
                }
            }
            drop(img);
            rep.count("live_listing_vs_medium_after_fault", 1);
            if let Some(msg) = bad {
                rep.violate(v("C11.bystander-damaged", ops[fi].kind(), "library's view differs from the medium", format!("after the failed {} ({}) the library's view of an open directory is not what the medium holds: {} - the failed call lives on in the library", ops[fi].describe(), plan.label, msg), mk_case(fi)));
                return false;
            }
        }
    }
    let mut files: Vec<(usize, embedded_sdmmc::RawFile)> = ex.files.iter().enumerate().filter_map(|(i, f)| f.map(|f| (i, f))).collect();
    files.extend(ex.displaced_files.iter().map(|f| (99, *f)));
    for (slot, f) in files {
        let q = report::catch(|| (ex.vm.length(Fl::Raw, f).is_ok(), ex.vm.offset(Fl::Raw, f).is_ok(), ex.vm.eof(Fl::Raw, f).is_ok()));
        if q != Ok((true, true, true)) {
            rep.violate(v("C11.handle-wedged", ops[fi].kind(), "open file cannot be queried", format!("after the failed {} the open file f{} cannot be queried: {:?}", ops[fi].describe(), slot, q), mk_case(fi)));
            return false;
        }
        let c1 = report::catch(|| ex.vm.close_file(Fl::Raw, f).map_err(|e| crate::vm::ek(&e)));
        let c2 = report::catch(|| ex.vm.close_file(Fl::Raw, f).map_err(|e| crate::vm::ek(&e)));
        match (c1, c2) {
            (Ok(_), Ok(Err(Ek::BadHandle))) => {}
            (a, b) => {
                rep.violate(v("C11.handle-wedged", ops[fi].kind(), "close after fault", format!("after the failed {}: close_file gave {:?}, a second close gave {:?} (expected BadHandle)", ops[fi].describe(), a, b), mk_case(fi)));
                return false;
            }
        }
    }
    let mut dirs: Vec<embedded_sdmmc::RawDirectory> = ex.dirs.iter().flatten().cloned().collect();
    dirs.extend(ex.displaced_dirs.iter().cloned());
    for d in dirs {
        let r = report::catch(|| ex.vm.close_dir(Fl::Raw, d).is_ok());
        if r != Ok(true) {
            rep.violate(v("C11.handle-wedged", ops[fi].kind(), "close_dir after fault", format!("after the failed {} a directory cannot be closed: {:?}", ops[fi].describe(), r), mk_case(fi)));
            return false;
        }
    }
    // a `Volume` wrapper whose close() (or drop) met the fault is gone - the caller holds nothing it
    // could close again - so the volume must be free to be opened afresh
    if single {
        if let Op::CloseVol { fl: Fl::Wrap | Fl::Io, vs } | Op::DropVol { vs } = &ops[fi] {
            let part_of = ops[..fi].iter().rev().find_map(|o| match o {
                Op::OpenVol { part, vs: v2, .. } if v2 == vs => Some(*part),
                _ => None,
            });
            if let (Some(p), Some(h)) = (part_of, ex.vols.get(*vs).cloned().flatten()) {
                let r = report::catch(|| ex.vm.open_volume(Fl::Raw, p).map_err(|e| crate::vm::ek(&e)));
                rep.count("reopen_after_failed_wrapper_close", 1);
                match r {
                    Ok(Ok(nv)) => {
                        let _ = ex.vm.close_volume(Fl::Raw, nv);
                        ex.vols[*vs] = None;
                        let _ = h;
                    }
                    other => {
                        rep.violate(v("C11.handle-wedged", ops[fi].kind(), "volume cannot be opened again", format!("{} met the fault ({}); the wrapper is consumed, and opening the volume again gives {:?}", ops[fi].describe(), plan.label, other), mk_case(fi)));
                        return false;
                    }
                }
            }
        }
    }
    let mut vols: Vec<embedded_sdmmc::RawVolume> = ex.vols.iter().flatten().cloned().collect();
    vols.extend(ex.displaced_vols.iter().cloned());
    // a `drop(Volume)` earlier in the history may already have closed a volume (Drop = close
    // ignoring the error; whether it closed is not observable): BadHandle is then legitimate
    let dropped_any = ops.iter().any(|o| matches!(o, Op::DropVol { .. }));
    for vh in vols {
        let r = report::catch(|| ex.vm.close_volume(Fl::Raw, vh).map_err(|e| crate::vm::ek(&e)));
        if (dropped_any || closevol_faulted) && matches!(r, Ok(Err(Ek::BadHandle))) {
            continue;
        }
        if !matches!(r, Ok(Ok(()))) {
            rep.violate(v("C11.handle-wedged", ops[fi].kind(), "close_volume after fault", format!("after the failed {} the volume cannot be closed: {:?}", ops[fi].describe(), r), mk_case(fi)));
            return false;
        }
    }
    if !single {
        return true;
    }
    // ---- the medium: no duplicate names; bystander files intact ----------------------------------
    let st = ex.disk.0.borrow();
    let Ok(snap) = Snap::open(&st.img, part) else {
        drop(st);
        rep.violate(v("C11.bystander-damaged", ops[fi].kind(), "volume no longer mounts", format!("after the failed {} the independent reader cannot mount the volume", ops[fi].describe()), mk_case(fi)));
        return false;
    };
    let w = snap.walk();
    if let Some(f) = w.findings.iter().find(|f| f.rule == "dup-name") {
        let msg = format!("after the failed {}: directory '{}' holds {}", ops[fi].describe(), f.path, f.detail);
        drop(snap);
        drop(st);
        rep.violate(v("C11.dup-name", ops[fi].kind(), "two entries with one name", msg, mk_case(fi)));
        return false;
    }
    if let Some(pre) = &pre {
        let mut involved = op_names(&ops[fi]);
        // files open at the time of the fault are flushed by our close-all: they may change
        involved.extend(open_files_at_fault.iter().cloned());
        let idx = fatref::by_path(&w);
        for (path, (size, _chain, hash)) in &pre.files {
            let leaf = path.rsplit('/').next().unwrap_or(path).to_uppercase();
            if involved.contains(&leaf) {
                continue;
            }
            let Some(&ni) = idx.get(path) else {
                let msg = format!("after the failed {}: bystander {} vanished", ops[fi].describe(), path);
                drop(snap);
                drop(st);
                rep.violate(v("C11.bystander-damaged", ops[fi].kind(), "file vanished", msg, mk_case(fi)));
                return false;
            };
            let n = &w.nodes[ni];
            let data = snap.read_chain_bytes(&n.chain, n.size);
            if n.size != *size || crate::prng::hash_bytes(&data) != *hash {
                let msg = format!("after the failed {}: bystander {} changed (size {} -> {})", ops[fi].describe(), path, size, n.size);
                drop(snap);
                drop(st);
                rep.violate(v("C11.bystander-damaged", ops[fi].kind(), "contents changed", msg, mk_case(fi)));
                return false;
            }
        }
        rep.count("bystander_sets_compared", 1);
    }
    true
}

pub fn one_history(ctx: &Ctx, cfg: &HistCfg, rep: &mut Report) {
    let built = match report::catch(|| build_image(cfg)) {
        Ok(b) => b,
        Err((m, _)) => {
            rep.inconclusive.push(format!("image construction failed: {}", m));
            return;
        }
    };
    let initial = std::sync::Arc::new(built.img.clone());
    let part = built.parts[0].part_slot;
    let nblocks = built.parts[0].part_len() as u64;
    let mut case = cfg.to_json();
    case.put("geometry", built.parts[0].describe());
    // ---- fault-free (golden) run with the model, which also generates the op list ---------------
    let mut e = match Engine::new(built.img, built.parts.clone(), cfg.limits, cfg.id_offset, flags_for("C11"), case.clone()) {
        Ok(e) => e,
        Err(er) => {
            rep.inconclusive.push(er);
            return;
        }
    };
    let mut rng = Rng::from_parts(&[cfg.seed, cfg.index, 0x0b5]);
    for op in e.setup_ops(&mut rng) {
        e.step(op);
    }
    // make sure multi-cluster directories are walked: open BIGDIR when it exists
    e.step(Op::OpenDir { fl: Fl::Raw, parent: 0, name: if cfg.full_dir { "FULLDIR" } else { "BIGDIR" }.into(), ds: 1 });
    for _ in 0..cfg.nops {
        if e.aborted {
            break;
        }
        let op = e.gen_op(&mut rng, cfg.profile);
        e.step(op);
    }
    if e.aborted {
        // the fault-free run itself disagrees with the model: some other property's business
        rep.count("golden_runs_aborted", 1);
        return;
    }
    e.teardown();
    let ops = e.ops.clone();
    let golden = e.results.clone();
    let calls_start = e.op_calls_start.clone();
    let ncalls = e.ex.disk.calls();
    let (nreads, nwrites) = e.ex.disk.with(|s| (s.read_calls, s.write_calls));
    rep.count("histories", 1);
    rep.count("golden_device_calls", ncalls);
    case.put("ops", super::ops::ops_json(&ops, &golden, 60));
    let budget = 8 * nblocks + 10_000;
    let geom_hash = built.parts[0].hash();
    let mut kind_hash = 0u64;
    for op in &ops {
        kind_hash = crate::prng::mix(&[kind_hash, crate::prng::hash_bytes(op.kind().as_bytes())]);
    }
    // ---- one re-execution per device-call index ---------------------------------------------------
    for i in 0..ncalls {
        let plan = Plan { fault: Fault::At(i), class: FaultClass::Any, label: format!("device call #{} fails once", i) };
        rep.evaluations += 1;
        rep.distinct.insert(crate::prng::mix(&[geom_hash, kind_hash, i]));
        if !faulted_run(&initial, part, cfg, &ops, &golden, &calls_start, &plan, budget, &case, rep) {
            return;
        }
    }
    if !ctx.quick() || cfg.index % 4 == 0 {
        // persistent failure from call i on; read-only / write-only classes; random multi-fault masks
        let mut rng = Rng::from_parts(&[cfg.seed, cfg.index, 0xFA18]);
        let mut plans: Vec<Plan> = Vec::new();
        let step = if ctx.quick() { (ncalls / 12).max(1) } else { 1 };
        let mut i = 0;
        while i < ncalls {
            plans.push(Plan { fault: Fault::From(i), class: FaultClass::Any, label: format!("every device call from #{} on fails", i) });
            i += step;
        }
        for _ in 0..ctx.pick(6, 60) {
            let k = 2 + rng.usize_below(3);
            let mut m: Vec<u64> = (0..k).map(|_| rng.below(ncalls.max(1))).collect();
            m.sort();
            m.dedup();
            plans.push(Plan { label: format!("device calls {:?} fail", m), fault: Fault::Mask(m), class: FaultClass::Any });
        }
        for _ in 0..ctx.pick(6, 60) {
            let r = rng.below(nreads.max(1));
            plans.push(Plan { fault: Fault::At(r), class: FaultClass::Reads, label: format!("read call #{} fails once", r) });
            let wv = rng.below(nwrites.max(1));
            plans.push(Plan { fault: Fault::At(wv), class: FaultClass::Writes, label: format!("write call #{} fails once", wv) });
        }
        for plan in plans {
            rep.evaluations += 1;
            rep.distinct.insert(crate::prng::mix(&[geom_hash, kind_hash, crate::prng::hash_bytes(plan.label.as_bytes())]));
            if !faulted_run(&initial, part, cfg, &ops, &golden, &calls_start, &plan, budget, &case, rep) {
                return;
            }
        }
    }
    if rep.samples.len() < 2 {
        rep.samples.push(cfg.to_json().set("geometry", built.parts[0].describe()).set("golden_device_calls", ncalls).set("ops", super::ops::ops_json(&ops, &golden, 40)));
    }
}

pub fn run(ctx: &Ctx) -> i32 {
    let ev = || Evidence {
        level: "fault_enumeration",
        rule: "a case is one re-execution of a recorded API history (8-40 calls on FAT16/FAT32 volumes with multi-cluster directories) with an injected device failure: exhaustively one re-execution per device-call index of the fault-free run (read buffer scribbled on failed reads), plus persistent failures, read-only/write-only fault classes and random 2-4 fault masks; distinct = distinct (geometry, op-kind sequence, fault plan)".into(),
        assumptions: vec![
            "the fault-free run of the same op list supplies the expected answers (it is itself checked against the executable model)".into(),
            "an error is acceptable when it is DeviceError, or DiskFull/AllocationError from write (documented mappings)".into(),
            "hangs are decided on a device-call budget per API call (8 x blocks in the volume + 10000), not on wall-clock".into(),
        ],
        exhaustive: Some(true),
        extra: vec![("exhaustive_scope".into(), J::s("every single device-call index of every history run (histories are sampled)"))],
        min_distinct: 100,
        min_counters: vec![("faulted_calls", 1000), ("retries_compared", 100), ("bystander_sets_compared", 500)],
    };
    if let Some(rp) = &ctx.replay {
        let idx = rp.get("case").and_then(|c| c.get("history_index")).and_then(|x| x.as_u64()).unwrap_or(0);
        let mut rep = Report::new();
        one_history(ctx, &fault_cfg(ctx.seed, idx), &mut rep);
        rep.distinct_extra += 100;
        return report::finish(ctx, rep, ev());
    }
    let n = ctx.arg_u64("histories").map(|x| x as usize).unwrap_or(ctx.pick(1200usize, 20_000usize));
    let total = report::parallel(ctx.threads, n, |i, rep| one_history(ctx, &fault_cfg(ctx.seed, i as u64), rep));
    report::finish(ctx, total, ev())
}
