//! Executable model of the VolumeManager API: trees, byte arrays, handle tables.

use crate::codec::entry::{name_ref, NameRef};
use crate::fatref::{self, Walk};
use crate::vm::Ek;
use embedded_sdmmc::{Mode, Timestamp};

#[derive(Clone, Debug, PartialEq)]
pub enum Kind {
    File,
    Dir,
    /// volume label or other slot the model only knows as an occupied name
    Opaque,
}

#[derive(Clone, Debug)]
pub struct Node {
    pub vol: usize,
    pub parent: Option<usize>,
    pub name: [u8; 11],
    pub kind: Kind,
    pub attr: u8,
    pub exists: bool,
    pub children: Vec<usize>,
    // ---- files
    pub data: Vec<u8>,
    /// length recorded in the on-disk entry
    pub disk_len: u32,
    /// acceptable creation times (empty: pre-existing, compared raw instead)
    pub ctime_ok: Vec<Timestamp>,
    /// acceptable modification times (empty: not pinned)
    pub mtime_ok: Vec<Timestamp>,
    /// the last call that stored bytes in this file never asked the clock for the time
    pub mtime_missed: bool,
    pub pre_existing: bool,
    /// the history has (possibly) changed this object or, for directories, its slot list
    pub touched: bool,
    /// open handle count (files: 0 or 1)
    pub open: bool,
    /// start cluster as seen on the medium (dirs; 0 = FAT16 root / unknown)
    pub start: u32,
    pub is_root: bool,
}

#[derive(Clone, Debug)]
pub struct MVol {
    /// partition slot
    pub part: usize,
    pub root: usize,
    pub fat32: bool,
    pub label_bpb: Vec<u8>,
    pub label_root: Option<Vec<u8>>,
}

#[derive(Clone, Debug)]
pub struct HVol {
    pub vol: usize,
}
#[derive(Clone, Debug)]
pub struct HDir {
    pub vs: usize,
    pub vol: usize,
    pub node: usize,
}
#[derive(Clone, Debug)]
pub struct HFile {
    pub vs: usize,
    pub vol: usize,
    pub node: usize,
    pub writable: bool,
    pub off: u32,
    /// set by the first successful (or partially successful) write; never cleared, like the library
    pub dirty: bool,
    /// has unflushed changes
    pub unflushed: bool,
    /// head of the file's chain while the on-disk entry still says "no cluster"
    pub pending_head: Option<u32>,
}

#[derive(Clone, Debug, Default)]
pub struct Model {
    pub nodes: Vec<Node>,
    pub vols: Vec<MVol>,
    pub hvols: Vec<Option<HVol>>,
    pub hdirs: Vec<Option<HDir>>,
    pub hfiles: Vec<Option<HFile>>,
    pub limits: (usize, usize, usize),
    pub closed_vols: usize,
    pub closed_dirs: usize,
    pub closed_files: usize,
}

#[derive(Clone, Debug, Default)]
pub struct Expect {
    /// success acceptable
    pub ok: bool,
    pub errs: Vec<Ek>,
}

impl Expect {
    pub fn ok() -> Expect {
        Expect { ok: true, errs: vec![] }
    }
    pub fn err(k: Ek) -> Expect {
        Expect { ok: false, errs: vec![k] }
    }
    pub fn from_reasons(r: Vec<Ek>) -> Expect {
        if r.is_empty() {
            Expect::ok()
        } else {
            Expect { ok: false, errs: r }
        }
    }
    pub fn admits_err(&self, k: Ek) -> bool {
        self.errs.contains(&k)
    }
}

/// The 11 bytes a name resolves to, when the library must accept it and the encoding is
/// unambiguous; Err(true) = must be rejected with FilenameError; Err(false) = statement silent.
pub fn key_of(name: &str) -> Result<[u8; 11], bool> {
    match name_ref(name) {
        NameRef::Reject => Err(true),
        NameRef::DontCare => Err(false),
        NameRef::Accept(sets) => {
            let mut k = [0u8; 11];
            for i in 0..11 {
                if sets[i].len() != 1 {
                    return Err(false);
                }
                k[i] = sets[i][0];
            }
            Ok(k)
        }
    }
}

pub const DOT: [u8; 11] = *b".          ";
pub const DOTDOT: [u8; 11] = *b"..         ";

impl Model {
    pub fn new(limits: (usize, usize, usize)) -> Model {
        Model { limits, ..Default::default() }
    }

    fn push_node(&mut self, n: Node) -> usize {
        self.nodes.push(n);
        self.nodes.len() - 1
    }

    /// Load a volume's tree from the independent reader's walk of the initial image.
    pub fn add_volume(&mut self, part: usize, snap: &fatref::Snap, w: &Walk, label_bpb: Vec<u8>) -> usize {
        let vol = self.vols.len();
        let blank = Node {
            vol,
            parent: None,
            name: [b' '; 11],
            kind: Kind::Dir,
            attr: 0x10,
            exists: true,
            children: vec![],
            data: vec![],
            disk_len: 0,
            ctime_ok: vec![],
            mtime_ok: vec![],
            mtime_missed: false,
            pre_existing: true,
            touched: false,
            open: false,
            start: 0,
            is_root: false,
        };
        let root = self.push_node(Node { is_root: true, start: if snap.vol.fat32 { snap.vol.root_cluster } else { 0 }, ..blank.clone() });
        // path -> node id
        let mut ids: std::collections::HashMap<String, usize> = std::collections::HashMap::new();
        ids.insert(String::new(), root);
        for n in &w.nodes {
            let ppath = match n.path.rfind('/') {
                Some(p) => n.path[..p].to_string(),
                None => String::new(),
            };
            let Some(&pid) = ids.get(&ppath) else { continue };
            // huge filler files are only known as occupied names
            let kind = if n.is_dir { Kind::Dir } else if n.size > (1 << 20) { Kind::Opaque } else { Kind::File };
            let data = if n.is_dir || n.size > (1 << 20) { vec![] } else { snap.read_chain_bytes(&n.chain, n.size) };
            let id = self.push_node(Node {
                parent: Some(pid),
                name: n.slot.name(),
                kind,
                attr: n.slot.attr(),
                data,
                disk_len: n.size,
                start: n.start,
                // a file keeps the modification time it came with until something is written to it
                mtime_ok: if n.is_dir {
                    vec![]
                } else {
                    let r = &n.slot.raw;
                    let t = crate::fsx::ts_from_fat(u16::from_le_bytes([r[24], r[25]]), u16::from_le_bytes([r[22], r[23]]));
                    vec![Timestamp { year_since_1970: t.0, zero_indexed_month: t.1, zero_indexed_day: t.2, hours: t.3, minutes: t.4, seconds: t.5 }]
                },
                ..blank.clone()
            });
            self.nodes[pid].children.push(id);
            if n.is_dir {
                ids.insert(n.path.clone(), id);
            }
        }
        // opaque names (labels) in every directory
        let mut label_root = None;
        for (loc, slots) in &w.dir_slots {
            let live = fatref::Snap::live_slots(slots);
            for s in live.iter().filter(|s| s.is_label()) {
                let pid = if *loc == snap.root_loc() {
                    if s.attr() == 0x08 && label_root.is_none() {
                        let nm = s.name();
                        let t: Vec<u8> = nm.iter().cloned().rev().skip_while(|b| b.is_ascii_whitespace()).collect::<Vec<u8>>().into_iter().rev().collect();
                        label_root = Some(t);
                    }
                    Some(root)
                } else {
                    self.nodes.iter().position(|n| n.vol == vol && n.kind == Kind::Dir && !n.is_root && fatref::DirLoc::Cluster(n.start) == *loc)
                };
                if let Some(pid) = pid {
                    let id = self.push_node(Node { parent: Some(pid), name: s.name(), kind: Kind::Opaque, attr: s.attr(), ..blank.clone() });
                    self.nodes[pid].children.push(id);
                }
            }
        }
        self.vols.push(MVol { part, root, fat32: snap.vol.fat32, label_bpb, label_root });
        vol
    }

    pub fn path_of(&self, id: usize) -> String {
        let mut parts = Vec::new();
        let mut cur = Some(id);
        while let Some(c) = cur {
            if self.nodes[c].is_root {
                break;
            }
            parts.push(fatref::display_name(&self.nodes[c].name));
            cur = self.nodes[c].parent;
        }
        parts.reverse();
        parts.join("/")
    }

    pub fn lookup(&self, dir: usize, key: &[u8; 11]) -> Option<usize> {
        self.nodes[dir].children.iter().cloned().find(|&c| self.nodes[c].exists && &self.nodes[c].name == key)
    }

    /// Resolve a name inside a directory the way a FAT directory does: "." and ".." are real
    /// entries of sub-directories (absent in the root).
    pub fn resolve(&self, dir: usize, key: &[u8; 11]) -> Option<usize> {
        // the root has no dot entries: there the two names are ordinary names
        if !self.nodes[dir].is_root {
            if key == &DOT {
                return Some(dir);
            }
            if key == &DOTDOT {
                return self.nodes[dir].parent;
            }
        }
        self.lookup(dir, key)
    }

    pub fn open_counts(&self) -> (usize, usize, usize) {
        (self.hvols.iter().flatten().count(), self.hdirs.iter().flatten().count(), self.hfiles.iter().flatten().count())
    }

    pub fn vol_in_use(&self, vs: usize) -> bool {
        self.hdirs.iter().flatten().any(|d| d.vs == vs) || self.hfiles.iter().flatten().any(|f| f.vs == vs)
    }

    pub fn files_open_on(&self, vol: usize) -> usize {
        self.hfiles.iter().flatten().filter(|f| f.vol == vol).count()
    }

    pub fn new_file(&mut self, vol: usize, dir: usize, key: [u8; 11], stamps: Vec<Timestamp>) -> usize {
        let id = self.push_node(Node {
            vol,
            parent: Some(dir),
            name: key,
            kind: Kind::File,
            attr: 0,
            exists: true,
            children: vec![],
            data: vec![],
            disk_len: 0,
            ctime_ok: stamps.clone(),
            mtime_ok: stamps,
            mtime_missed: false,
            pre_existing: false,
            touched: true,
            open: false,
            start: 0,
            is_root: false,
        });
        self.nodes[dir].children.push(id);
        self.nodes[dir].touched = true;
        id
    }

    pub fn new_dir(&mut self, vol: usize, dir: usize, key: [u8; 11]) -> usize {
        let id = self.push_node(Node {
            vol,
            parent: Some(dir),
            name: key,
            kind: Kind::Dir,
            attr: 0x10,
            exists: true,
            children: vec![],
            data: vec![],
            disk_len: 0,
            ctime_ok: vec![],
            mtime_ok: vec![],
            mtime_missed: false,
            pre_existing: false,
            touched: true,
            open: false,
            start: 0,
            is_root: false,
        });
        self.nodes[dir].children.push(id);
        self.nodes[dir].touched = true;
        id
    }

    pub fn remove(&mut self, id: usize) {
        self.nodes[id].exists = false;
        self.nodes[id].touched = true;
        if let Some(p) = self.nodes[id].parent {
            self.nodes[p].children.retain(|&c| c != id);
            self.nodes[p].touched = true;
        }
    }

    /// Acceptable outcomes of open_file_in_dir (Appendix B of DESIGN.md).
    pub fn expect_open_file(&self, dir_open: bool, dir: usize, name: &str, mode: Mode, can_create: Option<bool>) -> (Expect, Option<usize>) {
        let mut r = Vec::new();
        if self.open_counts().2 >= self.limits.1 {
            r.push(Ek::TooManyOpenFiles);
        }
        if !dir_open {
            r.push(Ek::BadHandle);
            return (Expect::from_reasons(r), None);
        }
        let key = match key_of(name) {
            Ok(k) => k,
            Err(true) => {
                r.push(Ek::FilenameError);
                return (Expect::from_reasons(r), None);
            }
            Err(false) => return (Expect { ok: true, errs: vec![Ek::FilenameError, Ek::NotFound, Ek::TooManyOpenFiles] }, None),
        };
        let target = self.resolve(dir, &key);
        match target {
            None => {
                match mode {
                    Mode::ReadOnly | Mode::ReadWriteAppend | Mode::ReadWriteTruncate => r.push(Ek::NotFound),
                    _ => {
                        if key == DOT || key == DOTDOT {
                            // creating "." / ".." in the root: statement silent
                            return (Expect { ok: true, errs: vec![Ek::FilenameError, Ek::NotFound, Ek::TooManyOpenFiles, Ek::NotEnoughSpace, Ek::DiskFull] }, None);
                        }
                        match can_create {
                            Some(true) => {}
                            Some(false) => {
                                r.push(Ek::NotEnoughSpace);
                                r.push(Ek::DiskFull);
                            }
                            None => {
                                let mut e = Expect::from_reasons(r);
                                e.errs.push(Ek::NotEnoughSpace);
                                e.errs.push(Ek::DiskFull);
                                return (e, None);
                            }
                        }
                    }
                }
                (Expect::from_reasons(r), None)
            }
            Some(t) => {
                let n = &self.nodes[t];
                if n.open {
                    r.push(Ek::FileAlreadyOpen);
                }
                if mode == Mode::ReadWriteCreate {
                    r.push(Ek::FileAlreadyExists);
                }
                if n.attr & 0x01 != 0 && mode != Mode::ReadOnly {
                    r.push(Ek::ReadOnly);
                }
                if n.kind == Kind::Dir || n.attr & 0x10 != 0 {
                    r.push(Ek::OpenedDirAsFile);
                }
                if n.kind == Kind::Opaque {
                    // labels: statement silent
                    return (Expect { ok: true, errs: vec![Ek::NotFound, Ek::ReadOnly, Ek::FileAlreadyExists, Ek::OpenedDirAsFile, Ek::TooManyOpenFiles] }, None);
                }
                (Expect::from_reasons(r), Some(t))
            }
        }
    }
}
