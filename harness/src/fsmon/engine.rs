//! The engine: executes ops through `Exec`, predicts them with `Model`, and feeds the monitors.

use super::model::{key_of, Expect, HDir, HFile, HVol, Kind, Model, DOT, DOTDOT};
use super::monitors;
use super::ops::{Exec, Op, OpRes, Out};
use crate::dev::{Disk, Image};
use crate::fatref::{self, DirLoc, FsckMode, Pending, Snap, Vol, Walk};
use crate::fsx;
use crate::json::J;
use crate::mkfs::Geom;
use crate::report::Violation;
use crate::vm::{is_space_error, make_vm, Clock, Ek, Fl, SeekTo};
use embedded_sdmmc::{Mode, Timestamp};
use std::collections::BTreeMap;

#[derive(Clone, Debug, Default)]
pub struct Flags {
    /// structural check after every call (C03)
    pub fsck: bool,
    /// write-log rules (C04)
    pub writes: bool,
    /// exact capacity / leak rules (C05)
    pub space: bool,
    /// FAT copies + FSInfo (C16)
    pub fat_meta: bool,
    /// whole-medium comparison at quiescent points (C02)
    pub remount: bool,
    /// record flush/close obligations for the crash checks (C09)
    pub obligations: bool,
    /// which property this run decides (violations of other properties abort the history only)
    pub prop: String,
}

/// Post-call view of one volume, cached as the next call's pre-state.
pub struct VolState {
    pub g: Geom,
    pub vol: Vol,
    pub fat: Vec<u32>,
    pub free: u32,
    pub walk: Walk,
    pub lost_heads: Vec<u32>,
    pub mvol: usize,
}

/// "File X was flushed with length L and contents S at write-log position p".
#[derive(Clone, Debug)]
pub struct Obligation {
    pub vol: usize,
    pub path: String,
    pub len: u32,
    pub data: Vec<u8>,
    pub from_log: usize,
    /// write-log position where the next call modifying X started (None: still active)
    pub until_log: Option<usize>,
    pub node: usize,
    pub made_by_op: usize,
}

pub struct Engine {
    pub ex: Exec,
    pub m: Model,
    pub vs: Vec<VolState>,
    pub flags: Flags,
    pub ops: Vec<Op>,
    pub results: Vec<OpRes>,
    pub viol: Vec<Violation>,
    pub aborted: bool,
    pub shadow: Image,
    pub log_pos: usize,
    pub counters: BTreeMap<String, u64>,
    pub case: J,
    pub obligations: Vec<Obligation>,
    /// FSInfo as read at mount per open volume slot: (count, hint, free entries at mount)
    pub fsinfo_mount: BTreeMap<usize, (u32, u32, u32)>,
    pub initial: Vec<monitors::InitialObj>,
    pub nontrivial: bool,
    pub write_tag: u32,
    /// op log index at which each op started (for crash obligations)
    pub op_log_start: Vec<usize>,
    /// device (calls, read calls, write calls) counters at the start of each op
    pub op_calls_start: Vec<(u64, u64, u64)>,
}

pub fn out_kind(r: &OpRes) -> String {
    match r {
        OpRes::Ok(_) => "Ok".to_string(),
        OpRes::Err(k) => format!("{:?}", k),
        OpRes::Panic(..) => "PANIC".to_string(),
    }
}

impl Engine {
    /// `parts`: geometry of each formatted partition of `img`.
    pub fn new(img: Image, parts: Vec<Geom>, limits: (usize, usize, usize), id_offset: u32, flags: Flags, case: J) -> Result<Engine, String> {
        let disk = Disk::new(img.clone());
        let clock = Clock::new(1000);
        let vm = make_vm(limits, disk.clone(), clock.clone(), id_offset);
        let ex = Exec::new(vm, disk, clock);
        let mut m = Model::new(limits);
        let mut vs = Vec::new();
        let mut initial = Vec::new();
        for g in parts {
            let snap = Snap::open(&img, g.part_slot)?;
            let (out, walk) = fatref::fsck(&snap, &[], FsckMode::Live);
            if !out.findings.is_empty() {
                return Err(format!("initial image not clean: {:?}", out.findings[0]));
            }
            let label: Vec<u8> = g.label.iter().cloned().rev().skip_while(|b| b.is_ascii_whitespace()).collect::<Vec<u8>>().into_iter().rev().collect();
            let mvol = m.add_volume(g.part_slot, &snap, &walk, label);
            monitors::collect_initial(&snap, &walk, mvol, &mut initial);
            let lost_heads = out.lost_chains.iter().map(|c| c[0]).collect();
            vs.push(VolState { g, vol: snap.vol.clone(), fat: snap.fat_raw.clone(), free: out.free, walk, lost_heads, mvol });
        }
        Ok(Engine {
            ex,
            m,
            vs,
            flags,
            ops: vec![],
            results: vec![],
            viol: vec![],
            aborted: false,
            shadow: img,
            log_pos: 0,
            counters: BTreeMap::new(),
            case,
            obligations: vec![],
            fsinfo_mount: BTreeMap::new(),
            initial,
            nontrivial: false,
            write_tag: 1,
            op_log_start: vec![],
            op_calls_start: vec![],
        })
    }

    pub fn count(&mut self, k: &str) {
        *self.counters.entry(k.to_string()).or_insert(0) += 1;
    }

    pub fn violate(&mut self, prop: &str, rule: &str, detail: &str, msg: String) {
        let opi = self.ops.len().saturating_sub(1);
        let call = self.ops.last().map(|o| o.kind()).unwrap_or("setup");
        let mut case = self.case.clone();
        case.put("failing_op_index", opi);
        case.put("last_ops", super::ops::ops_json(&self.ops, &self.results, 25));
        self.viol.push(Violation::new(prop, rule, call, detail, format!("op #{} {}: {}", opi, self.ops.last().map(|o| o.describe()).unwrap_or_default(), msg), case));
        self.aborted = true;
    }

    fn vs_of_part(&self, part: usize) -> Option<usize> {
        self.vs.iter().position(|v| v.g.part_slot == part)
    }

    pub fn vstate_of_mvol(&self, mvol: usize) -> usize {
        self.vs.iter().position(|v| v.mvol == mvol).unwrap()
    }

    /// the slots of a directory node in the cached walk
    /// where a directory node lives on the medium, per the cached walk (directories made during
    /// the history are found by path: the model does not know their cluster)
    pub fn dir_loc(&self, vi: usize, dir: usize) -> Option<DirLoc> {
        let n = &self.m.nodes[dir];
        if n.is_root {
            return Some(if self.vs[vi].vol.fat32 { DirLoc::Cluster(self.vs[vi].vol.root_cluster) } else { DirLoc::Root16 });
        }
        let path = self.m.path_of(dir);
        self.vs[vi].walk.nodes.iter().find(|x| x.is_dir && x.path == path).map(|x| DirLoc::Cluster(x.start))
    }

    fn dir_has_free_slot(&self, vi: usize, dir: usize) -> bool {
        let Some(loc) = self.dir_loc(vi, dir) else { return true };
        match self.vs[vi].walk.dir_slots.get(&loc) {
            Some(slots) => slots.iter().any(|s| s.is_end() || s.is_deleted()),
            None => true,
        }
    }

    fn dir_can_grow(&self, vi: usize, dir: usize) -> bool {
        let n = &self.m.nodes[dir];
        !(n.is_root && !self.vs[vi].vol.fat32)
    }

    /// chain (cluster list) currently backing a file node, per the cached snapshot
    pub fn file_chain(&self, vi: usize, hf: &HFile) -> Vec<u32> {
        let path = self.m.path_of(hf.node);
        let v = &self.vs[vi];
        if let Some(n) = v.walk.nodes.iter().find(|n| n.path == path && !n.is_dir) {
            if n.start != 0 {
                return n.chain.clone();
            }
        }
        if let Some(h) = hf.pending_head {
            let mut out = vec![];
            let mut c = h;
            let mask = if v.vol.fat32 { 0x0FFF_FFFF } else { 0xFFFF_FFFF };
            while v.vol.in_range(c) && out.len() < v.fat.len() {
                out.push(c);
                let nx = v.fat[c as usize] & mask;
                if nx >= v.vol.eoc_min() || nx == 0 {
                    break;
                }
                c = nx;
            }
            return out;
        }
        vec![]
    }

    /// Refresh the cached view of volume `vi` from the medium.
    pub fn resnap(&mut self, vi: usize) -> Option<fatref::FsckOut> {
        let pend = self.pending_for(vi);
        let (out, walk, fat, vol) = {
            let st = self.ex.disk.0.borrow();
            let snap = match Snap::open(&st.img, self.vs[vi].g.part_slot) {
                Ok(s) => s,
                Err(_) => return None,
            };
            let (out, walk) = fatref::fsck(&snap, &pend, FsckMode::Live);
            (out, walk, snap.fat_raw.clone(), snap.vol.clone())
        };
        let v = &mut self.vs[vi];
        v.fat = fat;
        v.vol = vol;
        v.free = out.free;
        v.walk = walk;
        v.lost_heads = out.lost_chains.iter().map(|c| c[0]).collect();
        Some(out)
    }

    pub fn pending_for(&self, vi: usize) -> Vec<Pending> {
        let mvol = self.vs[vi].mvol;
        let mut v = Vec::new();
        for hf in self.m.hfiles.iter().flatten() {
            if hf.vol != mvol {
                continue;
            }
            let path = self.m.path_of(hf.node);
            if let Some(n) = self.vs[vi].walk.nodes.iter().find(|n| n.path == path) {
                v.push(Pending { slot_blk: n.slot.blk, slot_off: n.slot.off, len: self.m.nodes[hf.node].data.len() as u32, dirty: hf.dirty });
            } else {
                v.push(Pending { slot_blk: u32::MAX, slot_off: 0, len: self.m.nodes[hf.node].data.len() as u32, dirty: hf.dirty });
            }
        }
        v
    }

    fn stamps(&self) -> Vec<Timestamp> {
        self.ex.clock.during(self.ex.op_id)
    }

    // -----------------------------------------------------------------------------------------

    /// Execute one op, compare with the model, run the monitors.
    pub fn step(&mut self, op: Op) {
        if self.aborted {
            return;
        }
        // which volume does it concern?
        let target_mvol: Option<usize> = match &op {
            Op::OpenVol { part, .. } => self.vs_of_part(*part).map(|vi| self.vs[vi].mvol),
            Op::CloseVol { vs, .. } | Op::DropVol { vs } | Op::OpenRoot { vs, .. } | Op::Label { vs } => self.m.hvols.get(*vs).cloned().flatten().map(|h| h.vol),
            Op::OpenDir { parent: ds, .. } | Op::ChangeDir { ds, .. } | Op::CloseDir { ds, .. } | Op::DropDir { ds } | Op::Find { ds, .. } | Op::Iterate { ds, .. } | Op::IterateLfn { ds, .. } | Op::OpenFile { ds, .. } | Op::Delete { ds, .. } | Op::Mkdir { ds, .. } | Op::Reentrant { ds, .. } => {
                self.m.hdirs.get(*ds).cloned().flatten().map(|h| h.vol)
            }
            Op::Read { fs, .. } | Op::Write { fs, .. } | Op::CloseFile { fs, .. } | Op::DropFile { fs } | Op::Flush { fs, .. } | Op::Eof { fs, .. } | Op::Len { fs, .. } | Op::Off { fs, .. } | Op::SeekStart { fs, .. } | Op::SeekCur { fs, .. } | Op::SeekEnd { fs, .. } | Op::SeekIo { fs, .. } => {
                self.m.hfiles.get(*fs).cloned().flatten().map(|h| h.vol)
            }
            _ => None,
        };
        let vi = target_mvol.map(|mv| self.vstate_of_mvol(mv));
        let log_before = self.ex.disk.log_len();
        self.op_log_start.push(log_before);
        self.op_calls_start.push(self.ex.disk.with(|s| (s.calls, s.read_calls, s.write_calls)));
        let pre = monitors::PreOp::capture(self, &op, vi);
        self.ops.push(op.clone());
        if std::env::var_os("SDV_TRACE").is_some() {
            eprintln!("#{} {}", self.ops.len() - 1, op.describe());
        }
        let res = self.ex.exec(&op);
        self.results.push(res.clone());
        self.count(&format!("{}={}", op.kind(), out_kind(&res)));
        if let OpRes::Panic(m, l) = &res {
            let prop = self.flags.prop.clone();
            self.violate(&prop, &format!("{}.panic", prop), &crate::report::short_loc(l), format!("library panicked: '{}' at {}", m, crate::report::short_loc(l)));
            return;
        }
        if res == OpRes::Ok(Out::Skipped) {
            return;
        }
        let log_after = self.ex.disk.log_len();
        self.apply(&op, &res, vi, &pre);
        if self.aborted {
            // a violation of ANOTHER property ends the history, but this property's medium
            // monitors still get to see the call that exposed it
            let foreign = self.viol.last().map(|v| v.prop != self.flags.prop).unwrap_or(false);
            if foreign && log_after > log_before {
                let n = self.viol.len();
                self.aborted = false;
                monitors::post_op(self, &op, &res, vi, &pre, log_before, log_after);
                self.aborted = true;
                let _ = n;
            }
            return;
        }
        // a refused call changes nothing on the medium
        if !res.is_ok() && log_after > log_before && !pre.may_write_on_error {
            let k = res.err().unwrap();
            if !is_space_error(k) && k != Ek::DeviceError {
                self.violate("C07", "C07.side-effect", &format!("{:?}", k), format!("call refused with {:?} but issued {} block writes", k, log_after - log_before));
                return;
            }
        }
        // observers: length / offset / eof of every open file must equal the model's
        self.observe_files();
        if self.aborted {
            return;
        }
        monitors::post_op(self, &op, &res, vi, &pre, log_before, log_after);
        self.ex.clock.trim();
    }

    fn observe_files(&mut self) {
        for fs in 0..self.m.hfiles.len() {
            let Some(hf) = self.m.hfiles[fs].clone() else { continue };
            let Some(h) = self.ex.files.get(fs).cloned().flatten() else { continue };
            let want_len = self.m.nodes[hf.node].data.len() as u32;
            let l = self.ex.vm.length(Fl::Raw, h);
            let o = self.ex.vm.offset(Fl::Raw, h);
            let e = self.ex.vm.eof(Fl::Raw, h);
            match (l, o, e) {
                (Ok(l), Ok(o), Ok(e)) => {
                    if l != want_len {
                        self.violate("C01", "C01.len", "observer", format!("file f{} reports length {}, model {}", fs, l, want_len));
                        return;
                    }
                    if o != hf.off {
                        self.violate("C01", "C01.off", "observer", format!("file f{} reports offset {}, model {}", fs, o, hf.off));
                        return;
                    }
                    if e != (hf.off == want_len) {
                        self.violate("C01", "C01.eof", "observer", format!("file f{} reports eof {}, model offset {} length {}", fs, e, hf.off, want_len));
                        return;
                    }
                }
                other => {
                    self.violate("C08", "C08.stale", "open handle rejected", format!("getters on open file f{} failed: {:?}", fs, other.0.err().map(|e| crate::vm::ek(&e))));
                    return;
                }
            }
        }
    }

    /// Capacity verdicts belong to C05. Other checks adopt the observed outcome and go on, so
    /// that their own monitors keep seeing what happens next.
    fn space_violation(&mut self, rule: &str, detail: &str, msg: String) -> bool {
        if self.flags.prop == "C05" {
            self.violate("C05", rule, detail, msg);
            true
        } else {
            self.count("capacity_mismatch_adopted");
            false
        }
    }

    fn mismatch(&mut self, prop: &str, rule: &str, detail: &str, res: &OpRes, exp: &Expect) {
        self.violate(prop, rule, detail, format!("result {} not among acceptable outcomes (ok={}, errors={:?})", res.short(), exp.ok, exp.errs));
    }

    /// checks result against `exp`; returns true when the op succeeded
    fn check(&mut self, prop: &str, rule: &str, detail: &str, res: &OpRes, exp: &Expect) -> Option<bool> {
        match res {
            OpRes::Ok(_) => {
                if exp.ok {
                    Some(true)
                } else {
                    self.mismatch(prop, rule, detail, res, exp);
                    None
                }
            }
            OpRes::Err(k) => {
                if exp.admits_err(*k) {
                    Some(false)
                } else {
                    self.mismatch(prop, rule, detail, res, exp);
                    None
                }
            }
            OpRes::Panic(..) => None,
        }
    }

    fn put_slot<T>(v: &mut Vec<Option<T>>, i: usize, x: Option<T>) {
        while v.len() <= i {
            v.push(None);
        }
        v[i] = x;
    }

    fn apply(&mut self, op: &Op, res: &OpRes, vi: Option<usize>, pre: &monitors::PreOp) {
        let (nv, nd, nf) = self.m.open_counts();
        let (_maxd, _maxf, maxv) = (self.m.limits.0, self.m.limits.1, self.m.limits.2);
        match op {
            Op::OpenVol { part, vs, .. } => {
                let mut r = Vec::new();
                if nv >= maxv {
                    r.push(Ek::TooManyOpenVolumes);
                }
                if *part > 3 {
                    r.push(Ek::NoSuchVolume);
                }
                let mvol = self.vs_of_part(*part).map(|i| self.vs[i].mvol);
                if let Some(mv) = mvol {
                    if self.m.hvols.iter().flatten().any(|h| h.vol == mv) {
                        r.push(Ek::VolumeAlreadyOpen);
                    }
                } else if *part <= 3 {
                    r.push(Ek::FormatError);
                }
                let exp = Expect::from_reasons(r);
                let prop = if exp.errs.contains(&Ek::FormatError) || exp.ok && !res.is_ok() { "C15" } else { "C08" };
                let rule = if prop == "C15" { "C15.valid-refused" } else { "C08.limit" };
                if let Some(true) = self.check(prop, rule, "open_volume", res, &exp) {
                    Engine::put_slot(&mut self.m.hvols, *vs, Some(HVol { vol: mvol.unwrap() }));
                    self.check_fresh_handle('v');
                    let vi = self.vstate_of_mvol(mvol.unwrap());
                    if self.vs[vi].vol.fat32 {
                        let st = self.ex.disk.0.borrow();
                        if let Ok(snap) = Snap::open(&st.img, self.vs[vi].g.part_slot) {
                            if let Some((c, h)) = snap.fsinfo() {
                                let f0 = snap.free_count();
                                drop(snap);
                                drop(st);
                                self.fsinfo_mount.insert(*vs, (c, h, f0));
                            }
                        }
                    }
                }
            }
            Op::CloseVol { vs, .. } => {
                let exp = if self.m.vol_in_use(*vs) { Expect::err(Ek::VolumeStillInUse) } else { Expect::ok() };
                if let Some(true) = self.check("C08", "C08.close-volume", if exp.ok { "idle volume" } else { "volume in use" }, res, &exp) {
                    self.m.hvols[*vs] = None;
                    self.m.closed_vols += 1;
                }
            }
            Op::DropVol { vs } => {
                // Drop = close ignoring the error: closes only when nothing is open on it
                if !self.m.vol_in_use(*vs) {
                    self.m.hvols[*vs] = None;
                    self.m.closed_vols += 1;
                    // the executor must forget it too
                    if let Some(h) = self.ex.vols.get(*vs).cloned().flatten() {
                        self.ex.vols[*vs] = None;
                        self.ex.stale_vols.push(h);
                    }
                }
            }
            Op::OpenRoot { vs, ds, .. } => {
                let exp = if nd >= self.m.limits.0 { Expect::err(Ek::TooManyOpenDirs) } else { Expect::ok() };
                if let Some(true) = self.check("C08", "C08.limit", "open_root_dir", res, &exp) {
                    let hv = self.m.hvols[*vs].clone().unwrap();
                    let root = self.m.vols[hv.vol].root;
                    Engine::put_slot(&mut self.m.hdirs, *ds, Some(HDir { vs: *vs, vol: hv.vol, node: root }));
                    self.check_fresh_handle('d');
                }
            }
            Op::OpenDir { parent, name, ds, .. } => self.apply_open_dir(*parent, name, *ds, false, res),
            Op::ChangeDir { ds, name } => self.apply_open_dir(*ds, name, *ds, true, res),
            Op::CloseDir { ds, .. } | Op::DropDir { ds } => {
                if let Some(true) = self.check("C08", "C08.slot", "close_dir", res, &Expect::ok()) {
                    self.m.hdirs[*ds] = None;
                    self.m.closed_dirs += 1;
                }
            }
            Op::Find { ds, name, .. } => {
                let hd = self.m.hdirs[*ds].clone().unwrap();
                match key_of(name) {
                    Err(true) => {
                        self.check("C07", "C07.result", "find invalid name", res, &Expect::err(Ek::FilenameError));
                    }
                    Err(false) => {}
                    Ok(k) => match self.m.resolve(hd.node, &k) {
                        None => {
                            self.check("C07", "C07.result", "find missing", res, &Expect::err(Ek::NotFound));
                        }
                        Some(t) => {
                            if self.check("C07", "C07.result", "find existing", res, &Expect::ok()) == Some(true) {
                                if let OpRes::Ok(Out::Entry(e)) = res {
                                    let n = &self.m.nodes[t];
                                    let isdir = n.kind == Kind::Dir;
                                    if e.name != k || (e.attr6 & 0x10 != 0) != isdir || (n.kind == Kind::File && e.size != n.disk_len) {
                                        let msg = format!("entry {:?} size {} dir {} ; model name {:?} on-disk size {} dir {}", fatref::display_name(&e.name), e.size, e.attr6 & 0x10 != 0, fatref::display_name(&k), n.disk_len, isdir);
                                        self.violate("C06", "C06.lookup", "entry differs from model", msg);
                                    }
                                }
                            }
                        }
                    },
                }
            }
            Op::Iterate { ds, .. } | Op::IterateLfn { ds, .. } => {
                let hd = self.m.hdirs[*ds].clone().unwrap();
                if self.check("C06", "C06.seq", "listing failed", res, &Expect::ok()) == Some(true) {
                    let names: Vec<[u8; 11]> = match res {
                        OpRes::Ok(Out::Listing(l)) => l.iter().map(|e| e.name).collect(),
                        OpRes::Ok(Out::ListingLfn(l)) => l.iter().map(|e| e.0.name).collect(),
                        _ => vec![],
                    };
                    let mut want: Vec<[u8; 11]> = self.m.nodes[hd.node].children.iter().filter(|&&c| self.m.nodes[c].exists).map(|&c| self.m.nodes[c].name).collect();
                    if !self.m.nodes[hd.node].is_root {
                        want.push(DOT);
                        want.push(DOTDOT);
                    }
                    let mut a = names.clone();
                    a.sort();
                    want.sort();
                    if a != want {
                        let missing: Vec<String> = want.iter().filter(|n| !a.contains(n)).map(|n| fatref::display_name(n)).collect();
                        let extra: Vec<String> = a.iter().filter(|n| !want.contains(n)).map(|n| fatref::display_name(n)).collect();
                        self.violate("C06", "C06.seq", if !missing.is_empty() { "entries missing" } else { "extra entries" }, format!("listing differs from model: missing {:?}, unexpected {:?}", missing, extra));
                    }
                }
            }
            Op::OpenFile { ds, name, mode, fs, .. } => self.apply_open_file(*ds, name, *mode, *fs, res, vi, pre),
            Op::Delete { ds, name, .. } => {
                let hd = self.m.hdirs[*ds].clone().unwrap();
                let mut r = Vec::new();
                let mut target = None;
                match key_of(name) {
                    Err(true) => r.push(Ek::FilenameError),
                    Err(false) => return,
                    Ok(k) => match self.m.resolve(hd.node, &k) {
                        None => r.push(Ek::NotFound),
                        Some(t) => {
                            let n = &self.m.nodes[t];
                            if n.kind == Kind::Opaque {
                                if res.is_ok() {
                                    self.aborted = true;
                                }
                                return;
                            }
                            if n.kind == Kind::Dir {
                                r.push(Ek::DeleteDirAsFile);
                            }
                            if n.open {
                                r.push(Ek::FileAlreadyOpen);
                            }
                            target = Some(t);
                        }
                    },
                }
                let exp = Expect::from_reasons(r);
                let detail = format!("delete {}", monitors::target_class(&self.m, target, name));
                if let Some(true) = self.check("C07", "C07.result", &detail, res, &exp) {
                    let t = target.unwrap();
                    self.end_obligations(t);
                    self.m.remove(t);
                    self.nontrivial = true;
                }
            }
            Op::Mkdir { ds, name, .. } => {
                let hd = self.m.hdirs[*ds].clone().unwrap();
                // (making a directory opens nothing: a full directory table is no reason to refuse)
                let mut r = Vec::new();
                let mut key = None;
                match key_of(name) {
                    Err(true) => r.push(Ek::FilenameError),
                    Err(false) => return,
                    Ok(k) => {
                        if k == DOT || k == DOTDOT {
                            // "." and ".." (and the empty name, which the library reads as ".") name
                            // the directory itself / its parent, also in the root where no such
                            // entries exist on disk: nothing may be created under those names
                            if res.is_ok() {
                                self.violate("C07", "C07.result", "mkdir of a dot name", format!("make_dir_in_dir({:?}) succeeded: a directory entry named like the directory itself / its parent was created", name));
                            }
                            return;
                        }
                        match self.m.resolve(hd.node, &k) {
                            Some(t) => {
                                if self.m.nodes[t].kind == Kind::Dir {
                                    r.push(Ek::DirAlreadyExists);
                                } else {
                                    r.push(Ek::FileAlreadyExists);
                                    if self.m.nodes[t].kind == Kind::Opaque {
                                        r.push(Ek::DirAlreadyExists);
                                    }
                                }
                            }
                            None => key = Some(k),
                        }
                    }
                }
                let mut exp = Expect::from_reasons(r);
                let mut space_rule = None;
                if exp.ok {
                    if let Some(vi) = vi {
                        let has_slot = self.dir_has_free_slot(vi, hd.node);
                        let need = 1 + if has_slot { 0 } else { 1 };
                        let possible = (has_slot || self.dir_can_grow(vi, hd.node)) && self.vs[vi].free >= need;
                        if !possible {
                            exp = Expect { ok: false, errs: vec![Ek::NotEnoughSpace, Ek::DiskFull] };
                            space_rule = Some("C05.capacity-over");
                        } else {
                            space_rule = Some("C05.capacity-short");
                        }
                    }
                }
                // out-of-space where the model sees room (or the reverse) is C05's finding
                let space_mismatch = (exp.ok && res.err().map(is_space_error).unwrap_or(false)) || (!exp.ok && exp.errs.contains(&Ek::DiskFull) && res.is_ok());
                if space_mismatch {
                    let free = vi.map(|v| self.vs[v].free).unwrap_or(0);
                    if self.space_violation(space_rule.unwrap_or("C05.capacity-short"), "make_dir_in_dir", format!("result {} with {} free clusters", res.short(), free)) {
                        return;
                    }
                    exp = if res.is_ok() { Expect::ok() } else { Expect { ok: false, errs: vec![Ek::NotEnoughSpace, Ek::DiskFull] } };
                }
                if let Some(true) = self.check("C07", "C07.result", &format!("mkdir {}", monitors::name_class(name)), res, &exp) {
                    let id = self.m.new_dir(hd.vol, hd.node, key.unwrap());
                    let _ = id;
                    self.nontrivial = true;
                }
            }
            Op::Label { vs } => {
                let hv = self.m.hvols[*vs].clone().unwrap();
                let mv = &self.m.vols[hv.vol];
                match res {
                    OpRes::Ok(Out::Label(l)) => {
                        let want = if !mv.label_bpb.is_empty() { Some(mv.label_bpb.clone()) } else { mv.label_root.clone() };
                        if *l != want {
                            let msg = format!("label {:?}, expected {:?}", l, want);
                            self.violate("C06", "C06.field", "volume label", msg);
                        }
                    }
                    OpRes::Err(Ek::TooManyOpenDirs) if nd >= self.m.limits.0 && mv.label_bpb.is_empty() => {}
                    other => {
                        let msg = format!("unexpected {}", other.short());
                        self.violate("C06", "C06.field", "volume label", msg);
                    }
                }
            }
            Op::Read { fl, fs, len } => {
                let hf = self.m.hfiles[*fs].clone().unwrap();
                let data = &self.m.nodes[hf.node].data;
                let end = (hf.off as usize + *len).min(data.len());
                let want = data[hf.off as usize..end].to_vec();
                let _ = fl;
                match res {
                    OpRes::Ok(Out::Bytes(b)) => {
                        if b.len() != want.len() {
                            let msg = format!("read returned {} bytes at offset {} (asked {}), model has {} (file length {})", b.len(), hf.off, len, want.len(), data.len());
                            self.violate("C01", "C01.read-count", "count", msg);
                        } else if *b != want {
                            let at = b.iter().zip(want.iter()).position(|(x, y)| x != y).unwrap();
                            let msg = format!("byte {} of the read (file offset {}) is {:#04x}, model has {:#04x}", at, hf.off as usize + at, b[at], want[at]);
                            self.violate("C01", "C01.read-bytes", "bytes", msg);
                        } else {
                            self.m.hfiles[*fs].as_mut().unwrap().off = end as u32;
                            if !want.is_empty() {
                                self.nontrivial = true;
                            }
                        }
                    }
                    other => {
                        let msg = format!("read failed: {}", other.short());
                        self.violate("C01", "C01.read-count", "error", msg);
                    }
                }
            }
            Op::Write { fl, fs, tag, len } => self.apply_write(*fl, *fs, *tag, *len, res, vi, pre),
            Op::Flush { fs, .. } => {
                if let Some(true) = self.check("C02", "C02.missing", "flush failed", res, &Expect::ok()) {
                    self.flushed(*fs);
                }
            }
            Op::CloseFile { fs, .. } | Op::DropFile { fs } => {
                if let Some(true) = self.check("C02", "C02.missing", "close failed", res, &Expect::ok()) {
                    self.flushed(*fs);
                    let hf = self.m.hfiles[*fs].take().unwrap();
                    self.m.nodes[hf.node].open = false;
                    self.m.closed_files += 1;
                }
            }
            Op::Eof { fs, .. } => {
                let hf = self.m.hfiles[*fs].clone().unwrap();
                let want = hf.off as usize == self.m.nodes[hf.node].data.len();
                if *res != OpRes::Ok(Out::Bool(want)) {
                    let msg = format!("eof {} expected {}", res.short(), want);
                    self.violate("C01", "C01.eof", "query", msg);
                }
            }
            Op::Len { fs, .. } => {
                let hf = self.m.hfiles[*fs].clone().unwrap();
                let want = self.m.nodes[hf.node].data.len() as u32;
                if *res != OpRes::Ok(Out::U32(want)) {
                    let msg = format!("length {} expected {}", res.short(), want);
                    self.violate("C01", "C01.len", "query", msg);
                }
            }
            Op::Off { fs, .. } => {
                let hf = self.m.hfiles[*fs].clone().unwrap();
                if *res != OpRes::Ok(Out::U32(hf.off)) {
                    let msg = format!("offset {} expected {}", res.short(), hf.off);
                    self.violate("C01", "C01.off", "query", msg);
                }
            }
            Op::SeekStart { fs, to, .. } => self.apply_seek(*fs, Some(*to as i64), res, None),
            Op::SeekCur { fs, by, .. } => {
                let off = self.m.hfiles[*fs].as_ref().unwrap().off as i64;
                self.apply_seek(*fs, Some(off + *by as i64), res, None)
            }
            Op::SeekEnd { fs, back, .. } => {
                let hf = self.m.hfiles[*fs].clone().unwrap();
                let len = self.m.nodes[hf.node].data.len() as i64;
                self.apply_seek(*fs, Some(len - *back as i64), res, None)
            }
            Op::SeekIo { fs, to } => {
                let hf = self.m.hfiles[*fs].clone().unwrap();
                let len = self.m.nodes[hf.node].data.len() as i64;
                let target = match to {
                    SeekTo::Start(x) => {
                        if *x > u32::MAX as u64 {
                            None
                        } else {
                            Some(*x as i64)
                        }
                    }
                    SeekTo::Current(d) => {
                        if *d > i32::MAX as i64 || *d < i32::MIN as i64 {
                            None
                        } else {
                            Some(hf.off as i64 + *d)
                        }
                    }
                    SeekTo::End(d) => {
                        // the adapter seeks back from the end by -d; positive d is refused
                        if *d > 0 || -*d > u32::MAX as i64 {
                            None
                        } else {
                            Some(len + *d)
                        }
                    }
                };
                self.apply_seek(*fs, target, res, Some(()))
            }
            Op::HasOpen => {
                let want = nd > 0 || nf > 0;
                if *res != OpRes::Ok(Out::Bool(want)) {
                    let msg = format!("has_open_handles() = {} with {} directories and {} files open", res.short(), nd, nf);
                    self.violate("C08", "C08.has-open", &format!("dirs {} files {}", if nd > 0 { ">0" } else { "0" }, if nf > 0 { ">0" } else { "0" }), msg);
                }
            }
            Op::StaleFile { act, .. } => {
                let exp = Expect::err(Ek::BadHandle);
                self.check("C08", "C08.stale", &format!("file handle action {}", act % 11), res, &exp);
            }
            Op::StaleDir { act, .. } => {
                // a closed handle is a bad handle, whatever else is true of the tables at that moment
                let errs = vec![Ek::BadHandle];
                let a = act % 14;
                let _ = (nd, nf);
                self.check("C08", "C08.stale", &format!("directory handle action {}", a), res, &Expect { ok: false, errs });
            }
            Op::StaleVol { act, .. } => {
                let mut errs = vec![Ek::BadHandle];
                let a = act % 3;
                if a == 0 && nd >= self.m.limits.0 {
                    errs.push(Ek::TooManyOpenDirs);
                }
                let rule = if a == 0 { "C08.root-volume" } else { "C08.stale" };
                if a == 0 && res.is_ok() {
                    // a directory was opened on a closed volume: report it, then adopt the observed
                    // state (close the stray handle) so that the history can go on
                    self.check("C08", rule, &format!("volume handle action {}", a), res, &Expect { ok: false, errs });
                    if let Some(h) = self.ex.dirs.pop().flatten() {
                        let _ = self.ex.vm.close_dir(Fl::Raw, h);
                        self.ex.stale_dirs.push(h);
                    }
                    self.aborted = false;
                    return;
                }
                self.check("C08", rule, &format!("volume handle action {}", a), res, &Expect { ok: false, errs });
            }
            Op::Reentrant { .. } => {
                match res {
                    OpRes::Ok(Out::Probe(p, delivered)) => {
                        if *delivered > 0 {
                            self.nontrivial = true;
                            for (name, r) in p {
                                if *r != Some(Ek::LockError) {
                                    let msg = format!("{} called from inside the callback returned {:?} instead of LockError", name, r);
                                    let n = name.split('[').next().unwrap_or(name).to_string();
                                    self.violate("C08", "C08.lock", &n, msg);
                                    return;
                                }
                            }
                            self.count("reentrant_probe_calls");
                        }
                    }
                    other => {
                        let msg = format!("iteration failed: {}", other.short());
                        self.violate("C08", "C08.lock", "iteration", msg);
                    }
                }
            }
            _ => {}
        }
    }


    fn apply_open_dir(&mut self, parent: usize, name: &str, ds: usize, is_change: bool, res: &OpRes) {
                let (_, nd, _) = self.m.open_counts();
                let hd = self.m.hdirs[parent].clone().unwrap();
                let mut r = Vec::new();
                if nd >= self.m.limits.0 {
                    r.push(Ek::TooManyOpenDirs);
                }
                let mut target = None;
                let mut silent = false;
                match key_of(name) {
                    Err(true) => r.push(Ek::FilenameError),
                    Err(false) => silent = true,
                    Ok(k) => {
                        if k == DOT {
                            // documented shortcut: "." re-opens the same directory (also in the root)
                            target = Some(hd.node);
                        } else {
                            match self.m.resolve(hd.node, &k) {
                                None => r.push(Ek::NotFound),
                                Some(t) => {
                                    if self.m.nodes[t].kind == Kind::Dir {
                                        target = Some(t);
                                    } else if self.m.nodes[t].kind == Kind::Opaque {
                                        silent = true;
                                    } else {
                                        r.push(Ek::OpenedFileAsDir);
                                    }
                                }
                            }
                        }
                    }
                }
                if silent {
                    // statement silent on this name: adopt whatever happened
                    if res.is_ok() {
                        // we cannot know what it designates: stop using this history
                        self.aborted = true;
                    }
                    return;
                }
                let exp = Expect::from_reasons(r);
                let (prop, rule) = if exp.errs == vec![Ek::TooManyOpenDirs] || (exp.ok && res.err() == Some(Ek::TooManyOpenDirs)) { ("C08", "C08.limit") } else { ("C07", "C07.result") };
                if let Some(true) = self.check(prop, rule, &format!("open_dir {}", monitors::name_class(name)), res, &exp) {
                    let t = target.unwrap();
                    if is_change {
                        self.m.closed_dirs += 1;
                    }
                    Engine::put_slot(&mut self.m.hdirs, ds, Some(HDir { vs: hd.vs, vol: hd.vol, node: t }));
                    self.check_fresh_handle('d');
                }
                }

    fn check_fresh_handle(&mut self, kind: char) {
        // the newest issued handle must differ from every handle of that kind that is open
        let Some(&(k, v)) = self.ex.issued.last() else { return };
        if k != kind {
            return;
        }
        let open: Vec<u32> = match kind {
            'v' => self.ex.vols.iter().flatten().map(super::ops::hnum).collect(),
            'd' => self.ex.dirs.iter().flatten().map(super::ops::hnum).collect(),
            _ => self.ex.files.iter().flatten().map(super::ops::hnum).collect(),
        };
        if open.iter().filter(|&&x| x == v).count() > 1 {
            self.violate("C08", "C08.dup-handle", &format!("kind {}", kind), format!("handle value {:#x} returned while an equal handle is still open", v));
        }
    }

    fn apply_seek(&mut self, fs: usize, target: Option<i64>, res: &OpRes, io: Option<()>) {
        let hf = self.m.hfiles[fs].clone().unwrap();
        let len = self.m.nodes[hf.node].data.len() as i64;
        let valid = matches!(target, Some(t) if t >= 0 && t <= len);
        let exp = if valid { Expect::ok() } else { Expect::err(Ek::InvalidOffset) };
        if let Some(true) = self.check("C01", "C01.seek", if valid { "in range" } else { "out of range" }, res, &exp) {
            let t = target.unwrap() as u32;
            self.m.hfiles[fs].as_mut().unwrap().off = t;
            if io.is_some() && *res != OpRes::Ok(Out::U64(t as u64)) {
                let msg = format!("Seek::seek returned {} expected {}", res.short(), t);
                self.violate("C01", "C01.seek", "returned position", msg);
            }
        }
    }

    /// flush/close succeeded: the on-disk entry now carries the model's length
    fn flushed(&mut self, fs: usize) {
        let Some(hf) = self.m.hfiles[fs].clone() else { return };
        if hf.dirty {
            let len = self.m.nodes[hf.node].data.len() as u32;
            self.m.nodes[hf.node].disk_len = len;
            let h = self.m.hfiles[fs].as_mut().unwrap();
            h.unflushed = false;
            h.pending_head = None;
            if self.flags.obligations {
                let path = self.m.path_of(hf.node);
                let data = self.m.nodes[hf.node].data.clone();
                // supersede an older obligation for the same file
                self.end_obligations(hf.node);
                self.obligations.push(Obligation { vol: hf.vol, path, len, data, from_log: self.ex.disk.log_len(), until_log: None, node: hf.node, made_by_op: self.ops.len() - 1 });
            }
        } else if self.flags.obligations && !self.obligations.iter().any(|o| o.node == hf.node && o.until_log.is_none()) {
            // clean close/flush of an unmodified file: its current on-disk state is an obligation too
            let n = &self.m.nodes[hf.node];
            if n.data.len() as u32 == n.disk_len {
                let path = self.m.path_of(hf.node);
                self.obligations.push(Obligation { vol: hf.vol, path, len: n.disk_len, data: n.data.clone(), from_log: self.ex.disk.log_len(), until_log: None, node: hf.node, made_by_op: self.ops.len() - 1 });
            }
        }
    }

    /// the file is about to be / has been modified: obligations on it end where this op began
    pub fn end_obligations(&mut self, node: usize) {
        let at = *self.op_log_start.last().unwrap_or(&0);
        for o in self.obligations.iter_mut() {
            if o.node == node && o.until_log.is_none() {
                o.until_log = Some(at);
            }
        }
    }

    fn apply_open_file(&mut self, ds: usize, name: &str, mode: Mode, fs: usize, res: &OpRes, vi: Option<usize>, pre: &monitors::PreOp) {
        let hd = self.m.hdirs[ds].clone().unwrap();
        let can_create = vi.map(|vi| {
            let has = self.dir_has_free_slot(vi, hd.node);
            has || (self.dir_can_grow(vi, hd.node) && self.vs[vi].free >= 1)
        });
        let (exp, target) = self.m.expect_open_file(true, hd.node, name, mode, can_create);
        let _ = pre;
        let cls = monitors::target_class(&self.m, target, name);
        let detail = format!("{} on {}", Op::mode_name(mode), cls);
        // space verdicts belong to C05
        let mut exp = exp;
        if exp.ok && exp.errs.is_empty() && res.err().map(is_space_error).unwrap_or(false) {
            let (free, has) = vi.map(|v| (self.vs[v].free, self.dir_has_free_slot(v, hd.node))).unwrap_or((0, false));
            self.space_violation("C05.capacity-short", "create entry", format!("creating an entry failed with {} although a slot or a free cluster exists (free clusters {}, directory has a free slot: {}, directory start cluster {})", res.short(), free, has, self.m.nodes[hd.node].start));
            return;
        }
        if !exp.ok && exp.errs.contains(&Ek::DiskFull) && exp.errs.len() == 2 && res.is_ok() {
            if self.space_violation("C05.capacity-over", "create entry", "entry created although the directory is full and cannot grow".to_string()) {
                return;
            }
            exp = Expect::ok();
        }
        if target.is_none() && matches!(key_of(name), Ok(k) if k == DOT || k == DOTDOT) {
            // "." / ".." / "" in the root: there is nothing of that name to open, and nothing may
            // be created under it (it names the directory itself / its parent)
            if res.is_ok() {
                self.violate("C07", "C07.result", &format!("{} on a dot name in the root", Op::mode_name(mode)), format!("open_file_in_dir({:?}, {}) succeeded in the root directory: a file named like the directory itself / its parent now exists", name, Op::mode_name(mode)));
            }
            return;
        }
        let (prop, rule) = if exp.errs == vec![Ek::TooManyOpenFiles] || (exp.ok && res.err() == Some(Ek::TooManyOpenFiles)) { ("C08", "C08.limit") } else { ("C07", "C07.result") };
        let Some(true) = self.check(prop, rule, &detail, res, &exp) else { return };
        if key_of(name).is_err() {
            self.aborted = true; // statement-silent name accepted: cannot model further
            return;
        }
        let stamps = self.stamps();
        let (node, created) = match target {
            Some(t) => (t, false),
            None => {
                let k = key_of(name).unwrap();
                (self.m.new_file(hd.vol, hd.node, k, stamps.clone()), true)
            }
        };
        let mut hf = HFile { vs: hd.vs, vol: hd.vol, node, writable: mode != Mode::ReadOnly, off: 0, dirty: false, unflushed: false, pending_head: None };
        let eff = if created {
            Mode::ReadWriteCreate
        } else {
            match mode {
                Mode::ReadWriteCreateOrAppend => Mode::ReadWriteAppend,
                Mode::ReadWriteCreateOrTruncate => Mode::ReadWriteTruncate,
                m => m,
            }
        };
        match eff {
            Mode::ReadWriteAppend => hf.off = self.m.nodes[node].data.len() as u32,
            Mode::ReadWriteTruncate => {
                self.end_obligations(node);
                let n = &mut self.m.nodes[node];
                n.data.clear();
                n.disk_len = 0;
                n.touched = true;
                n.mtime_ok = stamps.clone();
                if self.flags.obligations {
                    // truncate-open writes the entry at once: the empty file is durable from here
                    let path = self.m.path_of(node);
                    self.obligations.push(Obligation { vol: hd.vol, path, len: 0, data: vec![], from_log: self.ex.disk.log_len(), until_log: None, node, made_by_op: self.ops.len() - 1 });
                }
            }
            _ => {}
        }
        if hf.writable {
            self.m.nodes[node].touched = true;
        }
        self.m.nodes[node].open = true;
        Engine::put_slot(&mut self.m.hfiles, fs, Some(hf));
        self.check_fresh_handle('f');
        self.nontrivial = true;
        self.count(&format!("cell {}", detail));
    }

    fn apply_write(&mut self, fl: Fl, fs: usize, tag: u32, len: usize, res: &OpRes, vi: Option<usize>, pre: &monitors::PreOp) {
        let hf = self.m.hfiles[fs].clone().unwrap();
        let h = self.ex.files[fs].unwrap();
        if !hf.writable {
            if fl == Fl::Io && len == 0 {
                return; // the adapter answers Ok(0) without calling the library
            }
            self.check("C07", "C07.post", "write on read-only handle", res, &Expect::err(Ek::ReadOnly));
            return;
        }
        if fl == Fl::Io && len == 0 {
            if *res != OpRes::Ok(Out::U64(0)) {
                self.violate("C01", "C01.read-count", "empty write", format!("empty write through the adapter gave {}", res.short()));
            }
            return;
        }
        let vi = vi.unwrap();
        let cb = self.vs[vi].vol.cluster_bytes() as u64;
        let chainlen = pre.target_chain.len() as u64;
        let cur_len = self.m.nodes[hf.node].data.len() as u64;
        let end = hf.off as u64 + len as u64;
        // (an empty write stores nothing and therefore needs nothing)
        let need_total = if len == 0 { chainlen } else { ((end.max(cur_len) + cb - 1) / cb).max(1) };
        let need = need_total.saturating_sub(chainlen);
        let free = pre.free as u64;
        let data = fsx::payload(tag, 0, len);
        // where did the library get to?
        let new_off = match self.ex.vm.offset(Fl::Raw, h) {
            Ok(o) => o,
            Err(_) => {
                self.violate("C08", "C08.stale", "open handle rejected", "file_offset failed on an open handle".into());
                return;
            }
        };
        let accepted = new_off as i64 - hf.off as i64;
        let stamps = self.stamps();
        self.end_obligations(hf.node);
        match res {
            OpRes::Ok(Out::U64(n)) => {
                if *n != len as u64 || accepted != len as i64 {
                    self.violate("C01", "C01.off", "write advanced wrongly", format!("write of {} bytes reported {} and advanced the offset by {}", len, n, accepted));
                    return;
                }
                if need > free && self.space_violation("C05.capacity-over", "write", format!("write needing {} new clusters succeeded with {} free", need, free)) {
                    return;
                }
            }
            OpRes::Err(k) if is_space_error(*k) => {
                if need <= free && self.space_violation("C05.capacity-short", "write", format!("write needing {} new clusters failed with {:?} although {} clusters are free", need, k, free)) {
                    return;
                }
                let room = ((chainlen + free) * cb) as i64 - hf.off as i64;
                let should = room.max(0).min(len as i64);
                if need > free && accepted != should && self.space_violation(if accepted < should { "C05.capacity-short" } else { "C05.capacity-over" }, "partial write", format!("out-of-space write accepted {} bytes, the {} free clusters hold {}", accepted, free, should)) {
                    return;
                }
                if self.flags.space && *k != Ek::DiskFull && *k != Ek::NotEnoughSpace {
                    self.violate("C05", "C05.wrong-error", "write", format!("{:?}", k));
                    return;
                }
            }
            other => {
                self.violate("C01", "C01.read-count", "write failed", format!("write failed with {}", other.short()));
                // deciding another property: a write that failed before accepting a single byte
                // leaves a well-defined obligation (nothing changed, the old contents must survive
                // the next flush), so the history goes on
                if self.flags.prop != "C01" && accepted == 0 && matches!(other, OpRes::Err(_)) {
                    self.aborted = false;
                    self.count("unexpected_write_errors_adopted");
                } else {
                    return;
                }
            }
        }
        if accepted < 0 || accepted as usize > len {
            self.violate("C01", "C01.off", "write advanced wrongly", format!("offset moved by {} on a {}-byte write", accepted, len));
            return;
        }
        let acc = accepted as usize;
        let n = &mut self.m.nodes[hf.node];
        let o = hf.off as usize;
        if n.data.len() < o + acc {
            n.data.resize(o + acc, 0);
        }
        n.data[o..o + acc].copy_from_slice(&data[..acc]);
        n.touched = true;
        if res.is_ok() || acc > 0 {
            // (a write that stored something is a write, also when it then ran out of room)
            n.mtime_missed = acc > 0 && stamps.is_empty();
            n.mtime_ok = stamps;
        } else {
            // failed before taking a byte: that was no write, the time stays what it was
            let _ = stamps;
        }
        let hfm = self.m.hfiles[fs].as_mut().unwrap();
        hfm.off = new_off;
        hfm.dirty = true;
        hfm.unflushed = true;
        self.nontrivial = true;
    }
}
