//! C08 bug 1: make_dir_in_dir() fails with TooManyOpenDirs although it opens
//! no directory handle at all.
//!
//! Clause violated: "At most the configured number of volumes, directories and
//! files can be open, the call that would exceed a limit fails with the
//! matching too-many error" -- the limits are supposed to be enforced
//! *exactly*: only a call that would take the number of open directories past
//! MAX_DIRS may answer TooManyOpenDirs. make_dir_in_dir() returns `()`; it
//! neither returns a handle nor leaves a directory open, so it can never
//! exceed the limit. Yet it begins with
//!
//!     if data.open_dirs.is_full() { return Err(Error::TooManyOpenDirs); }
//!
//! (src/volume_mgr.rs:1042-1045, a check copied from open_dir together with a
//! comment about an "unchecked push" that does not exist in this function).
//!
//! Consequence: whenever all MAX_DIRS slots are in use the call is refused,
//! and the parent directory itself occupies one slot. With MAX_DIRS = 1 it is
//! therefore impossible to ever create a directory.
//!
//! Expected: with MAX_DIRS = 1 and the root directory open (1 of 1 slots),
//! make_dir_in_dir(root, "NEWDIR") succeeds (it needs no slot), the open
//! directory count stays 1, and NEWDIR is listed afterwards.
//! Observed: Err(TooManyOpenDirs), nothing created.

mod utils;

use embedded_sdmmc::{Error, VolumeIdx, VolumeManager};

type Vm<const D: usize, const F: usize, const V: usize> =
    VolumeManager<utils::RamDisk<Vec<u8>>, utils::TestTimeSource, D, F, V>;

fn lists(vm: &Vm<1, 1, 1>, dir: embedded_sdmmc::RawDirectory, name: &str) -> bool {
    let mut found = false;
    vm.iterate_dir(dir, |de| {
        if de.name.to_string() == name {
            found = true;
        }
    })
    .unwrap();
    found
}

#[test]
fn make_dir_needs_no_directory_slot_max_dirs_1() {
    let disk = utils::make_block_device(utils::DISK_SOURCE).unwrap();
    let vm: Vm<1, 1, 1> = VolumeManager::new_with_limits(disk, utils::make_time_source(), 100);

    let vol = vm.open_raw_volume(VolumeIdx(0)).expect("open volume");
    let root = vm.open_root_dir(vol).expect("open root: 1 of 1 directory slots");

    // One directory is open, which is within the configured limit of 1.
    // make_dir_in_dir opens nothing, so it cannot exceed the limit.
    let r = vm.make_dir_in_dir(root, "NEWDIR");
    let created = lists(&vm, root, "NEWDIR");

    vm.close_dir(root).unwrap();
    vm.close_volume(vol).unwrap();

    assert!(
        !matches!(r, Err(Error::TooManyOpenDirs)),
        "make_dir_in_dir answered TooManyOpenDirs with 1 of 1 directories open, \
         although it does not open a directory (result {:?}, NEWDIR listed: {})",
        r,
        created
    );
    assert!(r.is_ok(), "make_dir_in_dir failed: {:?}", r);
    assert!(created, "NEWDIR not listed after make_dir_in_dir");
}

#[test]
fn make_dir_needs_no_directory_slot_max_dirs_3() {
    let disk = utils::make_block_device(utils::DISK_SOURCE).unwrap();
    let vm: Vm<3, 1, 1> = VolumeManager::new_with_limits(disk, utils::make_time_source(), 100);

    let vol = vm.open_raw_volume(VolumeIdx(0)).unwrap();
    let root = vm.open_root_dir(vol).unwrap();
    let test = vm.open_dir(root, "TEST").unwrap();

    // 2 of 3 in use: works
    vm.make_dir_in_dir(test, "SUB1").expect("mkdir with a free slot");

    // 3 of 3 in use: the very same kind of call is now refused
    let root2 = vm.open_dir(root, ".").unwrap();
    let r = vm.make_dir_in_dir(test, "SUB2");

    vm.close_dir(root2).unwrap();
    vm.close_dir(test).unwrap();
    vm.close_dir(root).unwrap();
    vm.close_volume(vol).unwrap();

    assert!(
        r.is_ok(),
        "make_dir_in_dir with 3 of 3 directories open (it opens none): {:?}",
        r
    );
}
