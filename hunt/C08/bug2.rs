//! C08 bug 2: a closed (stale) directory handle is NOT rejected as a bad handle
//! by open_dir / open_file_in_dir / make_dir_in_dir when the corresponding
//! handle table happens to be full: the calls answer TooManyOpenDirs /
//! TooManyOpenFiles instead of BadHandle.
//!
//! Clause violated: "a handle that has been closed is rejected as a bad handle
//! by every call that takes it, without any effect."
//!
//! Root cause: the three functions test `is_full()` *before* they look the
//! handle up (src/volume_mgr.rs:257-262 open_dir, 487-492 open_file_in_dir,
//! 1042-1047 make_dir_in_dir). The caller is told to close something and
//! retry, although no amount of closing makes the call valid: the very same
//! call answers BadHandle as soon as one slot is free (shown below), so the
//! verdict about one and the same stale handle depends on unrelated table
//! occupancy.
//!
//! Expected: Err(BadHandle) from every call given the stale handle.
//! Observed: Err(TooManyOpenDirs) / Err(TooManyOpenFiles).

mod utils;

use embedded_sdmmc::{Error, Mode, VolumeIdx, VolumeManager};

type Vm = VolumeManager<utils::RamDisk<Vec<u8>>, utils::TestTimeSource, 2, 1, 1>;

#[test]
fn stale_directory_handle_with_full_tables() {
    let disk = utils::make_block_device(utils::DISK_SOURCE).unwrap();
    let vm: Vm = VolumeManager::new_with_limits(disk, utils::make_time_source(), 100);

    let vol = vm.open_raw_volume(VolumeIdx(0)).unwrap();
    let root = vm.open_root_dir(vol).unwrap();
    let stale = vm.open_dir(root, "TEST").unwrap();
    vm.close_dir(stale).unwrap();

    // Sanity: with a free slot everywhere, the stale handle is a bad handle.
    assert!(matches!(vm.open_dir(stale, "."), Err(Error::BadHandle)));
    assert!(matches!(
        vm.open_file_in_dir(stale, "TEST.DAT", Mode::ReadOnly),
        Err(Error::BadHandle)
    ));
    assert!(matches!(
        vm.make_dir_in_dir(stale, "X"),
        Err(Error::BadHandle)
    ));

    // Fill the directory table (2 of 2) and the file table (1 of 1) with
    // perfectly legal opens.
    let other = vm.open_dir(root, "TEST").unwrap();
    assert_ne!(other, stale);
    let file = vm
        .open_file_in_dir(root, "README.TXT", Mode::ReadOnly)
        .unwrap();

    let r_open_dir = vm.open_dir(stale, ".");
    let r_open_file = vm.open_file_in_dir(stale, "TEST.DAT", Mode::ReadOnly);
    let r_make_dir = vm.make_dir_in_dir(stale, "X");

    // the calls that look the handle up first get it right
    assert!(matches!(vm.close_dir(stale), Err(Error::BadHandle)));
    assert!(matches!(
        vm.find_directory_entry(stale, "TEST.DAT"),
        Err(Error::BadHandle)
    ));
    assert!(matches!(
        vm.delete_file_in_dir(stale, "TEST.DAT"),
        Err(Error::BadHandle)
    ));
    assert!(matches!(vm.iterate_dir(stale, |_| {}), Err(Error::BadHandle)));

    vm.close_file(file).unwrap();
    vm.close_dir(other).unwrap();
    vm.close_dir(root).unwrap();
    vm.close_volume(vol).unwrap();

    let mut wrong = Vec::new();
    if !matches!(r_open_dir, Err(Error::BadHandle)) {
        wrong.push(format!("open_dir(stale) -> {:?}", r_open_dir));
    }
    if !matches!(r_open_file, Err(Error::BadHandle)) {
        wrong.push(format!("open_file_in_dir(stale) -> {:?}", r_open_file));
    }
    if !matches!(r_make_dir, Err(Error::BadHandle)) {
        wrong.push(format!("make_dir_in_dir(stale) -> {:?}", r_make_dir));
    }
    assert!(
        wrong.is_empty(),
        "closed directory handle not rejected as BadHandle: {}",
        wrong.join("; ")
    );
}
