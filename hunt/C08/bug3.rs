//! C08 bug 3: the handle-id counter wraps round and the generator never checks
//! the new id against the handles that are still open, so the library hands
//! out a handle that is EQUAL to one that is currently open. After that, one
//! close_dir() leaves a directory open under a handle that has been closed,
//! i.e. the closed handle keeps working.
//!
//! Clauses violated:
//!   "Every handle the library returns is distinct from all handles currently
//!    open"
//!   "a handle that has been closed is rejected as a bad handle by every call
//!    that takes it"
//!   "closing frees the slot" / "the open-handle query tells the truth" (the
//!    caller has closed everything it was ever given, yet a slot stays taken)
//!
//! Root cause: src/filesystem/handles.rs:37-41 HandleGenerator::generate() is
//! a bare Wrapping<u32> post-increment; src/volume_mgr.rs:225/270/304/558/595
//! use the value without looking whether open_volumes / open_dirs /
//! open_files already contain it. Furthermore open_root_dir (volume_mgr.rs:225)
//! consumes an id even when it then fails with TooManyOpenDirs, so ids are
//! burnt by refused calls too.
//!
//! History (all calls are legal): MAX_DIRS = 2. Open A (id X) and B (id X+1).
//! Call open_root_dir 2^32-2 more times: each is correctly refused with
//! TooManyOpenDirs but each burns one id, so the counter is back at X. Close
//! B. Open the root again: the new handle C has id X == A, and A is still
//! open.
//!
//! The loop is 2^32 iterations of a call that does no I/O: about 20 s with
//! --release, about 5.5 min in the default (debug) test profile.

mod utils;

use embedded_sdmmc::{Error, VolumeIdx, VolumeManager};

type Vm = VolumeManager<utils::RamDisk<Vec<u8>>, utils::TestTimeSource, 2, 1, 1>;

#[test]
fn handle_ids_wrap_onto_an_open_handle() {
    let disk = utils::make_block_device(utils::DISK_SOURCE).unwrap();
    // start close to the wrap point, as suggested by the id_offset parameter
    let vm: Vm = VolumeManager::new_with_limits(disk, utils::make_time_source(), u32::MAX - 2);

    let vol = vm.open_raw_volume(VolumeIdx(0)).unwrap(); // id MAX-2
    let a = vm.open_root_dir(vol).unwrap(); // id MAX-1
    let b = vm.open_dir(a, "TEST").unwrap(); // id MAX
    assert_ne!(a, b);

    // 2^32 - 2 refused opens; each one is a correct TooManyOpenDirs.
    let mut refused: u64 = 0;
    for _ in 0..(u32::MAX as u64 - 1) {
        match vm.open_root_dir(vol) {
            Err(Error::TooManyOpenDirs) => refused += 1,
            other => panic!("unexpected {:?}", other),
        }
    }
    assert_eq!(refused, (1u64 << 32) - 2);

    vm.close_dir(b).unwrap();
    // A is still open, one slot is free.
    let c = vm.open_dir(a, "TEST").expect("one slot is free");

    let duplicate = c == a;

    // Now close A. The handle `a` has been closed and must be a bad handle
    // from here on; the directory C (TEST) must still be open under `c`.
    vm.close_dir(a).unwrap();
    let a_still_accepted = vm.iterate_dir(a, |_| {}).is_ok();
    // what does the handle list now? (root has README.TXT, TEST has TEST.DAT)
    let mut sees_test_dat = false;
    let _ = vm.iterate_dir(a, |de| {
        if de.name.to_string() == "TEST.DAT" {
            sees_test_dat = true;
        }
    });

    // tidy up as far as possible
    let _ = vm.close_dir(c);
    let _ = vm.close_dir(a);
    let _ = vm.close_volume(vol);

    assert!(
        !duplicate,
        "open_dir returned handle {:?} while the distinct open directory {:?} already has it; \
         after close_dir(a): closed handle still accepted = {}, and it now lists TEST/ = {}",
        c, a, a_still_accepted, sees_test_dat
    );
    assert!(!a_still_accepted);
}
