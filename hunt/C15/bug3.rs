//! C15 bug 3: a volume with more than two FATs (BPB_NumFATs = 3 or 4) is
//! mounted, but only the first FAT is "located": every allocation the library
//! makes afterwards is written to FAT #0 alone, FAT #1, #2 (, #3) keep their
//! old contents - not even the second copy is maintained any more.
//!
//! Clause violated: "For every well-formed partition table and boot sector,
//! opening the volume succeeds and locates the FATs, root directory and data
//! area where the specification puts them".  The specification (Microsoft
//! fatgen103, BPB_NumFATs): "The count of FAT data structures on the volume.
//! This field should always contain the value 2 for any FAT volume of any
//! type. Although any value greater than or equal to 1 is perfectly valid,
//! many software programs and a few operating system's FAT file system drivers
//! may not function properly if the value is something other than 2."  The
//! FATs sit back to back after the reserved area and, with mirroring on (the
//! only mode this library knows), all of them carry the same contents.
//! CAVEAT: the property's quantifier names 1-2 FATs only, and the 2005 edition
//! of the specification words it as "a value of 2 is recommended although a
//! value of 1 is acceptable"; the statement itself says "every well-formed ...
//! boot sector".  Lowest-confidence finding of the three.
//!
//! Root cause: parse_volume() (src/fat/volume.rs:1447-1451)
//!     let second_fat_start = if bpb.num_fats() == 2 { Some(..) } else { None };
//! so for 3 or 4 FATs there is no second FAT at all, and update_fat()
//! (src/fat/volume.rs:230, 256, 281) can mirror to one extra copy at most.
//! The data area IS placed after all num_fats copies, so reading works, which
//! is why nothing is noticed until a checker (or a driver that falls back to a
//! later copy) compares the FATs: the file just written is "lost" there and
//! its clusters are free.
//!
//! What should have happened: either every copy is updated, or a volume the
//! library cannot keep consistent is refused at mount (Error::Unsupported /
//! FormatError) or mounted read-only.

use embedded_sdmmc::{
    Block, BlockCount, BlockDevice, BlockIdx, Mode, TimeSource, Timestamp, VolumeIdx,
    VolumeManager,
};
use std::cell::{Cell, RefCell};
use std::collections::HashMap;
use std::rc::Rc;

#[derive(Debug)]
struct OutOfRange(#[allow(dead_code)] u64);

#[derive(Clone)]
struct SparseDev {
    blocks: Rc<RefCell<HashMap<u32, [u8; 512]>>>,
    num_blocks: u32,
    transfers: Rc<Cell<u64>>,
}

const TRANSFER_BUDGET: u64 = 1_000_000;

impl SparseDev {
    fn put(&self, idx: u32, data: [u8; 512]) {
        assert!(idx < self.num_blocks);
        self.blocks.borrow_mut().insert(idx, data);
    }
    fn count(&self) {
        self.transfers.set(self.transfers.get() + 1);
        if self.transfers.get() > TRANSFER_BUDGET {
            panic!(
                "the library is looping: more than {} block transfers in one call",
                TRANSFER_BUDGET
            );
        }
    }
}

impl BlockDevice for SparseDev {
    type Error = OutOfRange;
    fn read(&self, blocks: &mut [Block], start: BlockIdx) -> Result<(), OutOfRange> {
        self.count();
        for (i, b) in blocks.iter_mut().enumerate() {
            let idx = start.0 as u64 + i as u64;
            if idx >= self.num_blocks as u64 {
                return Err(OutOfRange(idx));
            }
            b.contents = self
                .blocks
                .borrow()
                .get(&(idx as u32))
                .copied()
                .unwrap_or([0u8; 512]);
        }
        Ok(())
    }
    fn write(&self, blocks: &[Block], start: BlockIdx) -> Result<(), OutOfRange> {
        self.count();
        for (i, b) in blocks.iter().enumerate() {
            let idx = start.0 as u64 + i as u64;
            if idx >= self.num_blocks as u64 {
                return Err(OutOfRange(idx));
            }
            self.blocks.borrow_mut().insert(idx as u32, b.contents);
        }
        Ok(())
    }
    fn num_blocks(&self) -> Result<BlockCount, OutOfRange> {
        Ok(BlockCount(self.num_blocks))
    }
}

struct Clock;
impl TimeSource for Clock {
    fn get_timestamp(&self) -> Timestamp {
        Timestamp {
            year_since_1970: 33,
            zero_indexed_month: 3,
            zero_indexed_day: 3,
            hours: 13,
            minutes: 30,
            seconds: 4,
        }
    }
}

const PART_START: u32 = 2048;
const RESERVED: u32 = 4;
const CLUSTERS: u32 = 4200; // 4085..65524: FAT16
const FAT_SIZE: u32 = ((CLUSTERS + 2) * 2 + 511) / 512; // 17
const ROOT_ENTRIES: u32 = 512;
const ROOT_BLOCKS: u32 = ROOT_ENTRIES * 32 / 512;

fn total(num_fats: u32) -> u32 {
    RESERVED + num_fats * FAT_SIZE + ROOT_BLOCKS + CLUSTERS
}

/// A well-formed MBR + FAT16 volume (1 block per cluster, `num_fats` FATs,
/// 512 root entries, empty root directory).
fn image(num_fats: u32) -> SparseDev {
    let total = total(num_fats);
    let dev = SparseDev {
        blocks: Rc::new(RefCell::new(HashMap::new())),
        num_blocks: PART_START + total,
        transfers: Rc::new(Cell::new(0)),
    };
    let mut mbr = [0u8; 512];
    mbr[446 + 4] = 0x06;
    mbr[446 + 8..446 + 12].copy_from_slice(&PART_START.to_le_bytes());
    mbr[446 + 12..446 + 16].copy_from_slice(&total.to_le_bytes());
    mbr[510] = 0x55;
    mbr[511] = 0xAA;
    dev.put(0, mbr);

    let mut bs = [0u8; 512];
    bs[0..3].copy_from_slice(&[0xEB, 0x3C, 0x90]);
    bs[3..11].copy_from_slice(b"HUNTFMT ");
    bs[11..13].copy_from_slice(&512u16.to_le_bytes());
    bs[13] = 1;
    bs[14..16].copy_from_slice(&(RESERVED as u16).to_le_bytes());
    bs[16] = num_fats as u8;
    bs[17..19].copy_from_slice(&(ROOT_ENTRIES as u16).to_le_bytes());
    bs[19..21].copy_from_slice(&(total as u16).to_le_bytes());
    bs[21] = 0xF8;
    bs[22..24].copy_from_slice(&(FAT_SIZE as u16).to_le_bytes());
    bs[24..26].copy_from_slice(&63u16.to_le_bytes());
    bs[26..28].copy_from_slice(&255u16.to_le_bytes());
    bs[28..32].copy_from_slice(&PART_START.to_le_bytes());
    bs[36] = 0x80;
    bs[38] = 0x29;
    bs[43..54].copy_from_slice(b"HUNT16     ");
    bs[54..62].copy_from_slice(b"FAT16   ");
    bs[510] = 0x55;
    bs[511] = 0xAA;
    dev.put(PART_START, bs);

    let mut fat = [0u8; 512];
    fat[0..2].copy_from_slice(&0xFFF8u16.to_le_bytes());
    fat[2..4].copy_from_slice(&0xFFFFu16.to_le_bytes());
    for n in 0..num_fats {
        dev.put(PART_START + RESERVED + n * FAT_SIZE, fat);
    }
    dev
}

/// Mounts, writes a three-cluster file through the library, closes
/// everything, and then compares the FAT copies on the medium.
fn write_and_compare(num_fats: u32) -> Result<(), String> {
    let dev = image(num_fats);
    {
        let vm: VolumeManager<SparseDev, Clock, 4, 4, 1> =
            VolumeManager::new_with_limits(dev.clone(), Clock, 100);
        let vol = match vm.open_raw_volume(VolumeIdx(0)) {
            Ok(v) => v,
            Err(e) => {
                // refusing a layout the library cannot maintain would be fine
                println!("{} FATs: open_raw_volume refused: {:?}", num_fats, e);
                return Ok(());
            }
        };
        let root = vm.open_root_dir(vol).expect("open_root_dir");
        let f = vm
            .open_file_in_dir(root, "NEW.BIN", Mode::ReadWriteCreate)
            .expect("create");
        vm.write(f, &[0xA5u8; 3 * 512 - 10]).expect("write");
        vm.close_file(f).expect("close_file");
        vm.close_dir(root).expect("close_dir");
        vm.close_volume(vol).expect("close_volume");
    }
    // the data area is where the specification puts it: the root directory
    // follows ALL the FAT copies and now holds the new name
    let blocks = dev.blocks.borrow();
    let root0 = blocks
        .get(&(PART_START + RESERVED + num_fats * FAT_SIZE))
        .copied()
        .unwrap_or([0u8; 512]);
    assert_eq!(&root0[0..11], b"NEW     BIN", "root directory misplaced");
    let copy = |n: u32| -> Vec<u8> {
        (0..FAT_SIZE)
            .flat_map(|b| {
                blocks
                    .get(&(PART_START + RESERVED + n * FAT_SIZE + b))
                    .copied()
                    .unwrap_or([0u8; 512])
                    .to_vec()
            })
            .collect()
    };
    let first = copy(0);
    // FAT #0 holds the chain 2 -> 3 -> 4 -> end
    assert_eq!(&first[4..10], &[3, 0, 4, 0, 0xFF, 0xFF], "FAT #0");
    for n in 1..num_fats {
        let other = copy(n);
        if other != first {
            let at = first.iter().zip(&other).position(|(a, b)| a != b).unwrap();
            return Err(format!(
                "{} FATs: FAT #{} differs from FAT #0 at byte {} (cluster {}): {:02x?} vs {:02x?}",
                num_fats,
                n,
                at,
                at / 2,
                &other[at & !1..(at & !1) + 2],
                &first[at & !1..(at & !1) + 2]
            ));
        }
    }
    Ok(())
}

#[test]
fn control_one_and_two_fats_are_kept_identical() {
    write_and_compare(1).unwrap();
    write_and_compare(2).unwrap();
}

#[test]
fn three_and_four_fats_are_kept_identical_or_refused() {
    let mut failures = vec![];
    for n in [3, 4] {
        if let Err(e) = write_and_compare(n) {
            println!("{}", e);
            failures.push(e);
        }
    }
    assert!(failures.is_empty(), "{:#?}", failures);
}
