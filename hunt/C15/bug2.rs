//! C15 bug 2: a boot sector with BPB_NumFATs = 0 (and BPB_RootEntCnt = 0) is
//! accepted by open_raw_volume(); the layout computed from it puts the data
//! area on top of the FAT, and the first make_dir_in_dir() on the "volume"
//! never returns: it rewrites FAT entry 0 for ever (one device write per turn).
//!
//! Clause violated: "For any other contents of the partition table, boot
//! sector or FAT32 information sector - arbitrary bytes included - opening the
//! volume returns an error or a volume, and never panics, divides by zero or
//! overflows."  (quantified over "invalid: every field set to its boundary
//! values (0, 1, max)").  What is returned here is no volume in any useful
//! sense: with zero FATs there is no allocation table at all, yet
//! parse_volume() (src/fat/volume.rs:1446-1463) still points fat_start at
//! "reserved blocks" and first_data_block at the very same block
//! (reserved + 0 * fat_size + 0 root blocks), so cluster 2 *is* FAT block 0.
//!
//! What happens: make_dir_in_dir allocates cluster 2, blanks it and writes the
//! "." / ".." entries into it (destroying FAT entries 0..255), fails to add
//! the name to the zero-entry root directory (NotEnoughSpace), and hands the
//! cluster back through release_cluster_chain -> truncate_cluster_chain
//! (src/fat/volume.rs:1238-1253).  The FAT16 arm of next_cluster
//! (src/fat/volume.rs:310-322) answers Ok(ClusterId(0)) for a free entry, so
//! the walk reaches cluster 0, sets FAT[0] := 0, reads FAT[0] == 0 as "next
//! cluster is 0" and spins.
//!
//! What should have happened: the specification requires BPB_NumFATs >= 1;
//! open_raw_volume should have answered Error::FormatError (or at the very
//! least every later call should return, with an error).
//!
//! The block device below panics after 1 000 000 transfers so that the test
//! fails instead of hanging (the control case needs fewer than 100).

use embedded_sdmmc::{
    Block, BlockCount, BlockDevice, BlockIdx, TimeSource, Timestamp, VolumeIdx, VolumeManager,
};
use std::cell::{Cell, RefCell};
use std::collections::HashMap;
use std::rc::Rc;

#[derive(Debug)]
struct OutOfRange(#[allow(dead_code)] u64);

#[derive(Clone)]
struct SparseDev {
    blocks: Rc<RefCell<HashMap<u32, [u8; 512]>>>,
    num_blocks: u32,
    transfers: Rc<Cell<u64>>,
}

const TRANSFER_BUDGET: u64 = 1_000_000;

impl SparseDev {
    fn put(&self, idx: u32, data: [u8; 512]) {
        assert!(idx < self.num_blocks);
        self.blocks.borrow_mut().insert(idx, data);
    }
    fn count(&self) {
        self.transfers.set(self.transfers.get() + 1);
        if self.transfers.get() > TRANSFER_BUDGET {
            panic!(
                "the library is looping: more than {} block transfers in one call",
                TRANSFER_BUDGET
            );
        }
    }
}

impl BlockDevice for SparseDev {
    type Error = OutOfRange;
    fn read(&self, blocks: &mut [Block], start: BlockIdx) -> Result<(), OutOfRange> {
        self.count();
        for (i, b) in blocks.iter_mut().enumerate() {
            let idx = start.0 as u64 + i as u64;
            if idx >= self.num_blocks as u64 {
                return Err(OutOfRange(idx));
            }
            b.contents = self
                .blocks
                .borrow()
                .get(&(idx as u32))
                .copied()
                .unwrap_or([0u8; 512]);
        }
        Ok(())
    }
    fn write(&self, blocks: &[Block], start: BlockIdx) -> Result<(), OutOfRange> {
        self.count();
        for (i, b) in blocks.iter().enumerate() {
            let idx = start.0 as u64 + i as u64;
            if idx >= self.num_blocks as u64 {
                return Err(OutOfRange(idx));
            }
            self.blocks.borrow_mut().insert(idx as u32, b.contents);
        }
        Ok(())
    }
    fn num_blocks(&self) -> Result<BlockCount, OutOfRange> {
        Ok(BlockCount(self.num_blocks))
    }
}

struct Clock;
impl TimeSource for Clock {
    fn get_timestamp(&self) -> Timestamp {
        Timestamp {
            year_since_1970: 33,
            zero_indexed_month: 3,
            zero_indexed_day: 3,
            hours: 13,
            minutes: 30,
            seconds: 4,
        }
    }
}

const PART_START: u32 = 2048;
const RESERVED: u32 = 4;
const CLUSTERS: u32 = 4200; // 4085..65524: FAT16
const FAT_SIZE: u32 = ((CLUSTERS + 2) * 2 + 511) / 512; // 17
const ROOT_ENTRIES: u32 = 512;
const ROOT_BLOCKS: u32 = ROOT_ENTRIES * 32 / 512;
const TOTAL: u32 = RESERVED + 2 * FAT_SIZE + ROOT_BLOCKS + CLUSTERS;

/// A well-formed MBR + FAT16 volume (1 block per cluster, 2 FATs, 512 root
/// entries, empty root directory); `num_fats` and `root_entries` are what is
/// written into the two boot sector fields.
fn image(num_fats: u8, root_entries: u16) -> SparseDev {
    let dev = SparseDev {
        blocks: Rc::new(RefCell::new(HashMap::new())),
        num_blocks: PART_START + TOTAL,
        transfers: Rc::new(Cell::new(0)),
    };
    let mut mbr = [0u8; 512];
    mbr[446 + 4] = 0x06;
    mbr[446 + 8..446 + 12].copy_from_slice(&PART_START.to_le_bytes());
    mbr[446 + 12..446 + 16].copy_from_slice(&TOTAL.to_le_bytes());
    mbr[510] = 0x55;
    mbr[511] = 0xAA;
    dev.put(0, mbr);

    let mut bs = [0u8; 512];
    bs[0..3].copy_from_slice(&[0xEB, 0x3C, 0x90]);
    bs[3..11].copy_from_slice(b"HUNTFMT ");
    bs[11..13].copy_from_slice(&512u16.to_le_bytes());
    bs[13] = 1;
    bs[14..16].copy_from_slice(&(RESERVED as u16).to_le_bytes());
    bs[16] = num_fats;
    bs[17..19].copy_from_slice(&root_entries.to_le_bytes());
    bs[19..21].copy_from_slice(&(TOTAL as u16).to_le_bytes());
    bs[21] = 0xF8;
    bs[22..24].copy_from_slice(&(FAT_SIZE as u16).to_le_bytes());
    bs[24..26].copy_from_slice(&63u16.to_le_bytes());
    bs[26..28].copy_from_slice(&255u16.to_le_bytes());
    bs[28..32].copy_from_slice(&PART_START.to_le_bytes());
    bs[36] = 0x80;
    bs[38] = 0x29;
    bs[43..54].copy_from_slice(b"HUNT16     ");
    bs[54..62].copy_from_slice(b"FAT16   ");
    bs[510] = 0x55;
    bs[511] = 0xAA;
    dev.put(PART_START, bs);

    let mut fat = [0u8; 512];
    fat[0..2].copy_from_slice(&0xFFF8u16.to_le_bytes());
    fat[2..4].copy_from_slice(&0xFFFFu16.to_le_bytes());
    dev.put(PART_START + RESERVED, fat);
    dev.put(PART_START + RESERVED + FAT_SIZE, fat);
    dev
}

fn mount_and_mkdir(num_fats: u8, root_entries: u16) -> Result<String, String> {
    let dev = image(num_fats, root_entries);
    let r = std::panic::catch_unwind(std::panic::AssertUnwindSafe(|| {
        let vm: VolumeManager<SparseDev, Clock, 4, 4, 1> =
            VolumeManager::new_with_limits(dev.clone(), Clock, 100);
        let vol = match vm.open_raw_volume(VolumeIdx(0)) {
            Ok(v) => v,
            Err(e) => return format!("open_raw_volume refused: {:?}", e),
        };
        let root = vm.open_root_dir(vol).expect("open_root_dir");
        let made = vm.make_dir_in_dir(root, "NEWDIR");
        format!("mounted; make_dir_in_dir {:?}", made)
    }));
    println!(
        "NumFATs={} RootEntCnt={}: {} block transfers",
        num_fats,
        root_entries,
        dev.transfers.get()
    );
    r.map_err(|p| {
        p.downcast_ref::<String>()
            .cloned()
            .or_else(|| p.downcast_ref::<&str>().map(|s| s.to_string()))
            .unwrap_or_default()
    })
}

#[test]
fn control_two_fats_512_root_entries() {
    assert_eq!(
        mount_and_mkdir(2, 512).expect("no panic"),
        "mounted; make_dir_in_dir Ok(())"
    );
}

#[test]
fn zero_fats_zero_root_entries_is_refused_or_at_least_every_call_returns() {
    match mount_and_mkdir(0, 0) {
        Ok(what) => println!("{}", what), // an error or a volume: both are fine
        Err(msg) => panic!("BPB_NumFATs = 0, BPB_RootEntCnt = 0: {}", msg),
    }
}
