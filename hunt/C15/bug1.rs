//! C15 bug 1: the FAT32 root directory cluster (BPB_RootClus, boot sector
//! offset 44) is taken from the boot sector without any validation.
//!
//! Clause violated: "For any other contents of the partition table, boot
//! sector or FAT32 information sector - arbitrary bytes included - opening the
//! volume returns an error or a volume, and never panics, divides by zero or
//! overflows."
//!
//! An otherwise perfectly well-formed FAT32 volume whose BPB_RootClus is one
//! of its boundary values is mounted: open_raw_volume() answers Ok.  What it
//! hands back is not a usable volume, though: the first thing anybody does
//! with it - list or search the root directory - panics inside the library
//! (observed with this image, 1 block per cluster):
//!
//!   * RootClus 0 / 1                  -> 'attempt to subtract with overflow'  src/fat/volume.rs:385
//!   * RootClus 0xFFFFFFFC/0xFFFFFFFF  -> 'attempt to add with overflow'       src/blockdevice.rs:210
//!
//! (with more blocks per cluster the product (RootClus - 2) * blocks_per_cluster
//! on the same line overflows as well; the other out-of-range values happen to
//! end in a DeviceError because the block lies beyond the device).
//!
//! What should have happened: clusters 0 and 1 do not exist and clusters above
//! BPB cluster count + 1 lie outside the volume, so parse_volume() should have
//! refused the boot sector (Error::FormatError), or the directory walk should
//! have answered with an error - never a panic.
//!
//! Needs overflow checks (debug profile): `cargo test --offline --test bug1`.

use embedded_sdmmc::{
    Block, BlockCount, BlockDevice, BlockIdx, TimeSource, Timestamp, VolumeIdx, VolumeManager,
};
use std::cell::RefCell;
use std::collections::HashMap;
use std::rc::Rc;

#[derive(Debug)]
struct OutOfRange(#[allow(dead_code)] u64);

#[derive(Clone)]
struct SparseDev {
    blocks: Rc<RefCell<HashMap<u32, [u8; 512]>>>,
    num_blocks: u32,
}

impl SparseDev {
    fn put(&self, idx: u32, data: [u8; 512]) {
        assert!(idx < self.num_blocks);
        self.blocks.borrow_mut().insert(idx, data);
    }
}

impl BlockDevice for SparseDev {
    type Error = OutOfRange;
    fn read(&self, blocks: &mut [Block], start: BlockIdx) -> Result<(), OutOfRange> {
        for (i, b) in blocks.iter_mut().enumerate() {
            let idx = start.0 as u64 + i as u64;
            if idx >= self.num_blocks as u64 {
                return Err(OutOfRange(idx));
            }
            b.contents = self
                .blocks
                .borrow()
                .get(&(idx as u32))
                .copied()
                .unwrap_or([0u8; 512]);
        }
        Ok(())
    }
    fn write(&self, blocks: &[Block], start: BlockIdx) -> Result<(), OutOfRange> {
        for (i, b) in blocks.iter().enumerate() {
            let idx = start.0 as u64 + i as u64;
            if idx >= self.num_blocks as u64 {
                return Err(OutOfRange(idx));
            }
            self.blocks.borrow_mut().insert(idx as u32, b.contents);
        }
        Ok(())
    }
    fn num_blocks(&self) -> Result<BlockCount, OutOfRange> {
        Ok(BlockCount(self.num_blocks))
    }
}

struct Clock;
impl TimeSource for Clock {
    fn get_timestamp(&self) -> Timestamp {
        Timestamp {
            year_since_1970: 33,
            zero_indexed_month: 3,
            zero_indexed_day: 3,
            hours: 13,
            minutes: 30,
            seconds: 4,
        }
    }
}

const PART_START: u32 = 2048;
const RESERVED: u32 = 32;
const CLUSTERS: u32 = 65600; // >= 65525: FAT32
const SPC: u32 = 1;
const FAT_SIZE: u32 = ((CLUSTERS + 2) * 4 + 511) / 512;
const TOTAL: u32 = RESERVED + 2 * FAT_SIZE + CLUSTERS * SPC;

/// A well-formed MBR + FAT32 volume (root directory in cluster 2, one file
/// entry in it), except for the value put into BPB_RootClus.
fn image(root_clus_field: u32) -> SparseDev {
    let dev = SparseDev {
        blocks: Rc::new(RefCell::new(HashMap::new())),
        num_blocks: PART_START + TOTAL,
    };
    let mut mbr = [0u8; 512];
    mbr[446] = 0x00;
    mbr[446 + 4] = 0x0C;
    mbr[446 + 8..446 + 12].copy_from_slice(&PART_START.to_le_bytes());
    mbr[446 + 12..446 + 16].copy_from_slice(&TOTAL.to_le_bytes());
    mbr[510] = 0x55;
    mbr[511] = 0xAA;
    dev.put(0, mbr);

    let mut bs = [0u8; 512];
    bs[0..3].copy_from_slice(&[0xEB, 0x58, 0x90]);
    bs[3..11].copy_from_slice(b"HUNTFMT ");
    bs[11..13].copy_from_slice(&512u16.to_le_bytes());
    bs[13] = SPC as u8;
    bs[14..16].copy_from_slice(&(RESERVED as u16).to_le_bytes());
    bs[16] = 2;
    bs[21] = 0xF8;
    bs[24..26].copy_from_slice(&63u16.to_le_bytes());
    bs[26..28].copy_from_slice(&255u16.to_le_bytes());
    bs[28..32].copy_from_slice(&PART_START.to_le_bytes());
    bs[32..36].copy_from_slice(&TOTAL.to_le_bytes());
    bs[36..40].copy_from_slice(&FAT_SIZE.to_le_bytes());
    bs[44..48].copy_from_slice(&root_clus_field.to_le_bytes());
    bs[48..50].copy_from_slice(&1u16.to_le_bytes());
    bs[50..52].copy_from_slice(&6u16.to_le_bytes());
    bs[64] = 0x80;
    bs[66] = 0x29;
    bs[71..82].copy_from_slice(b"HUNT32     ");
    bs[82..90].copy_from_slice(b"FAT32   ");
    bs[510] = 0x55;
    bs[511] = 0xAA;
    dev.put(PART_START, bs);

    let mut fi = [0u8; 512];
    fi[0..4].copy_from_slice(&0x4161_5252u32.to_le_bytes());
    fi[484..488].copy_from_slice(&0x6141_7272u32.to_le_bytes());
    fi[488..492].copy_from_slice(&0xFFFF_FFFFu32.to_le_bytes());
    fi[492..496].copy_from_slice(&0xFFFF_FFFFu32.to_le_bytes());
    fi[508..512].copy_from_slice(&0xAA55_0000u32.to_le_bytes());
    dev.put(PART_START + 1, fi);

    // FAT[0], FAT[1], FAT[2] (root directory, one cluster), FAT[3] (the file)
    let mut fat = [0u8; 512];
    fat[0..4].copy_from_slice(&0x0FFF_FFF8u32.to_le_bytes());
    fat[4..8].copy_from_slice(&0x0FFF_FFFFu32.to_le_bytes());
    fat[8..12].copy_from_slice(&0x0FFF_FFFFu32.to_le_bytes());
    fat[12..16].copy_from_slice(&0x0FFF_FFFFu32.to_le_bytes());
    dev.put(PART_START + RESERVED, fat);
    dev.put(PART_START + RESERVED + FAT_SIZE, fat);

    let mut root = [0u8; 512];
    root[0..11].copy_from_slice(b"A       TXT");
    root[11] = 0x20;
    root[26..28].copy_from_slice(&3u16.to_le_bytes());
    root[28..32].copy_from_slice(&5u32.to_le_bytes());
    dev.put(PART_START + RESERVED + 2 * FAT_SIZE, root);
    let mut data = [0u8; 512];
    data[0..5].copy_from_slice(b"hello");
    dev.put(PART_START + RESERVED + 2 * FAT_SIZE + 1, data);
    dev
}

/// Mounts the image and looks at the root directory. Ok(description) when the
/// library answered (with a volume or with errors), Err(panic message) when it
/// panicked.
fn mount_and_look(root_clus_field: u32) -> Result<String, String> {
    let dev = image(root_clus_field);
    let r = std::panic::catch_unwind(std::panic::AssertUnwindSafe(|| {
        let vm: VolumeManager<SparseDev, Clock, 4, 4, 1> =
            VolumeManager::new_with_limits(dev.clone(), Clock, 100);
        let vol = match vm.open_raw_volume(VolumeIdx(0)) {
            Ok(v) => v,
            Err(e) => return format!("open_raw_volume refused: {:?}", e),
        };
        let root = match vm.open_root_dir(vol) {
            Ok(r) => r,
            Err(e) => return format!("open_root_dir refused: {:?}", e),
        };
        let mut names = vec![];
        let listed = vm.iterate_dir(root, |e| names.push(format!("{}", e.name)));
        let found = vm.find_directory_entry(root, "A.TXT").map(|e| e.size);
        format!("mounted; iterate_dir {:?} {:?}; find {:?}", listed, names, found)
    }));
    r.map_err(|p| {
        p.downcast_ref::<String>()
            .cloned()
            .or_else(|| p.downcast_ref::<&str>().map(|s| s.to_string()))
            .unwrap_or_default()
    })
}

#[test]
fn control_root_cluster_2_is_mounted_and_listed() {
    let got = mount_and_look(2).expect("no panic");
    assert_eq!(
        got,
        "mounted; iterate_dir Ok(()) [\"A.TXT\"]; find Ok(5)"
    );
}

#[test]
fn boundary_values_of_the_root_cluster_field_never_panic() {
    let mut panics = vec![];
    for v in [
        0u32,
        1,
        CLUSTERS + 2, // first cluster number past the volume
        0x0200_0002,
        0x0FFF_FFF7,
        0x0FFF_FFFF,
        0x3FFF_FFFF,
        0x4000_0000,
        0x7FFF_FFFF,
        0x8000_0000,
        0xFFFF_FFFC,
        0xFFFF_FFFF,
    ] {
        match mount_and_look(v) {
            Ok(what) => println!("BPB_RootClus = {:#010x}: {}", v, what),
            Err(msg) => {
                println!("BPB_RootClus = {:#010x}: PANIC: {}", v, msg);
                panics.push((v, msg));
            }
        }
    }
    assert!(
        panics.is_empty(),
        "a boot sector field made the library panic instead of returning an error: {:x?}",
        panics
    );
}
