//! C15 hunt: grid of valid layouts made by an independent formatter.
mod hunt_common;
use hunt_common::*;

struct Rng(u64);
impl Rng {
    fn next(&mut self) -> u32 {
        self.0 = self
            .0
            .wrapping_mul(6364136223846793005)
            .wrapping_add(1442695040888963407);
        (self.0 >> 33) as u32
    }
    fn pick<T: Copy>(&mut self, xs: &[T]) -> T {
        xs[self.next() as usize % xs.len()]
    }
}

#[test]
fn grid() {
    let mut rng = Rng(12345);
    let mut failures = vec![];
    for i in 0..600 {
        let fat32 = rng.next() % 2 == 0;
        let spc = rng.pick(&[1u32, 2, 4, 8, 16, 32, 64, 128]);
        let count = if fat32 {
            rng.pick(&[65525u32, 65526, 65527, 70001, 100000])
        } else {
            rng.pick(&[4085u32, 4086, 5000, 32767, 32768, 32769, 65523, 65524])
        };
        let reserved = if fat32 {
            rng.pick(&[2u32, 3, 32, 33, 1000, 65535])
        } else {
            rng.pick(&[1u32, 2, 8, 33, 65535])
        };
        let fsinfo = if fat32 {
            if reserved > 2 {
                rng.pick(&[1u32, 2, reserved - 1])
            } else {
                1
            }
        } else {
            0
        };
        let num_fats = rng.pick(&[1u32, 2]);
        let root_entries = rng.pick(&[1u32, 16, 17, 112, 224, 512, 513, 1024, 65535]);
        let slack = rng.next() % spc;
        let fat_extra = rng.pick(&[0u32, 0, 1, 7]);
        let root_cluster = if fat32 { rng.pick(&[2u32, 3, 100, count - 5]) } else { 0 };
        let mut l = Layout {
            fat32,
            spc,
            reserved,
            num_fats,
            root_entries,
            count,
            slack,
            fat_extra,
            use_total16: false,
            slot: (rng.next() % 4) as usize,
            part_start: rng.pick(&[1u32, 63, 2048, 8192, 1_000_000]),
            part_type: rng.pick(&[0x04u8, 0x06, 0x0B, 0x0C, 0x0E]),
            status: rng.pick(&[0u8, 0x80]),
            root_cluster,
            fsinfo,
        };
        if l.total() < 65536 {
            l.use_total16 = rng.next() % 2 == 0;
        }
        if rng.next() % 5 == 0 {
            // partition ending at the very end of the 32-bit block space
            l.part_start = (0x1_0000_0000u64 - l.total() as u64) as u32;
        }
        let r = std::panic::catch_unwind(std::panic::AssertUnwindSafe(|| check(&l)));
        match r {
            Ok(Ok(())) => {}
            Ok(Err(e)) => failures.push(format!("case {}: {} :: {:?}", i, e, l)),
            Err(p) => {
                let msg = p
                    .downcast_ref::<String>()
                    .cloned()
                    .or_else(|| p.downcast_ref::<&str>().map(|s| s.to_string()))
                    .unwrap_or_default();
                failures.push(format!("case {}: PANIC {} :: {:?}", i, msg, l))
            }
        }
    }
    for f in &failures {
        println!("{}", f);
    }
    assert!(failures.is_empty(), "{} failures", failures.len());
}
