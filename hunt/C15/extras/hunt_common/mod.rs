//! common code: sparse device + independent formatter
#![allow(dead_code)]

use embedded_sdmmc::{
    Block, BlockCount, BlockDevice, BlockIdx, Mode, TimeSource, Timestamp, VolumeIdx,
    VolumeManager,
};
use std::cell::RefCell;
use std::collections::HashMap;
use std::rc::Rc;

#[derive(Debug)]
pub enum DevErr {
    OutOfRange(u32),
}

#[derive(Clone)]
pub struct SparseDev {
    inner: Rc<RefCell<Inner>>,
}
pub struct Inner {
    blocks: HashMap<u32, [u8; 512]>,
    num_blocks: u64,
    oob: Vec<u32>,
    pub accesses: u64,
    pub limit: u64,
}

impl SparseDev {
    pub fn new(num_blocks: u64) -> Self {
        SparseDev {
            inner: Rc::new(RefCell::new(Inner {
                blocks: HashMap::new(),
                num_blocks,
                oob: Vec::new(),
                accesses: 0,
                limit: u64::MAX,
            })),
        }
    }
    pub fn get(&self, idx: u64) -> [u8; 512] {
        assert!(idx < self.inner.borrow().num_blocks, "formatter oob {}", idx);
        self.inner
            .borrow()
            .blocks
            .get(&(idx as u32))
            .copied()
            .unwrap_or([0u8; 512])
    }
    pub fn put(&self, idx: u64, data: [u8; 512]) {
        assert!(idx < self.inner.borrow().num_blocks, "formatter oob {}", idx);
        self.inner.borrow_mut().blocks.insert(idx as u32, data);
    }
    pub fn modify(&self, idx: u64, f: impl FnOnce(&mut [u8; 512])) {
        let mut b = self.get(idx);
        f(&mut b);
        self.put(idx, b);
    }
    pub fn set_limit(&self, limit: u64) {
        self.inner.borrow_mut().limit = limit;
    }
    pub fn accesses(&self) -> u64 {
        self.inner.borrow().accesses
    }
    pub fn oob(&self) -> Vec<u32> {
        self.inner.borrow().oob.clone()
    }
}

impl BlockDevice for SparseDev {
    type Error = DevErr;
    fn read(&self, blocks: &mut [Block], start: BlockIdx) -> Result<(), DevErr> {
        let mut inner = self.inner.borrow_mut();
        inner.accesses += 1;
        if inner.accesses > inner.limit {
            panic!("LOOP: access limit exceeded");
        }
        for (i, b) in blocks.iter_mut().enumerate() {
            let idx = start.0 as u64 + i as u64;
            if idx >= inner.num_blocks {
                inner.oob.push(idx as u32);
                return Err(DevErr::OutOfRange(idx as u32));
            }
            b.contents = inner
                .blocks
                .get(&(idx as u32))
                .copied()
                .unwrap_or([0u8; 512]);
        }
        Ok(())
    }
    fn write(&self, blocks: &[Block], start: BlockIdx) -> Result<(), DevErr> {
        let mut inner = self.inner.borrow_mut();
        inner.accesses += 1;
        if inner.accesses > inner.limit {
            panic!("LOOP: access limit exceeded");
        }
        for (i, b) in blocks.iter().enumerate() {
            let idx = start.0 as u64 + i as u64;
            if idx >= inner.num_blocks {
                inner.oob.push(idx as u32);
                return Err(DevErr::OutOfRange(idx as u32));
            }
            inner.blocks.insert(idx as u32, b.contents);
        }
        Ok(())
    }
    fn num_blocks(&self) -> Result<BlockCount, DevErr> {
        Ok(BlockCount(self.inner.borrow().num_blocks.min(u32::MAX as u64) as u32))
    }
}

pub struct Clock;
impl TimeSource for Clock {
    fn get_timestamp(&self) -> Timestamp {
        Timestamp {
            year_since_1970: 33,
            zero_indexed_month: 3,
            zero_indexed_day: 3,
            hours: 13,
            minutes: 30,
            seconds: 4,
        }
    }
}

#[derive(Debug, Clone)]
pub struct Layout {
    pub fat32: bool,
    pub spc: u32,
    pub reserved: u32,
    pub num_fats: u32,
    pub root_entries: u32,
    pub count: u32,
    pub slack: u32,
    pub fat_extra: u32,
    pub use_total16: bool,
    pub slot: usize,
    pub part_start: u32,
    pub part_type: u8,
    pub status: u8,
    pub root_cluster: u32,
    pub fsinfo: u32,
}

impl Layout {
    pub fn fat_size(&self) -> u32 {
        let bytes = (self.count + 2) * if self.fat32 { 4 } else { 2 };
        (bytes + 511) / 512 + self.fat_extra
    }
    pub fn root_blocks(&self) -> u32 {
        if self.fat32 {
            0
        } else {
            (self.root_entries * 32 + 511) / 512
        }
    }
    pub fn fat_start(&self, n: u32) -> u64 {
        self.part_start as u64 + self.reserved as u64 + (n * self.fat_size()) as u64
    }
    pub fn root_start(&self) -> u64 {
        self.fat_start(self.num_fats)
    }
    pub fn data_start(&self) -> u64 {
        self.root_start() + self.root_blocks() as u64
    }
    pub fn total(&self) -> u32 {
        self.reserved
            + self.num_fats * self.fat_size()
            + self.root_blocks()
            + self.count * self.spc
            + self.slack
    }
    pub fn cluster_block(&self, c: u32) -> u64 {
        self.data_start() + (c as u64 - 2) * self.spc as u64
    }
}

pub fn set_fat(dev: &SparseDev, l: &Layout, c: u32, v: u32) {
    for n in 0..l.num_fats {
        if l.fat32 {
            let off = c as u64 * 4;
            dev.modify(l.fat_start(n) + off / 512, |b| {
                let o = (off % 512) as usize;
                b[o..o + 4].copy_from_slice(&v.to_le_bytes());
            });
        } else {
            let off = c as u64 * 2;
            dev.modify(l.fat_start(n) + off / 512, |b| {
                let o = (off % 512) as usize;
                b[o..o + 2].copy_from_slice(&(v as u16).to_le_bytes());
            });
        }
    }
}

pub fn get_fat(dev: &SparseDev, l: &Layout, n: u32, c: u32) -> u32 {
    if l.fat32 {
        let off = c as u64 * 4;
        let b = dev.get(l.fat_start(n) + off / 512);
        let o = (off % 512) as usize;
        u32::from_le_bytes([b[o], b[o + 1], b[o + 2], b[o + 3]]) & 0x0FFF_FFFF
    } else {
        let off = c as u64 * 2;
        let b = dev.get(l.fat_start(n) + off / 512);
        let o = (off % 512) as usize;
        u16::from_le_bytes([b[o], b[o + 1]]) as u32
    }
}

pub fn pattern(id: u32, off: u32) -> u8 {
    (off.wrapping_mul(2654435761).wrapping_add(id * 97) >> 13) as u8 ^ (off as u8)
}

pub fn dirent(name: &[u8; 11], attr: u8, cluster: u32, size: u32) -> [u8; 32] {
    let mut e = [0u8; 32];
    e[0..11].copy_from_slice(name);
    e[11] = attr;
    e[20..22].copy_from_slice(&((cluster >> 16) as u16).to_le_bytes());
    e[26..28].copy_from_slice(&(cluster as u16).to_le_bytes());
    e[28..32].copy_from_slice(&size.to_le_bytes());
    // some date
    e[24..26].copy_from_slice(&0x2E84u16.to_le_bytes());
    e[22..24].copy_from_slice(&0x6BC2u16.to_le_bytes());
    e
}

/// write file data to a chain of clusters
pub fn write_chain(dev: &SparseDev, l: &Layout, chain: &[u32], id: u32, size: u32) {
    let eoc = if l.fat32 { 0x0FFF_FFFF } else { 0xFFFF };
    let bpc = l.spc * 512;
    for (i, &c) in chain.iter().enumerate() {
        let next = if i + 1 < chain.len() { chain[i + 1] } else { eoc };
        set_fat(dev, l, c, next);
        for s in 0..l.spc {
            let base = i as u32 * bpc + s * 512;
            if base >= size {
                break;
            }
            let mut b = [0u8; 512];
            for (k, x) in b.iter_mut().enumerate() {
                let off = base + k as u32;
                if off < size {
                    *x = pattern(id, off);
                }
            }
            dev.put(l.cluster_block(c) + s as u64, b);
        }
    }
}

pub const FILE_A_ID: u32 = 1;
pub const FILE_B_ID: u32 = 2;

pub struct Made {
    pub dev: SparseDev,
    pub a_size: u32,
    pub b_size: u32,
    pub used: Vec<u32>,
}

pub fn format(l: &Layout, dev_blocks: u64) -> Made {
    let dev = SparseDev::new(dev_blocks);
    let total = l.total();
    // MBR
    let mut mbr = [0u8; 512];
    // noise in the boot code area
    for (i, b) in mbr.iter_mut().enumerate().take(440) {
        *b = (i * 7 + 3) as u8;
    }
    let p = 446 + 16 * l.slot;
    mbr[p] = l.status;
    mbr[p + 1..p + 4].copy_from_slice(&[0xFE, 0xFF, 0xFF]);
    mbr[p + 4] = l.part_type;
    mbr[p + 5..p + 8].copy_from_slice(&[0xFE, 0xFF, 0xFF]);
    mbr[p + 8..p + 12].copy_from_slice(&l.part_start.to_le_bytes());
    mbr[p + 12..p + 16].copy_from_slice(&total.to_le_bytes());
    mbr[510] = 0x55;
    mbr[511] = 0xAA;
    dev.put(0, mbr);

    // boot sector
    let mut bs = [0u8; 512];
    bs[0..3].copy_from_slice(&[0xEB, 0x58, 0x90]);
    bs[3..11].copy_from_slice(b"HUNTFMT ");
    bs[11..13].copy_from_slice(&512u16.to_le_bytes());
    bs[13] = l.spc as u8;
    bs[14..16].copy_from_slice(&(l.reserved as u16).to_le_bytes());
    bs[16] = l.num_fats as u8;
    bs[17..19].copy_from_slice(&(if l.fat32 { 0 } else { l.root_entries } as u16).to_le_bytes());
    if l.use_total16 {
        assert!(total < 65536);
        bs[19..21].copy_from_slice(&(total as u16).to_le_bytes());
    } else {
        bs[32..36].copy_from_slice(&total.to_le_bytes());
    }
    bs[21] = 0xF8;
    bs[24..26].copy_from_slice(&63u16.to_le_bytes());
    bs[26..28].copy_from_slice(&255u16.to_le_bytes());
    bs[28..32].copy_from_slice(&l.part_start.to_le_bytes());
    if l.fat32 {
        bs[36..40].copy_from_slice(&l.fat_size().to_le_bytes());
        bs[44..48].copy_from_slice(&l.root_cluster.to_le_bytes());
        bs[48..50].copy_from_slice(&(l.fsinfo as u16).to_le_bytes());
        bs[50..52].copy_from_slice(&6u16.to_le_bytes());
        bs[64] = 0x80;
        bs[66] = 0x29;
        bs[67..71].copy_from_slice(&0x12345678u32.to_le_bytes());
        bs[71..82].copy_from_slice(b"HUNT32     ");
        bs[82..90].copy_from_slice(b"FAT32   ");
    } else {
        bs[22..24].copy_from_slice(&(l.fat_size() as u16).to_le_bytes());
        bs[36] = 0x80;
        bs[38] = 0x29;
        bs[39..43].copy_from_slice(&0x12345678u32.to_le_bytes());
        bs[43..54].copy_from_slice(b"HUNT16     ");
        bs[54..62].copy_from_slice(b"FAT16   ");
    }
    bs[510] = 0x55;
    bs[511] = 0xAA;
    dev.put(l.part_start as u64, bs);

    let last = l.count + 1;
    let eoc = if l.fat32 { 0x0FFF_FFFF } else { 0xFFFF };
    set_fat(&dev, l, 0, if l.fat32 { 0x0FFF_FFF8 } else { 0xFFF8 });
    set_fat(&dev, l, 1, eoc);

    let mut used = vec![];
    // root dir
    let bpc = l.spc * 512;
    let a_size = bpc * 2 + bpc / 2 + 7;
    let b_size = 300;
    // File A: fragmented: last cluster, then 9, then 8
    let a_chain = [last, 9, 8];
    let sub_cluster = last - 1;
    let b_chain = [last - 2];
    write_chain(&dev, l, &a_chain, FILE_A_ID, a_size);
    write_chain(&dev, l, &b_chain, FILE_B_ID, b_size);
    used.extend_from_slice(&a_chain);
    used.extend_from_slice(&b_chain);
    used.push(sub_cluster);
    set_fat(&dev, l, sub_cluster, eoc);
    // subdir contents
    let mut sb = [0u8; 512];
    sb[0..32].copy_from_slice(&dirent(b".          ", 0x10, sub_cluster, 0));
    sb[32..64].copy_from_slice(&dirent(b"..         ", 0x10, 0, 0));
    sb[64..96].copy_from_slice(&dirent(b"B       DAT", 0x20, b_chain[0], b_size));
    dev.put(l.cluster_block(sub_cluster), sb);

    let mut rb = [0u8; 512];
    rb[0..32].copy_from_slice(&dirent(b"A       TXT", 0x20, a_chain[0], a_size));
    rb[32..64].copy_from_slice(&dirent(b"SUB        ", 0x10, sub_cluster, 0));
    if l.fat32 {
        set_fat(&dev, l, l.root_cluster, eoc);
        used.push(l.root_cluster);
        dev.put(l.cluster_block(l.root_cluster), rb);
        // FSInfo
        let mut fi = [0u8; 512];
        fi[0..4].copy_from_slice(&0x41615252u32.to_le_bytes());
        fi[484..488].copy_from_slice(&0x61417272u32.to_le_bytes());
        fi[488..492].copy_from_slice(&0xFFFF_FFFFu32.to_le_bytes());
        fi[492..496].copy_from_slice(&0xFFFF_FFFFu32.to_le_bytes());
        fi[508..512].copy_from_slice(&0xAA550000u32.to_le_bytes());
        dev.put(l.part_start as u64 + l.fsinfo as u64, fi);
    } else {
        dev.put(l.root_start(), rb);
    }
    Made {
        dev,
        a_size,
        b_size,
        used,
    }
}

pub fn check(l: &Layout) -> Result<(), String> {
    let dev_blocks = l.part_start as u64 + l.total() as u64;
    let made = format(l, dev_blocks);
    let dev = made.dev.clone();
    let vm: VolumeManager<SparseDev, Clock, 4, 4, 1> =
        VolumeManager::new_with_limits(dev.clone(), Clock, 100);
    let vol = vm
        .open_raw_volume(VolumeIdx(l.slot))
        .map_err(|e| format!("open_raw_volume: {:?}", e))?;
    let root = vm
        .open_root_dir(vol)
        .map_err(|e| format!("open_root_dir: {:?}", e))?;
    let mut names = vec![];
    vm.iterate_dir(root, |e| names.push(format!("{}", e.name)))
        .map_err(|e| format!("iterate_dir: {:?}", e))?;
    if names != ["A.TXT", "SUB"] {
        return Err(format!("root listing {:?}", names));
    }
    // read A
    let f = vm
        .open_file_in_dir(root, "A.TXT", Mode::ReadOnly)
        .map_err(|e| format!("open A: {:?}", e))?;
    let mut buf = vec![0u8; made.a_size as usize + 10];
    let mut got = 0;
    loop {
        let n = vm
            .read(f, &mut buf[got..])
            .map_err(|e| format!("read A: {:?}", e))?;
        if n == 0 {
            break;
        }
        got += n;
    }
    if got != made.a_size as usize {
        return Err(format!("A size {} != {}", got, made.a_size));
    }
    for (i, &b) in buf[..got].iter().enumerate() {
        if b != pattern(FILE_A_ID, i as u32) {
            return Err(format!("A differs at {}", i));
        }
    }
    vm.close_file(f).unwrap();
    let sub = vm
        .open_dir(root, "SUB")
        .map_err(|e| format!("open SUB: {:?}", e))?;
    let f = vm
        .open_file_in_dir(sub, "B.DAT", Mode::ReadOnly)
        .map_err(|e| format!("open B: {:?}", e))?;
    let mut bbuf = [0u8; 512];
    let n = vm.read(f, &mut bbuf).map_err(|e| format!("read B: {:?}", e))?;
    if n != made.b_size as usize {
        return Err(format!("B size {}", n));
    }
    for (i, &b) in bbuf[..n].iter().enumerate() {
        if b != pattern(FILE_B_ID, i as u32) {
            return Err(format!("B differs at {}", i));
        }
    }
    vm.close_file(f).unwrap();
    vm.close_dir(sub).unwrap();

    // write a new file through the library: 1.5 clusters
    let bpc = l.spc * 512;
    let n_size = bpc + bpc / 2;
    let data: Vec<u8> = (0..n_size).map(|i| pattern(3, i)).collect();
    let f = vm
        .open_file_in_dir(root, "NEW.BIN", Mode::ReadWriteCreate)
        .map_err(|e| format!("create NEW: {:?}", e))?;
    vm.write(f, &data).map_err(|e| format!("write NEW: {:?}", e))?;
    vm.close_file(f).map_err(|e| format!("close NEW: {:?}", e))?;
    vm.close_dir(root).unwrap();
    vm.close_volume(vol)
        .map_err(|e| format!("close_volume: {:?}", e))?;

    if !dev.oob().is_empty() {
        return Err(format!("out of range accesses {:?}", dev.oob()));
    }
    // independent check of NEW.BIN
    let rootblk = if l.fat32 {
        l.cluster_block(l.root_cluster)
    } else {
        l.root_start()
    };
    let rb = dev.get(rootblk);
    let e = &rb[64..96];
    if &e[0..11] != b"NEW     BIN" {
        return Err(format!("NEW.BIN entry not in slot 2: {:?}", &e[0..11]));
    }
    let mut c = (u16::from_le_bytes([e[26], e[27]]) as u32)
        | ((u16::from_le_bytes([e[20], e[21]]) as u32) << 16);
    let size = u32::from_le_bytes([e[28], e[29], e[30], e[31]]);
    if size != n_size {
        return Err(format!("NEW.BIN size {}", size));
    }
    let mut off = 0u32;
    let mut nclusters = 0;
    loop {
        if c < 2 || c > l.count + 1 {
            return Err(format!("NEW.BIN cluster {} out of range", c));
        }
        if made.used.contains(&c) {
            return Err(format!("NEW.BIN cluster {} cross-linked", c));
        }
        nclusters += 1;
        for s in 0..l.spc {
            let b = dev.get(l.cluster_block(c) + s as u64);
            for k in 0..512u32 {
                if off < size {
                    if b[k as usize] != pattern(3, off) {
                        return Err(format!("NEW.BIN data differs at {}", off));
                    }
                    off += 1;
                }
            }
        }
        let nx = get_fat(&dev, l, 0, c);
        for n in 1..l.num_fats {
            if get_fat(&dev, l, n, c) != nx {
                return Err(format!("FAT copy {} differs at cluster {}", n, c));
            }
        }
        let is_eoc = if l.fat32 { nx >= 0x0FFF_FFF8 } else { nx >= 0xFFF8 };
        if is_eoc {
            break;
        }
        c = nx;
    }
    if nclusters != 2 {
        return Err(format!("NEW.BIN has {} clusters", nclusters));
    }
    Ok(())
}

