//! C15 hunt: malformed MBR / boot sector / FSInfo
mod hunt_common;
use hunt_common::*;

use embedded_sdmmc::{Mode, VolumeIdx, VolumeManager};
use std::cell::RefCell;
use std::collections::BTreeMap;

thread_local! {
    static LAST_PANIC: RefCell<String> = RefCell::new(String::new());
}

struct Rng(u64);
impl Rng {
    fn next(&mut self) -> u32 {
        self.0 = self
            .0
            .wrapping_mul(6364136223846793005)
            .wrapping_add(1442695040888963407);
        (self.0 >> 33) as u32
    }
}

fn base(fat32: bool) -> Layout {
    Layout {
        fat32,
        spc: 1,
        reserved: if fat32 { 32 } else { 4 },
        num_fats: 2,
        root_entries: 512,
        count: if fat32 { 65600 } else { 4200 },
        slack: 0,
        fat_extra: 0,
        use_total16: !fat32,
        slot: 0,
        part_start: 2048,
        part_type: if fat32 { 0x0C } else { 0x06 },
        status: 0,
        root_cluster: 2,
        fsinfo: 1,
    }
}

/// returns (stage, message) of a panic, if any
fn exercise(dev: &SparseDev, slot: usize) -> Option<(&'static str, String)> {
    dev.set_limit(dev.accesses() + 300_000);
    let vm: VolumeManager<SparseDev, Clock, 4, 4, 1> =
        VolumeManager::new_with_limits(dev.clone(), Clock, 100);
    let r = std::panic::catch_unwind(std::panic::AssertUnwindSafe(|| {
        vm.open_raw_volume(VolumeIdx(slot))
    }));
    let vol = match r {
        Err(_) => return Some(("mount", LAST_PANIC.with(|p| p.borrow().clone()))),
        Ok(Err(_)) => return None,
        Ok(Ok(v)) => v,
    };
    let r = std::panic::catch_unwind(std::panic::AssertUnwindSafe(|| {
        let root = match vm.open_root_dir(vol) {
            Ok(r) => r,
            Err(_) => return,
        };
        let _ = vm.iterate_dir(root, |_| {});
        let _ = vm.find_directory_entry(root, "A.TXT");
        let _ = vm.find_directory_entry(root, "NOTHERE.TXT");
        if let Ok(f) = vm.open_file_in_dir(root, "A.TXT", Mode::ReadOnly) {
            let mut buf = [0u8; 700];
            for _ in 0..8 {
                if vm.read(f, &mut buf).is_err() {
                    break;
                }
            }
            let _ = vm.close_file(f);
        }
        if let Ok(d) = vm.open_dir(root, "SUB") {
            let _ = vm.iterate_dir(d, |_| {});
            let _ = vm.close_dir(d);
        }
        if let Ok(f) = vm.open_file_in_dir(root, "W.BIN", Mode::ReadWriteCreateOrTruncate) {
            let buf = [0x5Au8; 1500];
            let _ = vm.write(f, &buf);
            let _ = vm.close_file(f);
        }
        let _ = vm.make_dir_in_dir(root, "NEWDIR");
        let _ = vm.delete_file_in_dir(root, "A.TXT");
        let _ = vm.close_dir(root);
        let _ = vm.close_volume(vol);
    }));
    match r {
        Err(_) => Some(("use", LAST_PANIC.with(|p| p.borrow().clone()))),
        Ok(()) => None,
    }
}

#[test]
fn fuzz() {
    std::panic::set_hook(Box::new(|info| {
        let loc = info
            .location()
            .map(|l| format!("{}:{}", l.file(), l.line()))
            .unwrap_or_default();
        let msg = info
            .payload()
            .downcast_ref::<String>()
            .cloned()
            .or_else(|| info.payload().downcast_ref::<&str>().map(|s| s.to_string()))
            .unwrap_or_default();
        LAST_PANIC.with(|p| *p.borrow_mut() = format!("{} @ {}", msg, loc));
    }));
    let mut found: BTreeMap<(String, String), (usize, String)> = BTreeMap::new();
    let mut record = |r: Option<(&'static str, String)>, what: String| {
        if let Some((stage, msg)) = r {
            let e = found
                .entry((stage.to_string(), msg))
                .or_insert((0, what.clone()));
            e.0 += 1;
        }
    };
    let mut rng = Rng(99);
    for fat32 in [false, true] {
        let l = base(fat32);
        let extra = 100u64;
        let dev_blocks = l.part_start as u64 + l.total() as u64 + extra;
        // 1. boundary values on every field
        let bpb_fields: &[(usize, usize)] = &[
            (11, 2),
            (13, 1),
            (14, 2),
            (16, 1),
            (17, 2),
            (19, 2),
            (21, 1),
            (22, 2),
            (24, 2),
            (26, 2),
            (28, 4),
            (32, 4),
            (36, 4),
            (40, 2),
            (42, 2),
            (44, 4),
            (48, 2),
            (50, 2),
            (510, 2),
        ];
        let values: &[u64] = &[
            0,
            1,
            2,
            3,
            0x7F,
            0x80,
            0xFF,
            0x100,
            0x7FFF,
            0x8000,
            0xFFFE,
            0xFFFF,
            0x10000,
            0x0FFF_FFF7,
            0x0FFF_FFFF,
            0x3FFF_FFFF,
            0x4000_0000,
            0x4000_0001,
            0x7FFF_FFFF,
            0x8000_0000,
            0xFFFF_FFFC,
            0xFFFF_FFFE,
            0xFFFF_FFFF,
        ];
        for &(off, len) in bpb_fields {
            for &v in values {
                let made = format(&l, dev_blocks);
                made.dev.modify(l.part_start as u64, |b| {
                    b[off..off + len].copy_from_slice(&v.to_le_bytes()[..len]);
                });
                record(
                    exercise(&made.dev, 0),
                    format!("fat32={} bpb[{}..+{}]={:#x}", fat32, off, len, v),
                );
            }
        }
        // pairs of fields
        for &(off1, len1) in bpb_fields {
            for &(off2, len2) in bpb_fields {
                if off1 >= off2 {
                    continue;
                }
                for _ in 0..40 {
                    let v1 = values[rng.next() as usize % values.len()];
                    let v2 = values[rng.next() as usize % values.len()];
                    let made = format(&l, dev_blocks);
                    made.dev.modify(l.part_start as u64, |b| {
                        b[off1..off1 + len1].copy_from_slice(&v1.to_le_bytes()[..len1]);
                        b[off2..off2 + len2].copy_from_slice(&v2.to_le_bytes()[..len2]);
                    });
                    record(
                        exercise(&made.dev, 0),
                        format!(
                            "fat32={} bpb[{}..+{}]={:#x} bpb[{}..+{}]={:#x}",
                            fat32, off1, len1, v1, off2, len2, v2
                        ),
                    );
                }
            }
        }
        // MBR fields
        for &(off, len) in &[(446usize, 1usize), (450, 1), (454, 4), (458, 4), (510, 2)] {
            for &v in values {
                let made = format(&l, dev_blocks);
                made.dev.modify(0, |b| {
                    b[off..off + len].copy_from_slice(&v.to_le_bytes()[..len]);
                });
                record(
                    exercise(&made.dev, 0),
                    format!("fat32={} mbr[{}..+{}]={:#x}", fat32, off, len, v),
                );
            }
        }
        // FSInfo fields
        if fat32 {
            for &(off, len) in &[(0usize, 4usize), (484, 4), (488, 4), (492, 4), (508, 4)] {
                for &v in values {
                    let made = format(&l, dev_blocks);
                    made.dev.modify(l.part_start as u64 + 1, |b| {
                        b[off..off + len].copy_from_slice(&v.to_le_bytes()[..len]);
                    });
                    record(
                        exercise(&made.dev, 0),
                        format!("fsinfo[{}..+{}]={:#x}", off, len, v),
                    );
                }
            }
        }
        // 2. random mutations
        for i in 0..6000 {
            let made = format(&l, dev_blocks);
            let n = 1 + rng.next() % 6;
            let mut desc = String::new();
            for _ in 0..n {
                let which = rng.next() % 10;
                let (blk, off) = match which {
                    0 => (0u64, 446 + (rng.next() % 66) as usize),
                    1 if fat32 => (
                        l.part_start as u64 + 1,
                        [0usize, 1, 2, 3, 484, 485, 486, 487, 488, 489, 490, 491, 492, 493, 494, 495, 508, 509, 510, 511]
                            [rng.next() as usize % 20],
                    ),
                    _ => (l.part_start as u64, 11 + (rng.next() % 80) as usize),
                };
                let v = match rng.next() % 4 {
                    0 => 0u8,
                    1 => 0xFF,
                    _ => rng.next() as u8,
                };
                made.dev.modify(blk, |b| b[off] = v);
                desc += &format!(" [{}:{}]={:#x}", blk, off, v);
            }
            record(
                exercise(&made.dev, 0),
                format!("fat32={} random {} {}", fat32, i, desc),
            );
        }
        // 3. fully random sectors
        for i in 0..3000 {
            let made = format(&l, dev_blocks);
            let mode = rng.next() % 4;
            let mut sec = [0u8; 512];
            for b in sec.iter_mut() {
                *b = match rng.next() % 3 {
                    0 => 0,
                    _ => rng.next() as u8,
                };
            }
            if rng.next() % 4 != 0 {
                sec[510] = 0x55;
                sec[511] = 0xAA;
            }
            match mode {
                0 => {
                    // random MBR, but maybe help it over the status/type filter
                    if rng.next() % 2 == 0 {
                        sec[446] &= 0x80;
                        sec[450] = [4u8, 6, 0xB, 0xC, 0xE][rng.next() as usize % 5];
                    }
                    if rng.next() % 2 == 0 {
                        sec[454..458].copy_from_slice(&l.part_start.to_le_bytes());
                    }
                    made.dev.put(0, sec);
                }
                1 => made.dev.put(l.part_start as u64, sec),
                2 => made.dev.put(l.part_start as u64 + 1, sec),
                _ => {
                    made.dev.put(l.part_start as u64, sec);
                    let mut s2 = sec;
                    s2.reverse();
                    made.dev.put(l.part_start as u64 + 1, s2);
                }
            }
            record(
                exercise(&made.dev, 0),
                format!("fat32={} fully random {} mode {}", fat32, i, mode),
            );
        }
    }
    let _ = std::panic::take_hook();
    for ((stage, msg), (n, what)) in &found {
        println!("[{}] {} x{} e.g. {}", stage, msg, n, what);
    }
    let mount_panics = found.keys().filter(|(s, _)| s == "mount").count();
    assert_eq!(mount_panics, 0, "panics during mount");
    assert!(found.is_empty(), "panics after mount");
}
