//! Power-loss hunt harness: write-logging sparse block device, own mkfs, own
//! FAT reader / fsck, random histories, check after EVERY prefix of the log.

#![allow(dead_code)]

use embedded_sdmmc::{
    Block, BlockCount, BlockDevice, BlockIdx, Mode, RawDirectory, RawFile, RawVolume,
    TimeSource, Timestamp, VolumeIdx, VolumeManager,
};
use std::cell::RefCell;
use std::collections::{BTreeMap, HashMap};
use std::rc::Rc;

type Blk = [u8; 512];

// ---------------------------------------------------------------- geometry

#[derive(Clone, Debug)]
struct Geo {
    fat32: bool,
    spc: u32,
    nfats: u32,
    reserved: u32,
    root_entries: u32,
    clusters: u32,
    lba: u32,
    fatsz: u32,
    root_cluster: u32,
    /// how many clusters are left free by mkfs (the rest are marked as lost EOF clusters); 0 = all
    free_budget: u32,
}

impl Geo {
    fn new(fat32: bool, spc: u32, nfats: u32, lba: u32, free_budget: u32) -> Geo {
        let clusters = if fat32 { 65600 } else { 4200 };
        let ent = if fat32 { 4 } else { 2 };
        let fatsz = ((clusters + 2) * ent + 511) / 512;
        Geo {
            fat32,
            spc,
            nfats,
            reserved: if fat32 { 32 } else { 1 },
            root_entries: if fat32 { 0 } else { 32 },
            clusters,
            lba,
            fatsz,
            root_cluster: 2,
            free_budget,
        }
    }
    fn fat_start(&self) -> u32 {
        self.lba + self.reserved
    }
    fn root_start(&self) -> u32 {
        self.fat_start() + self.nfats * self.fatsz
    }
    fn root_blocks(&self) -> u32 {
        (self.root_entries * 32 + 511) / 512
    }
    fn data_start(&self) -> u32 {
        self.root_start() + self.root_blocks()
    }
    fn vol_blocks(&self) -> u32 {
        self.reserved + self.nfats * self.fatsz + self.root_blocks() + self.clusters * self.spc
    }
    fn cl2blk(&self, c: u32) -> u32 {
        self.data_start() + (c - 2) * self.spc
    }
    fn cluster_bytes(&self) -> usize {
        (self.spc * 512) as usize
    }
}

// ---------------------------------------------------------------- image

#[derive(Clone)]
struct Image {
    blocks: HashMap<u32, Blk>,
    data_start: u32,
    nblocks: u32,
    clusters: u32,
    base: Option<Rc<Vec<u8>>>,
}

fn junk(idx: u32, clusters: u32) -> Blk {
    let mut b = [0u8; 512];
    for i in 0..16u32 {
        let e = &mut b[(i * 32) as usize..(i * 32 + 32) as usize];
        let tag = format!("JUNK{:04X}JNK", (idx.wrapping_mul(16) + i) & 0xFFFF);
        e[0..11].copy_from_slice(tag.as_bytes());
        e[11] = if i % 4 == 0 { 0x10 } else { 0x20 };
        let c = 2 + (idx.wrapping_mul(7) + i * 13) % clusters;
        e[26] = c as u8;
        e[27] = (c >> 8) as u8;
        e[28] = 0xBC;
        e[29] = 0x02;
    }
    b
}

impl Image {
    fn get(&self, idx: u32) -> Blk {
        match self.blocks.get(&idx) {
            Some(b) => *b,
            None => {
                if let Some(b) = &self.base {
                    let o = idx as usize * 512;
                    let mut out = [0u8; 512];
                    out.copy_from_slice(&b[o..o + 512]);
                    out
                } else if idx >= self.data_start {
                    junk(idx, self.clusters)
                } else {
                    [0u8; 512]
                }
            }
        }
    }
    fn put(&mut self, idx: u32, b: &Blk) {
        self.blocks.insert(idx, *b);
    }
    fn u32_at(&self, idx: u32, off: usize) -> u32 {
        match self.blocks.get(&idx) {
            Some(b) => rd32(b, off),
            None => match &self.base {
                Some(b) => rd32(&b[idx as usize * 512..], off),
                None => rd32(&self.get(idx), off),
            },
        }
    }
}

struct Dev {
    img: Image,
    log: Vec<(u32, Blk)>,
    read_only: bool,
}

#[derive(Clone)]
struct SharedDev(Rc<RefCell<Dev>>);

#[derive(Debug)]
enum DevErr {
    Oob,
    ReadOnly,
}

impl BlockDevice for SharedDev {
    type Error = DevErr;
    fn read(&self, blocks: &mut [Block], start: BlockIdx) -> Result<(), DevErr> {
        let d = self.0.borrow();
        for (i, b) in blocks.iter_mut().enumerate() {
            let idx = start.0 + i as u32;
            if idx >= d.img.nblocks {
                return Err(DevErr::Oob);
            }
            b.contents = d.img.get(idx);
        }
        Ok(())
    }
    fn write(&self, blocks: &[Block], start: BlockIdx) -> Result<(), DevErr> {
        let mut d = self.0.borrow_mut();
        if d.read_only {
            return Err(DevErr::ReadOnly);
        }
        for (i, b) in blocks.iter().enumerate() {
            let idx = start.0 + i as u32;
            if idx >= d.img.nblocks {
                return Err(DevErr::Oob);
            }
            d.img.put(idx, &b.contents);
            d.log.push((idx, b.contents));
        }
        Ok(())
    }
    fn num_blocks(&self) -> Result<BlockCount, DevErr> {
        Ok(BlockCount(self.0.borrow().img.nblocks))
    }
}

struct Clock;
impl TimeSource for Clock {
    fn get_timestamp(&self) -> Timestamp {
        Timestamp {
            year_since_1970: 33,
            zero_indexed_month: 3,
            zero_indexed_day: 3,
            hours: 13,
            minutes: 30,
            seconds: 4,
        }
    }
}

// ---------------------------------------------------------------- mkfs

fn le16(b: &mut [u8], off: usize, v: u16) {
    b[off..off + 2].copy_from_slice(&v.to_le_bytes());
}
fn le32(b: &mut [u8], off: usize, v: u32) {
    b[off..off + 4].copy_from_slice(&v.to_le_bytes());
}
fn rd16(b: &[u8], off: usize) -> u32 {
    u16::from_le_bytes([b[off], b[off + 1]]) as u32
}
fn rd32(b: &[u8], off: usize) -> u32 {
    u32::from_le_bytes([b[off], b[off + 1], b[off + 2], b[off + 3]])
}

fn mkfs(g: &Geo) -> Image {
    let mut img = Image {
        blocks: HashMap::new(),
        data_start: g.data_start(),
        nblocks: g.lba + g.vol_blocks() + 8,
        clusters: g.clusters,
        base: None,
    };
    // MBR
    let mut mbr = [0u8; 512];
    mbr[446 + 4] = if g.fat32 { 0x0C } else { 0x06 };
    le32(&mut mbr, 446 + 8, g.lba);
    le32(&mut mbr, 446 + 12, g.vol_blocks());
    le16(&mut mbr, 510, 0xAA55);
    img.put(0, &mbr);
    // BPB
    let mut b = [0u8; 512];
    b[0] = 0xEB;
    b[1] = 0x58;
    b[2] = 0x90;
    b[3..11].copy_from_slice(b"HUNTMKFS");
    le16(&mut b, 11, 512);
    b[13] = g.spc as u8;
    le16(&mut b, 14, g.reserved as u16);
    b[16] = g.nfats as u8;
    le16(&mut b, 17, g.root_entries as u16);
    if g.vol_blocks() < 0x10000 && !g.fat32 {
        le16(&mut b, 19, g.vol_blocks() as u16);
    } else {
        le32(&mut b, 32, g.vol_blocks());
    }
    b[21] = 0xF8;
    le32(&mut b, 28, g.lba);
    if g.fat32 {
        le32(&mut b, 36, g.fatsz);
        le32(&mut b, 44, g.root_cluster);
        le16(&mut b, 48, 1);
        le16(&mut b, 50, 6);
        b[66] = 0x29;
        b[71..82].copy_from_slice(b"HUNT32     ");
        b[82..90].copy_from_slice(b"FAT32   ");
    } else {
        le16(&mut b, 22, g.fatsz as u16);
        b[38] = 0x29;
        b[43..54].copy_from_slice(b"HUNT16     ");
        b[54..62].copy_from_slice(b"FAT16   ");
    }
    le16(&mut b, 510, 0xAA55);
    img.put(g.lba, &b);
    // which clusters stay free?
    let mut free = vec![true; (g.clusters + 2) as usize];
    free[0] = false;
    free[1] = false;
    if g.fat32 {
        free[g.root_cluster as usize] = false;
    }
    if g.free_budget != 0 {
        // leave a scattered handful free: some around FAT sector boundaries,
        // some low, the last one.
        let per = if g.fat32 { 128 } else { 256 };
        let mut keep: Vec<u32> = vec![];
        for c in [
            3u32,
            4,
            5,
            9,
            10,
            per - 2,
            per - 1,
            per,
            per + 1,
            2 * per - 1,
            2 * per,
            3 * per + 7,
            g.clusters + 1,
            g.clusters,
            g.clusters - 5,
        ] {
            keep.push(c);
        }
        let mut c = 20;
        while (keep.len() as u32) < g.free_budget {
            keep.push(c);
            c += 37;
        }
        keep.truncate(g.free_budget as usize);
        for f in free.iter_mut().skip(2) {
            *f = false;
        }
        for k in keep {
            free[k as usize] = true;
        }
        if g.fat32 {
            free[g.root_cluster as usize] = false;
        }
    }
    let nfree = free.iter().filter(|x| **x).count() as u32;
    // FATs
    let per = if g.fat32 { 128u32 } else { 256u32 };
    for s in 0..g.fatsz {
        let mut f = [0u8; 512];
        let mut any = false;
        for i in 0..per {
            let c = s * per + i;
            if c >= g.clusters + 2 {
                break;
            }
            let v: u32 = if c == 0 {
                0x0FFF_FFF8
            } else if c == 1 {
                0x0FFF_FFFF
            } else if !free[c as usize] {
                0x0FFF_FFFF
            } else {
                0
            };
            if v != 0 {
                any = true;
            }
            if g.fat32 {
                le32(&mut f, (i * 4) as usize, v);
            } else {
                le16(&mut f, (i * 2) as usize, v as u16);
            }
        }
        if any {
            for n in 0..g.nfats {
                img.put(g.fat_start() + n * g.fatsz + s, &f);
            }
        }
    }
    // root
    if g.fat32 {
        for i in 0..g.spc {
            img.put(g.cl2blk(g.root_cluster) + i, &[0u8; 512]);
        }
        let mut fi = [0u8; 512];
        le32(&mut fi, 0, 0x4161_5252);
        le32(&mut fi, 484, 0x6141_7272);
        le32(&mut fi, 488, nfree);
        le32(&mut fi, 492, 3);
        le32(&mut fi, 508, 0xAA55_0000);
        img.put(g.lba + 1, &fi);
    }
    img
}

// ---------------------------------------------------------------- own reader / fsck

#[derive(Clone, Debug)]
struct FEnt {
    first: u32,
    size: u32,
    chain: Vec<u32>,
    is_dir: bool,
}

struct Fsck<'a> {
    img: &'a Image,
    g: &'a Geo,
    owner: HashMap<u32, String>,
    hard: Vec<String>,
    soft: Vec<String>,
    ents: BTreeMap<String, FEnt>,
}

impl<'a> Fsck<'a> {
    fn fat(&self, c: u32) -> u32 {
        if self.g.fat32 {
            let off = c * 4;
            self.img.u32_at(self.g.fat_start() + off / 512, (off % 512) as usize) & 0x0FFF_FFFF
        } else {
            let off = c * 2;
            let o = (off % 512) as usize;
            if o == 510 {
                let b = self.img.get(self.g.fat_start() + off / 512);
                rd16(&b, o)
            } else {
                self.img.u32_at(self.g.fat_start() + off / 512, o) & 0xFFFF
            }
        }
    }
    fn is_eoc(&self, v: u32) -> bool {
        if self.g.fat32 {
            v >= 0x0FFF_FFF8
        } else {
            v >= 0xFFF8
        }
    }
    fn is_bad(&self, v: u32) -> bool {
        if self.g.fat32 {
            v == 0x0FFF_FFF7
        } else {
            v == 0xFFF7
        }
    }
    /// Walk a chain, claim the clusters.
    fn chain(&mut self, first: u32, who: &str) -> Vec<u32> {
        let mut out = vec![];
        let mut c = first;
        loop {
            if c < 2 || c >= self.g.clusters + 2 {
                self.hard
                    .push(format!("{who}: refers to out-of-range cluster {c}"));
                break;
            }
            if let Some(o) = self.owner.get(&c) {
                if o == who {
                    self.hard.push(format!("{who}: chain is cyclic at {c}"));
                } else {
                    self.hard
                        .push(format!("{who}: shares cluster {c} with {o}"));
                }
                break;
            }
            let v = self.fat(c);
            if v == 0 {
                self.hard.push(format!("{who}: refers to FREE cluster {c}"));
                break;
            }
            if self.is_bad(v) {
                self.hard.push(format!("{who}: refers to BAD cluster {c}"));
                break;
            }
            self.owner.insert(c, who.to_string());
            out.push(c);
            if self.is_eoc(v) {
                break;
            }
            c = v;
        }
        out
    }

    fn dir_blocks(&self, chain: &[u32]) -> Vec<u32> {
        let mut v = vec![];
        for c in chain {
            for i in 0..self.g.spc {
                v.push(self.g.cl2blk(*c) + i);
            }
        }
        v
    }

    fn walk(&mut self, path: &str, blocks: Vec<u32>, me: u32, parent: u32, depth: u32) {
        if depth > 6 {
            self.hard.push(format!("{path}: directory nesting too deep"));
            return;
        }
        'outer: for blk in blocks {
            let b = self.img.get(blk);
            for i in 0..16 {
                let e = &b[i * 32..i * 32 + 32];
                if e[0] == 0 {
                    break 'outer;
                }
                if e[0] == 0xE5 {
                    continue;
                }
                let attr = e[11];
                if attr & 0x3F == 0x0F {
                    continue;
                }
                if attr & 0x08 != 0 {
                    continue;
                }
                let name: String = e[0..11].iter().map(|b| if (0x21..0x7f).contains(b) || *b == b' ' { *b as char } else { '?' }).collect();
                let base = name[0..8].trim_end().to_string();
                let ext = name[8..11].trim_end().to_string();
                let nm = if ext.is_empty() {
                    base.clone()
                } else {
                    format!("{base}.{ext}")
                };
                let full = format!("{path}/{nm}");
                if name.starts_with("JUNK") || name.contains('?') {
                    self.hard.push(format!(
                        "{path}: exposes uninitialised cluster contents as entry {nm} (block {blk})"
                    ));
                    continue;
                }
                let mut first = rd16(e, 26);
                if self.g.fat32 {
                    first |= rd16(e, 20) << 16;
                }
                let size = rd32(e, 28);
                if attr & 0x10 != 0 {
                    if nm == "." {
                        if first != me {
                            self.soft.push(format!("{path}: '.' points at {first}, not {me}"));
                        }
                        continue;
                    }
                    if nm == ".." {
                        if first != parent {
                            self.soft
                                .push(format!("{path}: '..' points at {first}, not {parent}"));
                        }
                        continue;
                    }
                    if first < 2 {
                        self.hard
                            .push(format!("{full}: sub-directory entry lacks its own cluster"));
                        continue;
                    }
                    let ch = self.chain(first, &full);
                    self.ents.insert(
                        full.clone(),
                        FEnt {
                            first,
                            size,
                            chain: ch.clone(),
                            is_dir: true,
                        },
                    );
                    if !ch.is_empty() {
                        // a directory must start with . and ..
                        let b0 = self.img.get(self.g.cl2blk(ch[0]));
                        if &b0[0..11] != b".          " || &b0[32..43] != b"..         " {
                            self.hard.push(format!(
                                "{full}: directory cluster {} does not start with dot entries",
                                ch[0]
                            ));
                        }
                        let blocks = self.dir_blocks(&ch);
                        self.walk(&full, blocks, first, me, depth + 1);
                    }
                } else {
                    let ch = if first == 0 {
                        if size != 0 {
                            self.soft.push(format!("{full}: size {size} but no cluster"));
                        }
                        vec![]
                    } else {
                        self.chain(first, &full)
                    };
                    if (size as usize) > ch.len() * self.g.cluster_bytes() {
                        self.soft.push(format!(
                            "{full}: size {size} exceeds chain of {} clusters",
                            ch.len()
                        ));
                    }
                    if self.ents.contains_key(&full) {
                        self.soft.push(format!("{full}: duplicate name"));
                    }
                    self.ents.insert(
                        full,
                        FEnt {
                            first,
                            size,
                            chain: ch,
                            is_dir: false,
                        },
                    );
                }
            }
        }
    }

    fn run(img: &'a Image, g: &'a Geo) -> Fsck<'a> {
        let mut f = Fsck {
            img,
            g,
            owner: HashMap::new(),
            hard: vec![],
            soft: vec![],
            ents: BTreeMap::new(),
        };
        if g.fat32 {
            let ch = f.chain(g.root_cluster, "<root>");
            let blocks = f.dir_blocks(&ch);
            f.walk("", blocks, 0, 0, 0);
        } else {
            let blocks = (0..g.root_blocks()).map(|i| g.root_start() + i).collect();
            f.walk("", blocks, 0, 0, 0);
        }
        f
    }

    fn read_file(&self, e: &FEnt) -> Vec<u8> {
        let mut out = vec![];
        for c in &e.chain {
            for i in 0..self.g.spc {
                out.extend_from_slice(&self.img.get(self.g.cl2blk(*c) + i));
            }
        }
        out.truncate(e.size as usize);
        out
    }
}

// ---------------------------------------------------------------- fresh mount by the library

/// Mount the image with the library, list everything, read every file.
/// Returns (errors, map path -> contents)
fn lib_mount(img: &Image, part: usize) -> (Vec<String>, BTreeMap<String, Vec<u8>>) {
    let dev = SharedDev(Rc::new(RefCell::new(Dev {
        img: img.clone(),
        log: vec![],
        read_only: true,
    })));
    let vm: VolumeManager<SharedDev, Clock, 8, 4, 1> = VolumeManager::new_with_limits(dev, Clock, 100);
    let mut errs = vec![];
    let mut files = BTreeMap::new();
    let vol = match vm.open_raw_volume(VolumeIdx(part)) {
        Ok(v) => v,
        Err(e) => {
            errs.push(format!("medium does not mount: {e:?}"));
            return (errs, files);
        }
    };
    let root = vm.open_root_dir(vol).unwrap();
    fn rec(
        vm: &VolumeManager<SharedDev, Clock, 8, 4, 1>,
        dir: RawDirectory,
        path: &str,
        depth: u32,
        errs: &mut Vec<String>,
        files: &mut BTreeMap<String, Vec<u8>>,
    ) {
        if depth > 5 {
            errs.push(format!("{path}: too deep"));
            return;
        }
        let mut list = vec![];
        if let Err(e) = vm.iterate_dir(dir, |de| {
            list.push(de.clone());
        }) {
            errs.push(format!("{path}: iterate_dir failed: {e:?}"));
        }
        for de in list {
            let nm = format!("{}", de.name);
            if de.attributes.is_volume() {
                continue;
            }
            if nm == "." || nm == ".." {
                continue;
            }
            let full = format!("{path}/{nm}");
            if de.attributes.is_directory() {
                match vm.open_dir(dir, &de.name) {
                    Ok(d) => {
                        rec(vm, d, &full, depth + 1, errs, files);
                        vm.close_dir(d).unwrap();
                    }
                    Err(e) => errs.push(format!("{full}: open_dir failed: {e:?}")),
                }
            } else {
                match vm.open_file_in_dir(dir, &de.name, Mode::ReadOnly) {
                    Ok(f) => {
                        let mut data = vec![];
                        let mut buf = [0u8; 700];
                        loop {
                            match vm.read(f, &mut buf) {
                                Ok(0) => break,
                                Ok(n) => data.extend_from_slice(&buf[..n]),
                                Err(e) => {
                                    errs.push(format!(
                                        "{full}: read failed at {} of {}: {e:?}",
                                        data.len(),
                                        de.size
                                    ));
                                    break;
                                }
                            }
                        }
                        vm.close_file(f).unwrap();
                        files.insert(full, data);
                    }
                    Err(e) => errs.push(format!("{full}: open failed: {e:?}")),
                }
            }
        }
    }
    rec(&vm, root, "", 0, &mut errs, &mut files);
    (errs, files)
}

// ---------------------------------------------------------------- history driver

struct Rng(u64);
impl Rng {
    fn next(&mut self) -> u64 {
        let mut x = self.0;
        x ^= x << 13;
        x ^= x >> 7;
        x ^= x << 17;
        self.0 = x;
        x
    }
    fn below(&mut self, n: u64) -> u64 {
        self.next() % n
    }
}

#[derive(Clone, Debug)]
struct Guarantee {
    path: String,
    content: Vec<u8>,
    from: usize,
    to: usize, // inclusive; usize::MAX = still open
    op: String,
}

struct MFile {
    content: Vec<u8>,
    handle: Option<RawFile>,
    poisoned: bool,
    active: Option<usize>, // index in guarantees
    id: u32,
}

type VM = VolumeManager<SharedDev, Clock, 4, 4, 1>;

struct Driver {
    g: Geo,
    dev: SharedDev,
    vm: VM,
    vol: RawVolume,
    dirs: Vec<String>, // "" = root, "/D1", "/D1/D2"
    files: BTreeMap<String, MFile>,
    guarantees: Vec<Guarantee>,
    ops: Vec<(usize, String)>, // log length at op start, description
    counter: u32,
    base: Image,
    profile: u32,
    part: usize,
    toggle: std::cell::Cell<u32>,
}

fn pat(id: u32, off: usize) -> u8 {
    let x = (id as usize).wrapping_mul(131).wrapping_add(off.wrapping_mul(7)).wrapping_add(off >> 8);
    (x % 251) as u8 + 1
}

impl Driver {
    fn new(g: Geo) -> Driver {
        let img = mkfs(&g);
        let base = img.clone();
        let dev = SharedDev(Rc::new(RefCell::new(Dev {
            img,
            log: vec![],
            read_only: false,
        })));
        let vm: VM = VolumeManager::new_with_limits(dev.clone(), Clock, 5000);
        let vol = vm.open_raw_volume(VolumeIdx(0)).expect("mkfs image mounts");
        Driver {
            g,
            dev,
            vm,
            vol,
            dirs: vec!["".to_string()],
            files: BTreeMap::new(),
            guarantees: vec![],
            ops: vec![],
            counter: 0,
            base,
            profile: 0,
            part: 0,
            toggle: std::cell::Cell::new(0),
        }
    }
    fn from_image(g: Geo, img: Image, part: usize) -> Driver {
        let base = img.clone();
        let dev = SharedDev(Rc::new(RefCell::new(Dev {
            img,
            log: vec![],
            read_only: false,
        })));
        let vm: VM = VolumeManager::new_with_limits(dev.clone(), Clock, 5000);
        let vol = vm.open_raw_volume(VolumeIdx(part)).expect("image mounts");
        let mut d = Driver {
            g,
            dev,
            vm,
            vol,
            dirs: vec!["".to_string()],
            files: BTreeMap::new(),
            guarantees: vec![],
            ops: vec![],
            counter: 100,
            base,
            profile: 0,
            part,
            toggle: std::cell::Cell::new(0),
        };
        // adopt what is there
        let f = Fsck::run(&d.base, &d.g);
        assert!(f.hard.is_empty(), "{:?}", f.hard);
        let mut id = 5000;
        for (p, e) in &f.ents {
            if e.is_dir {
                d.dirs.push(p.clone());
                continue;
            }
            id += 1;
            let big = e.size > 1_000_000;
            let content = if big { vec![] } else { f.read_file(e) };
            d.guarantees.push(Guarantee {
                path: p.clone(),
                content: content.clone(),
                from: 0,
                to: usize::MAX,
                op: if big { format!("big:{}", e.size) } else { "pre-existing".into() },
            });
            if !big {
                d.files.insert(
                    p.clone(),
                    MFile {
                        content,
                        handle: None,
                        poisoned: false,
                        active: Some(d.guarantees.len() - 1),
                        id,
                    },
                );
            }
        }
        d
    }
    fn loglen(&self) -> usize {
        self.dev.0.borrow().log.len()
    }
    fn note(&mut self, s: String) {
        let l = self.loglen();
        self.ops.push((l, s));
    }
    fn open_path(&self, path: &str) -> RawDirectory {
        let mut d = self.vm.open_root_dir(self.vol).unwrap();
        for comp in path.split('/').filter(|c| !c.is_empty()) {
            let n = match self.vm.open_dir(d, comp) {
                Ok(n) => n,
                Err(e) => {
                    for o in &self.ops {
                        println!("{o:?}");
                    }
                    let mut names = vec![];
                    self.vm.iterate_dir(d, |de| names.push(format!("{} {:?} c={:?} sz={}", de.name, de.attributes, de.cluster, de.size))).unwrap();
                    println!("{names:#?}");
                    panic!("open_dir {path} comp {comp}: {e:?}; dirs {:?}", self.dirs)
                }
            };
            self.vm.close_dir(d).unwrap();
            d = n;
        }
        // every third time: reach the same directory through "." or through a child's ".."
        let t = self.toggle.get();
        self.toggle.set(t + 1);
        if t % 3 == 1 {
            let n = self.vm.open_dir(d, ".").unwrap();
            self.vm.close_dir(d).unwrap();
            d = n;
        } else if t % 3 == 2 {
            let prefix = format!("{path}/");
            if let Some(child) = self
                .dirs
                .iter()
                .find(|x| x.starts_with(&prefix) && !x[prefix.len()..].contains('/'))
            {
                let c = self.vm.open_dir(d, &child[prefix.len()..]).unwrap();
                let up = self.vm.open_dir(c, "..").unwrap();
                self.vm.close_dir(c).unwrap();
                self.vm.close_dir(d).unwrap();
                d = up;
            }
        }
        d
    }
    fn end_guarantee(&mut self, path: &str) {
        let l = self.loglen();
        if let Some(f) = self.files.get_mut(path) {
            if let Some(i) = f.active.take() {
                self.guarantees[i].to = l;
            }
        }
    }
    fn start_guarantee(&mut self, path: &str, op: &str) {
        let l = self.loglen();
        let f = self.files.get_mut(path).unwrap();
        if f.poisoned {
            return;
        }
        if let Some(i) = f.active.take() {
            self.guarantees[i].to = l;
        }
        self.guarantees.push(Guarantee {
            path: path.to_string(),
            content: f.content.clone(),
            from: l,
            to: usize::MAX,
            op: op.to_string(),
        });
        f.active = Some(self.guarantees.len() - 1);
    }

    fn create(&mut self, dir: &str) -> Option<String> {
        self.counter += 1;
        let name = format!("F{}.DAT", self.counter);
        let path = format!("{dir}/{name}");
        self.note(format!("create {path}"));
        let d = self.open_path(dir);
        let r = self.vm.open_file_in_dir(d, name.as_str(), Mode::ReadWriteCreate);
        self.vm.close_dir(d).unwrap();
        match r {
            Ok(h) => {
                self.files.insert(
                    path.clone(),
                    MFile {
                        content: vec![],
                        handle: Some(h),
                        poisoned: false,
                        active: None,
                        id: self.counter,
                    },
                );
                Some(path)
            }
            Err(e) => {
                self.note(format!("  -> failed {e:?}"));
                None
            }
        }
    }
    fn mkdir(&mut self, dir: &str) -> Option<String> {
        self.counter += 1;
        let name = format!("D{}", self.counter);
        let path = format!("{dir}/{name}");
        self.note(format!("mkdir {path}"));
        let d = self.open_path(dir);
        let r = self.vm.make_dir_in_dir(d, name.as_str());
        self.vm.close_dir(d).unwrap();
        match r {
            Ok(()) => {
                self.dirs.push(path.clone());
                Some(path)
            }
            Err(e) => {
                self.note(format!("  -> failed {e:?}"));
                None
            }
        }
    }
    /// write n bytes at position `at` (None = current end)
    fn write(&mut self, path: &str, at: Option<usize>, n: usize) {
        self.note(format!("write {path} at {at:?} len {n}"));
        self.end_guarantee(path);
        let f = self.files.get_mut(path).unwrap();
        let h = f.handle.unwrap();
        let pos = at.unwrap_or(f.content.len());
        self.vm.file_seek_from_start(h, pos as u32).unwrap();
        let gen = self.counter + 1000 * (self.ops.len() as u32);
        let data: Vec<u8> = (0..n).map(|i| pat(f.id ^ gen, pos + i)).collect();
        match self.vm.write(h, &data) {
            Ok(()) => {
                if f.content.len() < pos + n {
                    f.content.resize(pos + n, 0);
                }
                f.content[pos..pos + n].copy_from_slice(&data);
            }
            Err(e) => {
                let l2 = self.vm.file_length(h).unwrap() as usize;
                if matches!(e, embedded_sdmmc::Error::DiskFull) && l2 >= f.content.len() {
                    let w = l2.saturating_sub(pos).min(n);
                    if f.content.len() < pos + w {
                        f.content.resize(pos + w, 0);
                    }
                    f.content[pos..pos + w].copy_from_slice(&data[..w]);
                    assert_eq!(f.content.len(), l2);
                } else {
                    f.poisoned = true;
                }
                let l = self.loglen();
                self.ops.push((l, format!("  -> failed {e:?}")));
            }
        }
    }
    fn read_back(&mut self, path: &str, r: &mut Rng) {
        let f = &self.files[path];
        if f.poisoned || f.content.is_empty() {
            return;
        }
        let h = f.handle.unwrap();
        let pos = r.below(f.content.len() as u64) as usize;
        let n = 1 + r.below(1500) as usize;
        self.vm.file_seek_from_start(h, pos as u32).unwrap();
        let mut buf = vec![0u8; n];
        let got = self.vm.read(h, &mut buf).unwrap();
        let exp = (f.content.len() - pos).min(n);
        assert_eq!(got, exp, "live read length {path}");
        assert_eq!(&buf[..got], &f.content[pos..pos + got], "live read data {path}");
    }
    fn list(&mut self, dir: &str) {
        let d = self.open_path(dir);
        let mut names = vec![];
        self.vm.iterate_dir(d, |de| names.push(format!("{}", de.name))).unwrap();
        self.vm.close_dir(d).unwrap();
        for (p, _) in self.files.iter() {
            let (pd, n) = p.rsplit_once('/').unwrap();
            if pd == dir {
                assert!(names.iter().any(|x| x == n), "live listing of {dir} lacks {n}");
            }
        }
    }
    fn flush(&mut self, path: &str) {
        self.note(format!("flush {path}"));
        let h = self.files[path].handle.unwrap();
        match self.vm.flush_file(h) {
            Ok(()) => self.start_guarantee(path, "flush"),
            Err(e) => self.note(format!("  -> failed {e:?}")),
        }
    }
    fn close(&mut self, path: &str) {
        self.note(format!("close {path}"));
        let h = self.files.get_mut(path).unwrap().handle.take().unwrap();
        match self.vm.close_file(h) {
            Ok(()) => self.start_guarantee(path, "close"),
            Err(e) => self.note(format!("  -> failed {e:?}")),
        }
    }
    fn reopen(&mut self, path: &str, mode: Mode) {
        self.note(format!("open {path} {mode:?}"));
        let (dir, name) = path.rsplit_once('/').unwrap();
        let trunc = mode == Mode::ReadWriteTruncate || mode == Mode::ReadWriteCreateOrTruncate;
        if trunc {
            self.end_guarantee(path);
        }
        let d = self.open_path(dir);
        let r = self.vm.open_file_in_dir(d, name, mode);
        self.vm.close_dir(d).unwrap();
        match r {
            Ok(h) => {
                let f = self.files.get_mut(path).unwrap();
                f.handle = Some(h);
                if trunc {
                    f.content.clear();
                }
            }
            Err(e) => {
                self.note(format!("  -> failed {e:?}"));
                self.files.get_mut(path).unwrap().poisoned = true;
            }
        }
    }
    fn delete(&mut self, path: &str) {
        self.note(format!("delete {path}"));
        self.end_guarantee(path);
        let (dir, name) = path.rsplit_once('/').unwrap();
        let d = self.open_path(dir);
        let r = self.vm.delete_file_in_dir(d, name);
        self.vm.close_dir(d).unwrap();
        if let Err(e) = r {
            self.note(format!("  -> failed {e:?}"));
        }
        self.files.remove(path);
    }
    fn remount(&mut self) {
        self.note("close volume + reopen".to_string());
        let open: Vec<String> = self
            .files
            .iter()
            .filter(|(_, f)| f.handle.is_some())
            .map(|(p, _)| p.clone())
            .collect();
        for p in open {
            self.close(&p);
        }
        self.note("close_volume".to_string());
        self.vm.close_volume(self.vol).unwrap();
        self.vol = self.vm.open_raw_volume(VolumeIdx(self.part)).unwrap();
    }

    fn random_step(&mut self, r: &mut Rng) {
        let open: Vec<String> = self
            .files
            .iter()
            .filter(|(_, f)| f.handle.is_some())
            .map(|(p, _)| p.clone())
            .collect();
        let closed: Vec<String> = self
            .files
            .iter()
            .filter(|(_, f)| f.handle.is_none() && !f.poisoned)
            .map(|(p, _)| p.clone())
            .collect();
        let cb = self.g.cluster_bytes();
        let mut k = r.below(100);
        if self.profile == 1 {
            // growth-heavy: mostly create+close
            let j = r.below(10);
            if j < 5 {
                k = 0;
            } else if j < 8 {
                k = 60;
            }
        } else if self.profile == 2 {
            // delete/reuse heavy
            let j = r.below(10);
            if j < 3 {
                k = 85;
            }
        }
        if r.below(4) == 0 {
            if !open.is_empty() && r.below(2) == 0 {
                let p = open[r.below(open.len() as u64) as usize].clone();
                self.read_back(&p, r);
            } else {
                let d = self.dirs[r.below(self.dirs.len() as u64) as usize].clone();
                self.list(&d);
            }
        }
        if k < 14 {
            if open.len() < 4 {
                let d = self.dirs[r.below(self.dirs.len() as u64) as usize].clone();
                self.create(&d);
            }
        } else if k < 44 {
            if !open.is_empty() {
                let p = open[r.below(open.len() as u64) as usize].clone();
                let n = match r.below(6) {
                    0 => 1 + r.below(40) as usize,
                    1 => 512,
                    2 => cb,
                    3 => cb + 1 + r.below(600) as usize,
                    4 => 2 * cb + r.below(3) as usize * 512,
                    _ => 100 + r.below(1500) as usize,
                };
                let len = self.files[&p].content.len();
                let at = if len > 0 && r.below(5) == 0 {
                    Some(r.below(len as u64 + 1) as usize)
                } else {
                    None
                };
                self.write(&p, at, n);
            }
        } else if k < 56 {
            if !open.is_empty() {
                let p = open[r.below(open.len() as u64) as usize].clone();
                self.flush(&p);
            }
        } else if k < 68 {
            if !open.is_empty() {
                let p = open[r.below(open.len() as u64) as usize].clone();
                self.close(&p);
            }
        } else if k < 76 {
            if !closed.is_empty() && open.len() < 4 {
                let p = closed[r.below(closed.len() as u64) as usize].clone();
                let m = if r.below(2) == 0 { Mode::ReadWriteAppend } else { Mode::ReadWriteCreateOrAppend };
                self.reopen(&p, m);
            }
        } else if k < 82 {
            if !closed.is_empty() && open.len() < 4 {
                let p = closed[r.below(closed.len() as u64) as usize].clone();
                let m = if r.below(2) == 0 { Mode::ReadWriteTruncate } else { Mode::ReadWriteCreateOrTruncate };
                self.reopen(&p, m);
            }
        } else if k < 90 {
            if !closed.is_empty() {
                let p = closed[r.below(closed.len() as u64) as usize].clone();
                self.delete(&p);
            }
        } else if k < 97 {
            if self.dirs.len() < 6 {
                let d = self.dirs[r.below(self.dirs.len() as u64) as usize].clone();
                if d.matches('/').count() < 3 {
                    self.mkdir(&d);
                }
            }
        } else {
            self.remount();
        }
    }

    fn op_at(&self, k: usize) -> String {
        // the op during which write number k (1-based) was issued
        let mut cur = "<none>".to_string();
        for (l, s) in &self.ops {
            if *l < k {
                if !s.starts_with("  ->") {
                    cur = s.clone();
                }
            } else {
                break;
            }
        }
        cur
    }

    /// Crash after every prefix; returns findings (deduplicated by class)
    fn check_all(&self, with_lib: bool) -> Vec<String> {
        let log = self.dev.0.borrow().log.clone();
        let mut img = self.base.clone();
        let mut findings: BTreeMap<String, String> = BTreeMap::new();
        for k in 0..=log.len() {
            if k > 0 {
                let (idx, b) = &log[k - 1];
                img.put(*idx, b);
            }
            let f = Fsck::run(&img, &self.g);
            let opn = self.op_at(k);
            for h in &f.hard {
                let class = format!("C10 HARD [{}] {}", opclass(&opn), strip_digits(h));
                findings
                    .entry(class)
                    .or_insert_with(|| format!("prefix {k}/{} during '{opn}': {h}", log.len()));
            }
            for s in &f.soft {
                let class = format!("soft [{}] {}", opclass(&opn), strip_digits(s));
                findings
                    .entry(class)
                    .or_insert_with(|| format!("prefix {k}/{} during '{opn}': {s}", log.len()));
            }
            let lib = if with_lib { Some(lib_mount(&img, self.part)) } else { None };
            if let Some((errs, _)) = &lib {
                for e in errs {
                    let class = format!("LIB [{}] {}", opclass(&opn), strip_digits(e));
                    findings
                        .entry(class)
                        .or_insert_with(|| format!("prefix {k}/{} during '{opn}': {e}", log.len()));
                }
            }
            for gu in &self.guarantees {
                if gu.from <= k && k <= gu.to {
                    let verdict = match f.ents.get(&gu.path) {
                        None => Some("file is missing".to_string()),
                        Some(e) if gu.content.is_empty() && gu.op.starts_with("big:") => {
                            let want: usize = gu.op[4..].parse().unwrap();
                            if (e.size as usize) != want
                                || e.chain.len() * self.g.cluster_bytes() < want
                            {
                                Some(format!("big file damaged: size {} chain {}", e.size, e.chain.len()))
                            } else {
                                None
                            }
                        }
                        Some(e) => {
                            let data = f.read_file(e);
                            if (e.size as usize) < gu.content.len() {
                                Some(format!("size {} < flushed {}", e.size, gu.content.len()))
                            } else if data.len() < gu.content.len() {
                                Some(format!(
                                    "only {} bytes readable < flushed {}",
                                    data.len(),
                                    gu.content.len()
                                ))
                            } else if data[..gu.content.len()] != gu.content[..] {
                                let at = (0..gu.content.len())
                                    .find(|i| data[*i] != gu.content[*i])
                                    .unwrap();
                                Some(format!("contents differ at byte {at}"))
                            } else {
                                None
                            }
                        }
                    };
                    if let Some(v) = verdict {
                        let class = format!("C09 [{}] {}", opclass(&opn), strip_digits(&v));
                        findings.entry(class).or_insert_with(|| {
                            format!(
                                "prefix {k}/{} during '{opn}': {} ({}ed at {}): {v}",
                                log.len(),
                                gu.path,
                                gu.op,
                                gu.from
                            )
                        });
                    }
                    if let (Some((_, files)), false) = (&lib, gu.op.starts_with("big:")) {
                        let v = match files.get(&gu.path) {
                            None => Some("library: file missing/unreadable".to_string()),
                            Some(d) => {
                                if d.len() < gu.content.len()
                                    || d[..gu.content.len()] != gu.content[..]
                                {
                                    Some("library: contents differ".to_string())
                                } else {
                                    None
                                }
                            }
                        };
                        if let Some(v) = v {
                            let class = format!("C09 [{}] {}", opclass(&opn), v);
                            findings.entry(class).or_insert_with(|| {
                                format!("prefix {k}/{} during '{opn}': {}: {v}", log.len(), gu.path)
                            });
                        }
                    }
                }
            }
        }
        findings
            .into_iter()
            .map(|(c, d)| format!("{c}\n      first: {d}"))
            .collect()
    }
}

fn opclass(op: &str) -> String {
    op.split_whitespace().next().unwrap_or("?").to_string()
}
fn strip_digits(s: &str) -> String {
    let mut out = String::new();
    let mut last_hash = false;
    for ch in s.chars() {
        if ch.is_ascii_digit() {
            if !last_hash {
                out.push('#');
            }
            last_hash = true;
        } else {
            out.push(ch);
            last_hash = false;
        }
    }
    out
}

fn geometries() -> Vec<Geo> {
    vec![
        Geo::new(false, 1, 2, 1, 0),
        Geo::new(false, 2, 1, 63, 0),
        Geo::new(false, 1, 2, 8, 40),
        Geo::new(false, 4, 2, 2048, 30),
        Geo::new(true, 1, 2, 1, 0),
        Geo::new(true, 2, 1, 100, 0),
        Geo::new(true, 1, 2, 33, 40),
        Geo::new(true, 2, 2, 2048, 24),
        Geo::new(false, 8, 2, 5, 20),
        Geo::new(false, 64, 1, 5, 16),
        {
            let mut g = Geo::new(true, 8, 1, 7, 20);
            g.root_cluster = 9;
            g
        },
        {
            let mut g = Geo::new(true, 1, 2, 7, 0);
            g.root_cluster = 300;
            g.reserved = 9;
            g
        },
    ]
}

#[test]
fn sanity_mkfs_and_reader() {
    for g in geometries() {
        let mut d = Driver::new(g.clone());
        let p = d.create("").unwrap();
        d.write(&p, None, 3000);
        d.close(&p);
        let dir = d.mkdir("").unwrap();
        let q = d.create(&dir).unwrap();
        d.write(&q, None, 10);
        d.flush(&q);
        let img = d.dev.0.borrow().img.clone();
        let f = Fsck::run(&img, &g);
        assert!(f.hard.is_empty(), "{:?} {:?}", g, f.hard);
        assert!(f.ents.contains_key(&p), "{:?}", f.ents.keys());
        assert!(f.ents.contains_key(&q), "{:?}", f.ents.keys());
        assert_eq!(f.read_file(&f.ents[&p]), d.files[&p].content);
        let (errs, files) = lib_mount(&img, 0);
        assert!(errs.is_empty(), "{errs:?}");
        assert_eq!(files[&p], d.files[&p].content);
        let fnd = d.check_all(true);
        for x in &fnd {
            println!("{:?}: {x}", g);
        }
    }
}

#[test]
fn random_histories() {
    let seeds: u64 = std::env::var("HUNT_SEEDS").ok().and_then(|s| s.parse().ok()).unwrap_or(6);
    let steps: u64 = std::env::var("HUNT_STEPS").ok().and_then(|s| s.parse().ok()).unwrap_or(60);
    let with_lib = std::env::var("HUNT_LIB").is_ok();
    let mut all: BTreeMap<String, String> = BTreeMap::new();
    let mut stats: BTreeMap<String, usize> = BTreeMap::new();
    for (gi, g) in geometries().into_iter().enumerate() {
        for seed in 0..seeds {
            let mut r = Rng(0x9E37_79B9_7F4A_7C15 ^ (seed * 7919 + gi as u64 * 104729 + 1));
            let mut d = Driver::new(g.clone());
            d.profile = (seed % 3) as u32;
            for _ in 0..steps {
                d.random_step(&mut r);
            }
            for (_, o) in &d.ops {
                if o.starts_with("  ->") {
                    *stats.entry(o.clone()).or_insert(0usize) += 1;
                }
            }
            *stats.entry("guarantees".into()).or_insert(0) += d.guarantees.len();
            *stats.entry("writes".into()).or_insert(0) += d.loglen();
            let fnd = d.check_all(with_lib);
            for x in fnd {
                let (class, rest) = x.split_once('\n').unwrap();
                all.entry(class.to_string())
                    .or_insert_with(|| format!("geo#{gi} seed {seed} {rest}"));
            }
        }
    }
    for (c, d) in &all {
        println!("{c}\n   {d}");
    }
    println!("classes: {}", all.len());
    println!("stats: {stats:?}");
}


fn real_image() -> (Rc<Vec<u8>>, Vec<Geo>) {
    use std::io::Read;
    let gz = std::fs::read(concat!(env!("CARGO_MANIFEST_DIR"), "/tests/disk.img.gz")).unwrap();
    let mut out = Vec::with_capacity(512 * 1024 * 1024);
    flate2::read::GzDecoder::new(&gz[..]).read_to_end(&mut out).unwrap();
    let mut geos = vec![];
    for p in 0..2 {
        let e = &out[446 + 16 * p..446 + 16 * p + 16];
        let lba = rd32(e, 8);
        let b = &out[lba as usize * 512..lba as usize * 512 + 512];
        let spc = b[13] as u32;
        let reserved = rd16(b, 14);
        let nfats = b[16] as u32;
        let root_entries = rd16(b, 17);
        let mut total = rd16(b, 19);
        if total == 0 {
            total = rd32(b, 32);
        }
        let mut fatsz = rd16(b, 22);
        let fat32 = fatsz == 0;
        if fat32 {
            fatsz = rd32(b, 36);
        }
        let root_blocks = (root_entries * 32 + 511) / 512;
        let clusters = (total - reserved - nfats * fatsz - root_blocks) / spc;
        geos.push(Geo {
            fat32,
            spc,
            nfats,
            reserved,
            root_entries,
            clusters,
            lba,
            fatsz,
            root_cluster: if fat32 { rd32(b, 44) } else { 0 },
            free_budget: 0,
        });
    }
    (Rc::new(out), geos)
}

#[test]
fn real_image_histories() {
    let seeds: u64 = std::env::var("HUNT_SEEDS").ok().and_then(|s| s.parse().ok()).unwrap_or(4);
    let steps: u64 = std::env::var("HUNT_STEPS").ok().and_then(|s| s.parse().ok()).unwrap_or(60);
    let with_lib = std::env::var("HUNT_LIB").is_ok();
    let (raw, geos) = real_image();
    println!("{geos:?}");
    let mut all: BTreeMap<String, String> = BTreeMap::new();
    for (gi, g) in geos.into_iter().enumerate() {
        let mut img = Image {
            blocks: HashMap::new(),
            data_start: g.data_start(),
            nblocks: (raw.len() / 512) as u32,
            clusters: g.clusters,
            base: Some(raw.clone()),
        };
        // junk into the first free clusters
        {
            let f = Fsck {
                img: &img,
                g: &g,
                owner: HashMap::new(),
                hard: vec![],
                soft: vec![],
                ents: BTreeMap::new(),
            };
            let mut todo = vec![];
            let mut c = 2;
            while todo.len() < 600 && c < g.clusters + 2 {
                if f.fat(c) == 0 {
                    todo.push(c);
                }
                c += 1;
            }
            for c in todo {
                for i in 0..g.spc {
                    let b = g.cl2blk(c) + i;
                    img.blocks.insert(b, junk(b, g.clusters));
                }
            }
        }
        for seed in 0..seeds {
            let mut r = Rng(0xA5A5_1234_9E37_79B9 ^ (seed * 7919 + gi as u64 * 104729 + 1));
            let mut d = Driver::from_image(g.clone(), img.clone(), gi);
            d.profile = (seed % 3) as u32;
            for _ in 0..steps {
                d.random_step(&mut r);
            }
            let fnd = d.check_all(with_lib);
            for x in fnd {
                let (class, rest) = x.split_once('\n').unwrap();
                all.entry(class.to_string())
                    .or_insert_with(|| format!("part#{gi} seed {seed} {rest}"));
            }
        }
    }
    for (c, d) in &all {
        println!("{c}\n   {d}");
    }
    println!("classes: {}", all.len());
}
