//! C04 bug 2: the length of the partition (MBR entry) is read, stored in
//! `FatVolume::num_blocks` and then never used. The extent of the volume is
//! taken from the boot sector alone (BPB_TotSec16/32). If the boot sector
//! claims more blocks than the partition has (a file system image copied into
//! a smaller partition, a partition that was shrunk without resizing the file
//! system, a damaged BPB_TotSec field ...) the library mounts the volume
//! without complaint, treats the clusters behind the end of the partition as
//! free, and writes file data into the NEXT partition.
//!
//! Device layout used here (512-byte blocks):
//!   block 0            MBR
//!   blocks 1..=4167    partition 0, FAT16, MBR length 4167
//!                      boot sector says BPB_TotSec16 = 4267 (100 too many)
//!   blocks 4168..=4467 partition 1 (somebody else's data, filled with 0xA5)
//!
//! What should have happened: either the mount is refused (FormatError - the
//! test passes then), or the cluster count is clipped to what fits in the
//! partition, so that filling the volume ends with DiskFull before any block
//! >= 4168 is touched.
//!
//! What happens: filling the volume writes the 100 blocks 4168..=4267, i.e.
//! the first 100 blocks of partition 1.
//!
//! Clause of C04 violated: "Every block the library writes lies inside the
//! partition of the volume being operated on [...]; the master boot record,
//! boot sector, other partitions and blocks past the last cluster are never
//! written."

use embedded_sdmmc::{
    Block, BlockCount, BlockDevice, BlockIdx, Mode, TimeSource, Timestamp, VolumeIdx,
    VolumeManager,
};
use std::cell::RefCell;
use std::collections::HashMap;
use std::rc::Rc;

#[derive(Default)]
struct DiskState {
    blocks: HashMap<u32, [u8; 512]>,
    writes: Vec<u32>,
}

#[derive(Clone)]
struct Disk(Rc<RefCell<DiskState>>);

impl Disk {
    fn get(&self, idx: u32) -> [u8; 512] {
        *self.0.borrow().blocks.get(&idx).unwrap_or(&[0u8; 512])
    }
    fn put(&self, idx: u32, data: [u8; 512]) {
        self.0.borrow_mut().blocks.insert(idx, data);
    }
}

impl BlockDevice for Disk {
    type Error = ();
    fn read(&self, blocks: &mut [Block], start: BlockIdx) -> Result<(), ()> {
        for (i, b) in blocks.iter_mut().enumerate() {
            b.contents = self.get(start.0 + i as u32);
        }
        Ok(())
    }
    fn write(&self, blocks: &[Block], start: BlockIdx) -> Result<(), ()> {
        for (i, b) in blocks.iter().enumerate() {
            let idx = start.0 + i as u32;
            let mut s = self.0.borrow_mut();
            s.writes.push(idx);
            s.blocks.insert(idx, b.contents);
        }
        Ok(())
    }
    fn num_blocks(&self) -> Result<BlockCount, ()> {
        Ok(BlockCount(P1_START + P1_LEN))
    }
}

struct Clock;
impl TimeSource for Clock {
    fn get_timestamp(&self) -> Timestamp {
        Timestamp {
            year_since_1970: 33,
            zero_indexed_month: 3,
            zero_indexed_day: 3,
            hours: 13,
            minutes: 30,
            seconds: 4,
        }
    }
}

fn put16(b: &mut [u8], off: usize, v: u16) {
    b[off..off + 2].copy_from_slice(&v.to_le_bytes());
}
fn put32(b: &mut [u8], off: usize, v: u32) {
    b[off..off + 4].copy_from_slice(&v.to_le_bytes());
}

const P0_START: u32 = 1;
const RESERVED: u32 = 1;
const FAT_SIZE: u32 = 17; // 4352 entries
const ROOT_ENTRIES: u32 = 512; // 32 blocks
const BPB_CLUSTERS: u32 = 4200; // >= 4085 => FAT16, one block per cluster
const BPB_TOTAL: u32 = RESERVED + 2 * FAT_SIZE + 32 + BPB_CLUSTERS; // 4267
const P0_LEN: u32 = BPB_TOTAL - 100; // what the partition table says: 4167
const P1_START: u32 = P0_START + P0_LEN; // 4168
const P1_LEN: u32 = 300;

fn build() -> Disk {
    let disk = Disk(Rc::new(RefCell::new(DiskState::default())));

    let mut mbr = [0u8; 512];
    mbr[446 + 4] = 0x06;
    put32(&mut mbr, 446 + 8, P0_START);
    put32(&mut mbr, 446 + 12, P0_LEN);
    mbr[462 + 4] = 0x06;
    put32(&mut mbr, 462 + 8, P1_START);
    put32(&mut mbr, 462 + 12, P1_LEN);
    mbr[510] = 0x55;
    mbr[511] = 0xAA;
    disk.put(0, mbr);

    let mut bs = [0u8; 512];
    bs[0] = 0xEB;
    bs[1] = 0x3C;
    bs[2] = 0x90;
    bs[3..11].copy_from_slice(b"MSDOS5.0");
    put16(&mut bs, 11, 512);
    bs[13] = 1;
    put16(&mut bs, 14, RESERVED as u16);
    bs[16] = 2;
    put16(&mut bs, 17, ROOT_ENTRIES as u16);
    put16(&mut bs, 19, BPB_TOTAL as u16); // 100 more than the partition holds
    bs[21] = 0xF8;
    put16(&mut bs, 22, FAT_SIZE as u16);
    put32(&mut bs, 28, P0_START);
    bs[38] = 0x29;
    bs[43..54].copy_from_slice(b"NO NAME    ");
    bs[54..62].copy_from_slice(b"FAT16   ");
    bs[510] = 0x55;
    bs[511] = 0xAA;
    disk.put(P0_START, bs);

    let mut fat = [0u8; 512];
    put16(&mut fat, 0, 0xFFF8);
    put16(&mut fat, 2, 0xFFFF);
    disk.put(P0_START + RESERVED, fat);
    disk.put(P0_START + RESERVED + FAT_SIZE, fat);

    // partition 1 belongs to somebody else
    for b in P1_START..P1_START + P1_LEN {
        disk.put(b, [0xA5; 512]);
    }
    disk
}

#[test]
fn filling_partition_0_must_not_write_into_partition_1() {
    let disk = build();
    let mgr: VolumeManager<Disk, Clock, 4, 4, 1> =
        VolumeManager::new_with_limits(disk.clone(), Clock, 100);

    let vol = match mgr.open_raw_volume(VolumeIdx(0)) {
        Ok(v) => v,
        Err(e) => {
            // Refusing a file system that does not fit in its partition is fine.
            println!("mount refused: {:?}", e);
            return;
        }
    };
    let root = mgr.open_root_dir(vol).unwrap();
    let f = mgr
        .open_file_in_dir(root, "BIG.DAT", Mode::ReadWriteCreate)
        .unwrap();
    let mut stored = 0u32;
    let last = loop {
        match mgr.write(f, &[0x42; 512]) {
            Ok(()) => stored += 1,
            Err(e) => break e,
        }
        assert!(stored < 10_000, "volume never fills up");
    };
    println!("stored {} blocks, then {:?}", stored, last);
    let _ = mgr.close_file(f);
    let _ = mgr.close_dir(root);
    let _ = mgr.close_volume(vol);

    let outside: Vec<u32> = disk
        .0
        .borrow()
        .writes
        .iter()
        .copied()
        .filter(|&b| b < P0_START || b >= P0_START + P0_LEN)
        .collect();
    let clobbered = (P1_START..P1_START + P1_LEN)
        .filter(|&b| disk.get(b) != [0xA5; 512])
        .count();
    println!(
        "partition 0 is blocks {}..={}; writes outside it: {} (first {:?}, last {:?}); blocks of partition 1 changed: {}",
        P0_START,
        P0_START + P0_LEN - 1,
        outside.len(),
        outside.first(),
        outside.last(),
        clobbered
    );
    assert!(
        outside.is_empty(),
        "{} block writes landed outside partition 0, {} blocks of partition 1 were overwritten",
        outside.len(),
        clobbered
    );
}
