//! C04 bug 3: name lookup (and therefore delete / open-for-write) also
//! matches the VOLUME LABEL entry of the root directory.
//!
//! A volume label is an ordinary 32-byte slot with attribute 0x08 whose 11
//! name bytes are the label. It is not a file, every FAT driver skips it when
//! looking for a file, and so a file may have the same 11 bytes as its name
//! (label "DATA", file "DATA"). The label is normally the first slot of the
//! root directory (that is where mkfs.fat and Windows FORMAT put it), so
//! `find_directory_entry` / `delete_entry_in_block`, which compare nothing but
//! the 11 name bytes (they only skip long-name fragments), hit the label slot
//! first.
//!
//! What should have happened: `delete_file_in_dir(root, "DATA")` marks the
//! slot of the FILE "DATA" (slot 1) as deleted and frees its cluster (2);
//! the label slot (slot 0) is not the call's business. Likewise, opening
//! "DATA" for append and writing must update slot 1.
//!
//! What happens: the label slot is overwritten (0xE5 in its first byte for
//! delete; cluster/size/attribute/time fields for open+write+close), the
//! file's own slot and FAT chain are left as they were.
//!
//! Clause of C04 violated: "Within the data area a call only changes bytes of
//! the file range it was asked to write, of clusters it newly allocated, or of
//! the directory slot it owns" - the call owns the slot of the file DATA, and
//! rewrites the volume label's slot instead.

use embedded_sdmmc::{
    Block, BlockCount, BlockDevice, BlockIdx, Mode, TimeSource, Timestamp, VolumeIdx,
    VolumeManager,
};
use std::cell::RefCell;
use std::collections::HashMap;
use std::rc::Rc;

#[derive(Default)]
struct DiskState {
    blocks: HashMap<u32, [u8; 512]>,
    writes: Vec<u32>,
}

#[derive(Clone)]
struct Disk(Rc<RefCell<DiskState>>);

impl Disk {
    fn get(&self, idx: u32) -> [u8; 512] {
        *self.0.borrow().blocks.get(&idx).unwrap_or(&[0u8; 512])
    }
    fn put(&self, idx: u32, data: [u8; 512]) {
        self.0.borrow_mut().blocks.insert(idx, data);
    }
}

impl BlockDevice for Disk {
    type Error = ();
    fn read(&self, blocks: &mut [Block], start: BlockIdx) -> Result<(), ()> {
        for (i, b) in blocks.iter_mut().enumerate() {
            b.contents = self.get(start.0 + i as u32);
        }
        Ok(())
    }
    fn write(&self, blocks: &[Block], start: BlockIdx) -> Result<(), ()> {
        for (i, b) in blocks.iter().enumerate() {
            let idx = start.0 + i as u32;
            let mut s = self.0.borrow_mut();
            s.writes.push(idx);
            s.blocks.insert(idx, b.contents);
        }
        Ok(())
    }
    fn num_blocks(&self) -> Result<BlockCount, ()> {
        Ok(BlockCount(0x10_0000))
    }
}

struct Clock;
impl TimeSource for Clock {
    fn get_timestamp(&self) -> Timestamp {
        Timestamp {
            year_since_1970: 33,
            zero_indexed_month: 3,
            zero_indexed_day: 3,
            hours: 13,
            minutes: 30,
            seconds: 4,
        }
    }
}

fn put16(b: &mut [u8], off: usize, v: u16) {
    b[off..off + 2].copy_from_slice(&v.to_le_bytes());
}
fn put32(b: &mut [u8], off: usize, v: u32) {
    b[off..off + 4].copy_from_slice(&v.to_le_bytes());
}
fn get32(b: &[u8], off: usize) -> u32 {
    u32::from_le_bytes([b[off], b[off + 1], b[off + 2], b[off + 3]])
}


const P0_START: u32 = 1;
const RESERVED: u32 = 1;
const FAT_SIZE: u32 = 17;
const ROOT_ENTRIES: u32 = 512; // 32 blocks
const CLUSTERS: u32 = 4200; // FAT16, one block per cluster
const TOTAL: u32 = RESERVED + 2 * FAT_SIZE + 32 + CLUSTERS;
const FAT0: u32 = P0_START + RESERVED;
const ROOT: u32 = FAT0 + 2 * FAT_SIZE;
const DATA: u32 = ROOT + 32;

fn build() -> Disk {
    let disk = Disk(Rc::new(RefCell::new(DiskState::default())));

    let mut mbr = [0u8; 512];
    mbr[446 + 4] = 0x06;
    put32(&mut mbr, 446 + 8, P0_START);
    put32(&mut mbr, 446 + 12, TOTAL);
    mbr[510] = 0x55;
    mbr[511] = 0xAA;
    disk.put(0, mbr);

    let mut bs = [0u8; 512];
    bs[0] = 0xEB;
    bs[1] = 0x3C;
    bs[2] = 0x90;
    bs[3..11].copy_from_slice(b"MSDOS5.0");
    put16(&mut bs, 11, 512);
    bs[13] = 1;
    put16(&mut bs, 14, RESERVED as u16);
    bs[16] = 2;
    put16(&mut bs, 17, ROOT_ENTRIES as u16);
    put16(&mut bs, 19, TOTAL as u16);
    bs[21] = 0xF8;
    put16(&mut bs, 22, FAT_SIZE as u16);
    put32(&mut bs, 28, P0_START);
    bs[38] = 0x29;
    bs[43..54].copy_from_slice(b"DATA       ");
    bs[54..62].copy_from_slice(b"FAT16   ");
    bs[510] = 0x55;
    bs[511] = 0xAA;
    disk.put(P0_START, bs);

    // cluster 2 belongs to the file DATA
    let mut fat = [0u8; 512];
    put16(&mut fat, 0, 0xFFF8);
    put16(&mut fat, 2, 0xFFFF);
    put16(&mut fat, 4, 0xFFFF);
    disk.put(FAT0, fat);
    disk.put(FAT0 + FAT_SIZE, fat);

    let mut root = [0u8; 512];
    // slot 0: the volume label "DATA"
    root[0..11].copy_from_slice(b"DATA       ");
    root[11] = 0x08;
    put16(&mut root, 22, 0x6C20);
    put16(&mut root, 24, 0x2E84);
    // slot 1: the file "DATA" (no extension), cluster 2, 5 bytes
    root[32..43].copy_from_slice(b"DATA       ");
    root[32 + 11] = 0x20;
    put16(&mut root, 32 + 26, 2);
    put32(&mut root, 32 + 28, 5);
    disk.put(ROOT, root);

    let mut data = [0u8; 512];
    data[0..5].copy_from_slice(b"hello");
    disk.put(DATA, data);
    disk
}

fn mount(disk: &Disk) -> VolumeManager<Disk, Clock, 4, 4, 1> {
    VolumeManager::new_with_limits(disk.clone(), Clock, 100)
}

#[test]
fn delete_must_not_touch_the_volume_label_slot() {
    let disk = build();
    let before = disk.get(ROOT);
    let mgr = mount(&disk);
    let vol = mgr.open_raw_volume(VolumeIdx(0)).unwrap();
    let root = mgr.open_root_dir(vol).unwrap();

    // sanity: the library does see one *file* of that name
    let mut files = 0;
    mgr.iterate_dir(root, |de| {
        if !de.attributes.is_volume() && !de.attributes.is_directory() {
            files += 1
        }
    })
    .unwrap();
    assert_eq!(files, 1);

    let r = mgr.delete_file_in_dir(root, "DATA");
    println!("delete_file_in_dir -> {:?}", r);
    mgr.close_dir(root).unwrap();
    mgr.close_volume(vol).unwrap();

    let after = disk.get(ROOT);
    println!("blocks written: {:?}", disk.0.borrow().writes);
    println!("label slot before {:02x?}", &before[0..32]);
    println!("label slot after  {:02x?}", &after[0..32]);
    println!("file slot after   {:02x?}", &after[32..64]);
    assert_eq!(
        &after[0..32],
        &before[0..32],
        "the volume label slot (slot 0) was modified by deleting the file DATA"
    );
    if r.is_ok() {
        assert_eq!(after[32], 0xE5, "the file's own slot was not marked deleted");
    }
}

#[test]
fn append_must_not_touch_the_volume_label_slot() {
    let disk = build();
    let before = disk.get(ROOT);
    let mgr = mount(&disk);
    let vol = mgr.open_raw_volume(VolumeIdx(0)).unwrap();
    let root = mgr.open_root_dir(vol).unwrap();
    let f = mgr
        .open_file_in_dir(root, "DATA", Mode::ReadWriteAppend)
        .unwrap();
    println!("length of DATA as opened: {:?}", mgr.file_length(f));
    mgr.write(f, b" world").unwrap();
    mgr.close_file(f).unwrap();
    mgr.close_dir(root).unwrap();
    mgr.close_volume(vol).unwrap();

    let after = disk.get(ROOT);
    println!("label slot before {:02x?}", &before[0..32]);
    println!("label slot after  {:02x?}", &after[0..32]);
    println!("file slot after   {:02x?}", &after[32..64]);
    assert_eq!(
        &after[0..32],
        &before[0..32],
        "the volume label slot (slot 0) was modified by appending to the file DATA"
    );
}
