//! EXTRA (4th confirmed defect, not listed in findings.json which is capped at 3).
//!
//! C04: the single-block cache keeps its tag after a FAILED device write.
//! `BlockCache::write_back` / `write_back_with_duplicate` (src/blockdevice.rs:133-150)
//! leave `block_idx` set when `block_device.write` returns an error, so the
//! cache goes on claiming that block N holds the modified bytes although the
//! device still holds the old ones. The next call that reads block N gets the
//! phantom contents and, if it modifies the block, writes the abandoned
//! modification of the failed call together with its own.
//!
//! Scenario: write(b"x") to a new file; the FAT sector write fails once
//! (transient card error) -> Err(DeviceError), disk unchanged. The caller
//! retries: the free-cluster search sees the phantom "cluster 2 = EOC" in the
//! cache, takes cluster 3, and the FAT sector it writes carries BOTH entries.
//! Cluster 2 is now marked allocated on disk and belongs to no chain.
//!
//! Clause violated: "within the FAT only entries of chains it extends,
//! truncates or frees" - the successful retry extends F.TXT's chain with
//! cluster 3 only, yet FAT entry 2 changes from free to EOC.
//!
//! Suggested fix: on a write error set `self.block_idx = None` in write_back
//! and write_back_with_duplicate (the cached bytes no longer mirror the device).
use embedded_sdmmc::{
    Block, BlockCount, BlockDevice, BlockIdx, Mode, TimeSource, Timestamp, VolumeIdx,
    VolumeManager,
};
use std::cell::RefCell;
use std::collections::HashMap;
use std::rc::Rc;

#[derive(Default)]
struct DiskState {
    blocks: HashMap<u32, [u8; 512]>,
    writes: Vec<u32>,
    /// fail the next write to this block, once
    fail_next_write_to: Option<u32>,
}

#[derive(Clone)]
struct Disk(Rc<RefCell<DiskState>>);

impl Disk {
    fn get(&self, idx: u32) -> [u8; 512] {
        *self.0.borrow().blocks.get(&idx).unwrap_or(&[0u8; 512])
    }
    fn put(&self, idx: u32, data: [u8; 512]) {
        self.0.borrow_mut().blocks.insert(idx, data);
    }
}

impl BlockDevice for Disk {
    type Error = ();
    fn read(&self, blocks: &mut [Block], start: BlockIdx) -> Result<(), ()> {
        for (i, b) in blocks.iter_mut().enumerate() {
            b.contents = self.get(start.0 + i as u32);
        }
        Ok(())
    }
    fn write(&self, blocks: &[Block], start: BlockIdx) -> Result<(), ()> {
        for (i, b) in blocks.iter().enumerate() {
            let idx = start.0 + i as u32;
            let mut s = self.0.borrow_mut();
            if s.fail_next_write_to == Some(idx) {
                s.fail_next_write_to = None;
                return Err(());
            }
            s.writes.push(idx);
            s.blocks.insert(idx, b.contents);
        }
        Ok(())
    }
    fn num_blocks(&self) -> Result<BlockCount, ()> {
        Ok(BlockCount(0x10_0000))
    }
}

struct Clock;
impl TimeSource for Clock {
    fn get_timestamp(&self) -> Timestamp {
        Timestamp {
            year_since_1970: 33,
            zero_indexed_month: 3,
            zero_indexed_day: 3,
            hours: 13,
            minutes: 30,
            seconds: 4,
        }
    }
}

fn put16(b: &mut [u8], off: usize, v: u16) {
    b[off..off + 2].copy_from_slice(&v.to_le_bytes());
}
fn put32(b: &mut [u8], off: usize, v: u32) {
    b[off..off + 4].copy_from_slice(&v.to_le_bytes());
}
fn get32(b: &[u8], off: usize) -> u32 {
    u32::from_le_bytes([b[off], b[off + 1], b[off + 2], b[off + 3]])
}


const P0_START: u32 = 1;
const RESERVED: u32 = 1;
const FAT_SIZE: u32 = 17;
const ROOT_ENTRIES: u32 = 512;
const CLUSTERS: u32 = 4200;
const TOTAL: u32 = RESERVED + 2 * FAT_SIZE + 32 + CLUSTERS;
const FAT0: u32 = P0_START + RESERVED;

fn get16(b: &[u8], off: usize) -> u16 { u16::from_le_bytes([b[off], b[off+1]]) }

fn build() -> Disk {
    let disk = Disk(Rc::new(RefCell::new(DiskState::default())));
    let mut mbr = [0u8; 512];
    mbr[446 + 4] = 0x06;
    put32(&mut mbr, 446 + 8, P0_START);
    put32(&mut mbr, 446 + 12, TOTAL);
    mbr[510] = 0x55; mbr[511] = 0xAA;
    disk.put(0, mbr);
    let mut bs = [0u8; 512];
    bs[0] = 0xEB; bs[1] = 0x3C; bs[2] = 0x90;
    bs[3..11].copy_from_slice(b"MSDOS5.0");
    put16(&mut bs, 11, 512);
    bs[13] = 1;
    put16(&mut bs, 14, RESERVED as u16);
    bs[16] = 2;
    put16(&mut bs, 17, ROOT_ENTRIES as u16);
    put16(&mut bs, 19, TOTAL as u16);
    bs[21] = 0xF8;
    put16(&mut bs, 22, FAT_SIZE as u16);
    put32(&mut bs, 28, P0_START);
    bs[38] = 0x29;
    bs[43..54].copy_from_slice(b"NO NAME    ");
    bs[54..62].copy_from_slice(b"FAT16   ");
    bs[510] = 0x55; bs[511] = 0xAA;
    disk.put(P0_START, bs);
    let mut fat = [0u8; 512];
    put16(&mut fat, 0, 0xFFF8);
    put16(&mut fat, 2, 0xFFFF);
    disk.put(FAT0, fat);
    disk.put(FAT0 + FAT_SIZE, fat);
    disk
}

#[test]
fn retry_after_failed_fat_write() {
    let disk = build();
    let mgr: VolumeManager<Disk, Clock, 4, 4, 1> = VolumeManager::new_with_limits(disk.clone(), Clock, 100);
    let vol = mgr.open_raw_volume(VolumeIdx(0)).unwrap();
    let root = mgr.open_root_dir(vol).unwrap();
    let f = mgr.open_file_in_dir(root, "F.TXT", Mode::ReadWriteCreate).unwrap();
    disk.0.borrow_mut().fail_next_write_to = Some(FAT0);
    let r1 = mgr.write(f, b"x");
    println!("first write -> {:?}", r1);
    assert!(r1.is_err());
    let fat_mid = disk.get(FAT0);
    assert_eq!(get16(&fat_mid, 4), 0, "failed call left disk unchanged");
    let r2 = mgr.write(f, b"x");
    println!("retry -> {:?}", r2);
    mgr.close_file(f).unwrap();
    mgr.close_dir(root).unwrap();
    mgr.close_volume(vol).unwrap();
    let fat = disk.get(FAT0);
    let used: Vec<usize> = (2..256).filter(|&c| get16(&fat, c*2) != 0).collect();
    println!("clusters marked used in FAT: {:?}", used);
    assert_eq!(used.len(), 1, "one-byte file must own exactly one cluster; extra entries changed: {:?}", used);
}
