//! C04 bug 1: FAT32 volume whose boot sector says "FAT mirroring disabled,
//! active FAT = #1" (BPB_ExtFlags = 0x0081, offset 40 of the boot sector).
//!
//! On such a volume only FAT #1 is the allocation table; FAT #0 is not
//! maintained and may legitimately hold older contents. The library never
//! looks at BPB_ExtFlags: it reads FAT #0 to find a free cluster, writes FAT
//! #0, and then copies the *whole* FAT #0 sector over the corresponding sector
//! of FAT #1 (`write_back_with_duplicate`).
//!
//! What should have happened: creating B.TXT and writing 512 bytes to it may
//! only (a) fill a directory slot, (b) mark ONE cluster that is free in the
//! active FAT, (c) write that cluster, (d) touch FSInfo. Refusing to mount a
//! volume with a non-mirrored FAT would also be acceptable (the test passes
//! then).
//!
//! What happens: the write allocates cluster 3, which belongs to A.TXT
//! according to the active FAT, overwrites A.TXT's first data block with
//! B's bytes, and wipes A.TXT's chain (entries 3 and 4) from the active FAT.
//!
//! Clauses of C04 violated:
//!  * "Within the data area a call only changes bytes of the file range it was
//!    asked to write, of clusters it newly allocated, or of the directory slot
//!    it owns" - a block of A.TXT, a cluster that was NOT free, is overwritten.
//!  * "within the FAT only entries of chains it extends, truncates or frees;
//!    all other bytes of every rewritten block are preserved" - entry 4 of the
//!    active FAT (A.TXT's chain, not B.TXT's) is changed from EOC to free.
//!  * "inside the region appropriate to its purpose" - an allocation is
//!    recorded in the FAT copy that the volume declares inactive.

use embedded_sdmmc::{
    Block, BlockCount, BlockDevice, BlockIdx, Mode, TimeSource, Timestamp, VolumeIdx,
    VolumeManager,
};
use std::cell::RefCell;
use std::collections::HashMap;
use std::rc::Rc;

#[derive(Default)]
struct DiskState {
    blocks: HashMap<u32, [u8; 512]>,
    writes: Vec<u32>,
}

#[derive(Clone)]
struct Disk(Rc<RefCell<DiskState>>);

impl Disk {
    fn get(&self, idx: u32) -> [u8; 512] {
        *self.0.borrow().blocks.get(&idx).unwrap_or(&[0u8; 512])
    }
    fn put(&self, idx: u32, data: [u8; 512]) {
        self.0.borrow_mut().blocks.insert(idx, data);
    }
}

impl BlockDevice for Disk {
    type Error = ();
    fn read(&self, blocks: &mut [Block], start: BlockIdx) -> Result<(), ()> {
        for (i, b) in blocks.iter_mut().enumerate() {
            b.contents = self.get(start.0 + i as u32);
        }
        Ok(())
    }
    fn write(&self, blocks: &[Block], start: BlockIdx) -> Result<(), ()> {
        for (i, b) in blocks.iter().enumerate() {
            let idx = start.0 + i as u32;
            let mut s = self.0.borrow_mut();
            s.writes.push(idx);
            s.blocks.insert(idx, b.contents);
        }
        Ok(())
    }
    fn num_blocks(&self) -> Result<BlockCount, ()> {
        Ok(BlockCount(0x10_0000))
    }
}

struct Clock;
impl TimeSource for Clock {
    fn get_timestamp(&self) -> Timestamp {
        Timestamp {
            year_since_1970: 33,
            zero_indexed_month: 3,
            zero_indexed_day: 3,
            hours: 13,
            minutes: 30,
            seconds: 4,
        }
    }
}

fn put16(b: &mut [u8], off: usize, v: u16) {
    b[off..off + 2].copy_from_slice(&v.to_le_bytes());
}
fn put32(b: &mut [u8], off: usize, v: u32) {
    b[off..off + 4].copy_from_slice(&v.to_le_bytes());
}
fn get32(b: &[u8], off: usize) -> u32 {
    u32::from_le_bytes([b[off], b[off + 1], b[off + 2], b[off + 3]])
}

// Geometry (all in 512-byte blocks)
const PART_START: u32 = 64;
const RESERVED: u32 = 32;
const FAT_SIZE: u32 = 520; // 66560 entries
const CLUSTERS: u32 = 66000; // >= 65525 => FAT32, one block per cluster
const TOTAL: u32 = RESERVED + 2 * FAT_SIZE + CLUSTERS;
const FAT0: u32 = PART_START + RESERVED;
const FAT1: u32 = FAT0 + FAT_SIZE;
const DATA: u32 = FAT1 + FAT_SIZE; // cluster 2 lives here

fn build() -> Disk {
    let disk = Disk(Rc::new(RefCell::new(DiskState::default())));

    // MBR, one FAT32-LBA partition
    let mut mbr = [0u8; 512];
    mbr[446 + 4] = 0x0C;
    put32(&mut mbr, 446 + 8, PART_START);
    put32(&mut mbr, 446 + 12, TOTAL);
    mbr[510] = 0x55;
    mbr[511] = 0xAA;
    disk.put(0, mbr);

    // Boot sector
    let mut bs = [0u8; 512];
    bs[0] = 0xEB;
    bs[1] = 0x58;
    bs[2] = 0x90;
    bs[3..11].copy_from_slice(b"MSWIN4.1");
    put16(&mut bs, 11, 512);
    bs[13] = 1; // blocks per cluster
    put16(&mut bs, 14, RESERVED as u16);
    bs[16] = 2; // two FATs
    put16(&mut bs, 17, 0);
    put16(&mut bs, 19, 0);
    bs[21] = 0xF8;
    put16(&mut bs, 22, 0);
    put32(&mut bs, 28, PART_START);
    put32(&mut bs, 32, TOTAL);
    put32(&mut bs, 36, FAT_SIZE);
    // BPB_ExtFlags: bit 7 = mirroring disabled, bits 0..3 = active FAT (1)
    put16(&mut bs, 40, 0x0081);
    put16(&mut bs, 42, 0); // version 0.0
    put32(&mut bs, 44, 2); // root cluster
    put16(&mut bs, 48, 1); // FSInfo
    put16(&mut bs, 50, 6); // backup boot
    bs[66] = 0x29;
    bs[71..82].copy_from_slice(b"NO NAME    ");
    bs[82..90].copy_from_slice(b"FAT32   ");
    bs[510] = 0x55;
    bs[511] = 0xAA;
    disk.put(PART_START, bs);
    disk.put(PART_START + 6, bs);

    // FSInfo: nothing known
    let mut fi = [0u8; 512];
    put32(&mut fi, 0, 0x4161_5252);
    put32(&mut fi, 484, 0x6141_7272);
    put32(&mut fi, 488, 0xFFFF_FFFF);
    put32(&mut fi, 492, 0xFFFF_FFFF);
    put32(&mut fi, 508, 0xAA55_0000);
    disk.put(PART_START + 1, fi);
    disk.put(PART_START + 7, fi);

    // FAT #0: inactive, as the formatter left it (only the root directory)
    let mut f0 = [0u8; 512];
    put32(&mut f0, 0, 0x0FFF_FFF8);
    put32(&mut f0, 4, 0x0FFF_FFFF);
    put32(&mut f0, 8, 0x0FFF_FFFF);
    disk.put(FAT0, f0);

    // FAT #1: ACTIVE. A.TXT owns the chain 3 -> 4 -> EOC
    let mut f1 = f0;
    put32(&mut f1, 12, 4);
    put32(&mut f1, 16, 0x0FFF_FFFF);
    disk.put(FAT1, f1);

    // Root directory (cluster 2): A.TXT, first cluster 3, 1024 bytes
    let mut root = [0u8; 512];
    root[0..11].copy_from_slice(b"A       TXT");
    root[11] = 0x20;
    put16(&mut root, 26, 3);
    put32(&mut root, 28, 1024);
    disk.put(DATA, root);

    // A.TXT's data
    disk.put(DATA + 1, [b'A'; 512]); // cluster 3
    disk.put(DATA + 2, [b'A'; 512]); // cluster 4
    disk
}

#[test]
fn write_on_volume_with_active_fat_1_must_not_touch_other_files() {
    let disk = build();
    let mgr: VolumeManager<Disk, Clock, 4, 4, 1> =
        VolumeManager::new_with_limits(disk.clone(), Clock, 100);

    let vol = match mgr.open_raw_volume(VolumeIdx(0)) {
        Ok(v) => v,
        Err(e) => {
            // Refusing a volume with a non-mirrored FAT is a legitimate answer.
            println!("mount refused: {:?}", e);
            return;
        }
    };
    let root = mgr.open_root_dir(vol).unwrap();
    let f = mgr
        .open_file_in_dir(root, "B.TXT", Mode::ReadWriteCreate)
        .unwrap();
    mgr.write(f, &[b'B'; 512]).unwrap();
    mgr.close_file(f).unwrap();
    mgr.close_dir(root).unwrap();
    mgr.close_volume(vol).unwrap();

    println!("blocks written: {:?}", disk.0.borrow().writes);

    // A.TXT's data must be untouched
    let a0 = disk.get(DATA + 1);
    let a1 = disk.get(DATA + 2);
    let active = disk.get(FAT1);
    println!(
        "A.TXT first block starts with {:?}; active FAT[3]={:#x} FAT[4]={:#x}",
        &a0[0..4],
        get32(&active, 12),
        get32(&active, 16)
    );
    assert!(
        a0.iter().all(|&b| b == b'A') && a1.iter().all(|&b| b == b'A'),
        "data of A.TXT (cluster 3, allocated in the active FAT) was overwritten"
    );
    // A.TXT's chain in the active FAT must be untouched
    assert_eq!(get32(&active, 12), 4, "active FAT entry 3 (A.TXT) changed");
    assert_eq!(
        get32(&active, 16),
        0x0FFF_FFFF,
        "active FAT entry 4 (A.TXT) changed"
    );
    // and nothing may be recorded in the inactive copy
    assert!(
        !disk
            .0
            .borrow()
            .writes
            .iter()
            .any(|&b| (FAT0..FAT1).contains(&b)),
        "the inactive FAT copy was written"
    );
}
