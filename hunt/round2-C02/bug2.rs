//! C02 bug 2: a `write()` that stores NOTHING (it fails with `DiskFull`
//! because the file ends exactly on a cluster boundary and no cluster is free)
//! nevertheless stamps the directory entry: after close the medium shows the
//! file - same length, same bytes - with a new modification time/date and with
//! the archive bit switched on.
//!
//! History: README.TXT (exactly one cluster long, archive bit clear, last
//! written 2017-01-01 02:00:00) sits on a volume without a single free cluster.
//! open(ReadWriteAppend); write(10 bytes) -> Err(DiskFull), length unchanged;
//! close.
//!
//! Clauses violated: "a modification time equal to the clock value at the last
//! write" (the last write that put anything into the file was the one in 2017;
//! nothing of the failed call reached the file) and "Every file and directory
//! that the history did not touch is byte-for-byte and entry-for-entry
//! unchanged" (not one byte of the file was touched, yet three fields of its
//! entry changed). A backup tool going by mtime/archive bit sees a modified
//! file that is bit-identical to its last copy.
//!
//! The library is not even consistent with itself: the same failing write on a
//! file that has no cluster yet (second test, passes) leaves the entry alone,
//! because there the allocation fails *before* the stamping.
//!
//! Root cause: since the fix for "partial DiskFull writes are not stamped"
//! (fb3e829) `VolumeManager::write` sets `dirty`, the archive bit and `mtime`
//! up-front, before it knows whether a single byte can be stored.
//!
//! Put this file into the crate's `tests/` directory:
//!   cargo test --offline --test bug2

use embedded_sdmmc::{
    Block, BlockCount, BlockDevice, BlockIdx, Error, Mode, TimeSource, Timestamp, VolumeIdx,
    VolumeManager,
};
use std::cell::{Cell, RefCell};
use std::rc::Rc;

#[derive(Clone)]
struct Disk(Rc<RefCell<Vec<u8>>>);
impl BlockDevice for Disk {
    type Error = ();
    fn read(&self, blocks: &mut [Block], start: BlockIdx) -> Result<(), ()> {
        let d = self.0.borrow();
        for (i, b) in blocks.iter_mut().enumerate() {
            let o = (start.0 as usize + i) * 512;
            b.as_mut_slice().copy_from_slice(d.get(o..o + 512).ok_or(())?);
        }
        Ok(())
    }
    fn write(&self, blocks: &[Block], start: BlockIdx) -> Result<(), ()> {
        let mut d = self.0.borrow_mut();
        for (i, b) in blocks.iter().enumerate() {
            let o = (start.0 as usize + i) * 512;
            d.get_mut(o..o + 512).ok_or(())?.copy_from_slice(b.as_slice());
        }
        Ok(())
    }
    fn num_blocks(&self) -> Result<BlockCount, ()> {
        Ok(BlockCount((self.0.borrow().len() / 512) as u32))
    }
}

/// A clock that gives a different answer on every call
#[derive(Clone)]
struct Clock(Rc<Cell<u8>>);
impl TimeSource for Clock {
    fn get_timestamp(&self) -> Timestamp {
        let n = self.0.get();
        self.0.set(n + 1);
        Timestamp::from_calendar(2024, 2, 29, 12, n % 60, 59).unwrap()
    }
}

fn w16(d: &mut [u8], o: usize, v: u16) {
    d[o..o + 2].copy_from_slice(&v.to_le_bytes());
}
fn w32(d: &mut [u8], o: usize, v: u32) {
    d[o..o + 4].copy_from_slice(&v.to_le_bytes());
}

const CLUSTERS: u32 = 4200;
const FATSZ: usize = 17; // (4202 * 2 + 511) / 512
const FAT0: usize = 2 * 512; // MBR, boot sector, then the FATs
const ROOT: usize = FAT0 + 2 * FATSZ * 512;
const DATA: usize = ROOT + 32 * 512; // cluster 2

/// FAT16, 1 sector per cluster, every cluster in use (cluster 2 by README.TXT,
/// the rest marked bad): the volume is full.
fn full_volume() -> Disk {
    let total = 1 + 2 * FATSZ as u32 + 32 + CLUSTERS;
    let mut d = vec![0u8; (1 + total as usize) * 512];
    d[446 + 4] = 0x06;
    w32(&mut d, 446 + 8, 1);
    w32(&mut d, 446 + 12, total);
    w16(&mut d, 510, 0xAA55);
    let b = 512;
    d[b..b + 3].copy_from_slice(&[0xEB, 0x3C, 0x90]);
    d[b + 3..b + 11].copy_from_slice(b"MSWIN4.1");
    w16(&mut d, b + 11, 512);
    d[b + 13] = 1;
    w16(&mut d, b + 14, 1);
    d[b + 16] = 2;
    w16(&mut d, b + 17, 512);
    w16(&mut d, b + 19, total as u16);
    d[b + 21] = 0xF8;
    w16(&mut d, b + 22, FATSZ as u16);
    w32(&mut d, b + 28, 1);
    d[b + 38] = 0x29;
    d[b + 43..b + 54].copy_from_slice(b"NO NAME    ");
    d[b + 54..b + 62].copy_from_slice(b"FAT16   ");
    w16(&mut d, b + 510, 0xAA55);
    for fat in [FAT0, FAT0 + FATSZ * 512] {
        w16(&mut d, fat, 0xFFF8);
        w16(&mut d, fat + 2, 0xFFFF);
        w16(&mut d, fat + 4, 0xFFFF); // cluster 2: README.TXT, end of chain
        for c in 3..CLUSTERS + 2 {
            w16(&mut d, fat + c as usize * 2, 0xFFF7); // bad cluster: never free
        }
    }
    // README.TXT: one full cluster, archive bit clear, written 2017-01-01 02:00:00
    let mut e = [0u8; 32];
    e[..11].copy_from_slice(b"README  TXT");
    e[11] = 0x00;
    e[13] = 100;
    w16(&mut e, 14, 0x1000);
    w16(&mut e, 16, 0x4A21);
    w16(&mut e, 18, 0x4A21);
    w16(&mut e, 22, 0x1000);
    w16(&mut e, 24, 0x4A21);
    w16(&mut e, 26, 2);
    w32(&mut e, 28, 512);
    d[ROOT..ROOT + 32].copy_from_slice(&e);
    // NOTHING.TXT: empty, no cluster
    let mut e2 = e;
    e2[..11].copy_from_slice(b"NOTHING TXT");
    w16(&mut e2, 26, 0);
    w32(&mut e2, 28, 0);
    d[ROOT + 32..ROOT + 64].copy_from_slice(&e2);
    for i in 0..512 {
        d[DATA + i] = i as u8;
    }
    Disk(Rc::new(RefCell::new(d)))
}

fn failing_write_then_close(name: &str) -> (Vec<u8>, Vec<u8>) {
    let disk = full_volume();
    let before = disk.0.borrow().clone();
    let vm: VolumeManager<Disk, Clock, 4, 4, 1> =
        VolumeManager::new_with_limits(disk.clone(), Clock(Rc::new(Cell::new(0))), 100);
    let vol = vm.open_volume(VolumeIdx(0)).unwrap();
    let dir = vol.open_root_dir().unwrap();
    let f = dir.open_file_in_dir(name, Mode::ReadWriteAppend).unwrap();
    let len = f.length();
    let r = f.write(b"ten bytes!");
    println!("{}: write -> {:?}, length {} -> {}", name, r, len, f.length());
    assert!(matches!(r, Err(Error::DiskFull) | Err(Error::NotEnoughSpace)));
    assert_eq!(f.length(), len, "nothing was stored");
    f.close().unwrap();
    dir.close().unwrap();
    vol.close().unwrap();
    let after = disk.0.borrow().clone();
    (before, after)
}

#[test]
fn write_that_stored_nothing_leaves_the_entry_alone() {
    let (before, after) = failing_write_then_close("README.TXT");
    // the data and both FATs are as they were ...
    assert_eq!(before[FAT0..ROOT], after[FAT0..ROOT]);
    assert_eq!(before[DATA..], after[DATA..]);
    // ... and so must be the directory entry
    let (b, a) = (&before[ROOT..ROOT + 32], &after[ROOT..ROOT + 32]);
    println!("entry before {:02x?}\nentry after  {:02x?}", b, a);
    assert_eq!(a[11], b[11], "archive bit of a file nothing was written to");
    assert_eq!(
        a[22..26],
        b[22..26],
        "modification time/date of a file nothing was written to"
    );
    assert_eq!(a, b);
}

/// For contrast (passes): the same call sequence on an empty file.
#[test]
fn same_on_a_file_without_cluster() {
    let (before, after) = failing_write_then_close("NOTHING.TXT");
    assert_eq!(before, after);
}
