//! C02 bug 1: a file (or directory) created by the library shows up, to any
//! FAT reader, under a stale long name when the free slot it is put into is
//! preceded by live long-file-name fragments whose checksum matches.
//!
//! Such "orphaned" fragments are exactly what an LFN-unaware implementation
//! (DOS, many embedded FAT drivers, and this very crate before commit 01049be)
//! leaves behind when it deletes a long-named file: the short entry is marked
//! 0xE5, the fragments in front of it stay live. The FAT specification says
//! orphans must be tolerated. The typical history is log rotation: LOG.TXT
//! (long name "Yesterday's log.txt") was deleted by such a driver, and now
//! `open_file_in_dir("LOG.TXT", ReadWriteCreate)` re-creates the same 8.3 name.
//! `write_new_directory_entry` drops the new short entry into the first free
//! slot - the deleted short entry right behind the orphaned run - and because
//! the LFN checksum is a function of the 11 name bytes only, the run is now a
//! complete, valid long name for the NEW file.
//!
//! Clause violated: "a completely fresh mount of the raw block device - by this
//! library and by an independent FAT reader written from the specification -
//! shows that file under its name". The independent reader (and the library's
//! own `iterate_dir_lfn`) show the new file as "Yesterday's log.txt".
//!
//! What should have happened: the created entry has no long name - the
//! fragments directly in front of the chosen slot must be marked deleted (as
//! `delete_directory_entry` does since 01049be) or another slot be chosen.
//!
//! Put this file into the crate's `tests/` directory:
//!   cargo test --offline --test bug1

use embedded_sdmmc::{
    Block, BlockCount, BlockDevice, BlockIdx, LfnBuffer, Mode, TimeSource, Timestamp, VolumeIdx,
    VolumeManager,
};
use std::cell::RefCell;
use std::rc::Rc;

#[derive(Clone)]
struct Disk(Rc<RefCell<Vec<u8>>>);
impl BlockDevice for Disk {
    type Error = ();
    fn read(&self, blocks: &mut [Block], start: BlockIdx) -> Result<(), ()> {
        let d = self.0.borrow();
        for (i, b) in blocks.iter_mut().enumerate() {
            let o = (start.0 as usize + i) * 512;
            b.as_mut_slice().copy_from_slice(d.get(o..o + 512).ok_or(())?);
        }
        Ok(())
    }
    fn write(&self, blocks: &[Block], start: BlockIdx) -> Result<(), ()> {
        let mut d = self.0.borrow_mut();
        for (i, b) in blocks.iter().enumerate() {
            let o = (start.0 as usize + i) * 512;
            d.get_mut(o..o + 512).ok_or(())?.copy_from_slice(b.as_slice());
        }
        Ok(())
    }
    fn num_blocks(&self) -> Result<BlockCount, ()> {
        Ok(BlockCount((self.0.borrow().len() / 512) as u32))
    }
}
struct Clock;
impl TimeSource for Clock {
    fn get_timestamp(&self) -> Timestamp {
        Timestamp::from_calendar(2024, 2, 29, 12, 0, 59).unwrap()
    }
}

fn w16(d: &mut [u8], o: usize, v: u16) {
    d[o..o + 2].copy_from_slice(&v.to_le_bytes());
}
fn w32(d: &mut [u8], o: usize, v: u32) {
    d[o..o + 4].copy_from_slice(&v.to_le_bytes());
}
fn r16(d: &[u8], o: usize) -> u16 {
    u16::from_le_bytes([d[o], d[o + 1]])
}

/// Byte offset of the first root directory slot, and the image.
/// MBR, one partition at LBA 1, 1 sector per cluster, 2 FATs.
fn mkfs(fat32: bool) -> (Vec<u8>, usize) {
    let clusters: u32 = if fat32 { 65600 } else { 4200 };
    let reserved: u32 = if fat32 { 32 } else { 1 };
    let esz = if fat32 { 4 } else { 2 };
    let fatsz = ((clusters + 2) * esz + 511) / 512;
    let rootsecs = if fat32 { 0 } else { 32 }; // 512 root entries
    let total = reserved + 2 * fatsz + rootsecs + clusters;
    let mut d = vec![0u8; (1 + total as usize) * 512];
    d[446 + 4] = if fat32 { 0x0C } else { 0x06 };
    w32(&mut d, 446 + 8, 1);
    w32(&mut d, 446 + 12, total);
    w16(&mut d, 510, 0xAA55);
    let b = 512;
    d[b..b + 3].copy_from_slice(&[0xEB, 0x3C, 0x90]);
    d[b + 3..b + 11].copy_from_slice(b"MSWIN4.1");
    w16(&mut d, b + 11, 512);
    d[b + 13] = 1;
    w16(&mut d, b + 14, reserved as u16);
    d[b + 16] = 2;
    w16(&mut d, b + 17, if fat32 { 0 } else { 512 });
    if total < 0x10000 {
        w16(&mut d, b + 19, total as u16);
    } else {
        w32(&mut d, b + 32, total);
    }
    d[b + 21] = 0xF8;
    w32(&mut d, b + 28, 1);
    let fat0 = b + reserved as usize * 512;
    let fat1 = fat0 + fatsz as usize * 512;
    if fat32 {
        w32(&mut d, b + 36, fatsz);
        w32(&mut d, b + 44, 2); // root cluster
        w16(&mut d, b + 48, 1); // FSInfo
        w16(&mut d, b + 50, 6);
        d[b + 66] = 0x29;
        d[b + 71..b + 82].copy_from_slice(b"NO NAME    ");
        d[b + 82..b + 90].copy_from_slice(b"FAT32   ");
        let f = b + 512;
        w32(&mut d, f, 0x41615252);
        w32(&mut d, f + 484, 0x61417272);
        w32(&mut d, f + 488, 0xFFFFFFFF);
        w32(&mut d, f + 492, 0xFFFFFFFF);
        w32(&mut d, f + 508, 0xAA550000);
        for fat in [fat0, fat1] {
            w32(&mut d, fat, 0x0FFFFFF8);
            w32(&mut d, fat + 4, 0x0FFFFFFF);
            w32(&mut d, fat + 8, 0x0FFFFFFF); // root directory: cluster 2
        }
    } else {
        w16(&mut d, b + 22, fatsz as u16);
        d[b + 38] = 0x29;
        d[b + 43..b + 54].copy_from_slice(b"NO NAME    ");
        d[b + 54..b + 62].copy_from_slice(b"FAT16   ");
        for fat in [fat0, fat1] {
            w16(&mut d, fat, 0xFFF8);
            w16(&mut d, fat + 2, 0xFFFF);
        }
    }
    w16(&mut d, b + 510, 0xAA55);
    // FAT16: the root directory follows the FATs; FAT32: cluster 2 is the first data sector
    let root = fat1 + fatsz as usize * 512;
    (d, root)
}

fn short_entry(name: &[u8; 11], attr: u8) -> [u8; 32] {
    let mut e = [0u8; 32];
    e[..11].copy_from_slice(name);
    e[11] = attr;
    w16(&mut e, 16, 0x4A21);
    w16(&mut e, 24, 0x4A21);
    e
}
/// ChkSum() of the FAT specification
fn lfn_checksum(name: &[u8]) -> u8 {
    let mut s = 0u8;
    for b in &name[..11] {
        s = ((s & 1) << 7).wrapping_add(s >> 1).wrapping_add(*b);
    }
    s
}
const LFN_POS: [usize; 13] = [1, 3, 5, 7, 9, 14, 16, 18, 20, 22, 24, 28, 30];
/// The long-name fragments for `long`, in on-disk order (last fragment first)
fn lfn_entries(long: &str, short: &[u8; 11]) -> Vec<[u8; 32]> {
    let mut u: Vec<u16> = long.encode_utf16().collect();
    if u.len() % 13 != 0 {
        u.push(0);
        while u.len() % 13 != 0 {
            u.push(0xFFFF);
        }
    }
    let n = u.len() / 13;
    (0..n)
        .rev()
        .map(|k| {
            let mut e = [0u8; 32];
            e[0] = (k as u8 + 1) | if k == n - 1 { 0x40 } else { 0 };
            e[11] = 0x0F;
            e[13] = lfn_checksum(short);
            for (j, p) in LFN_POS.iter().enumerate() {
                w16(&mut e, *p, u[k * 13 + j]);
            }
            e
        })
        .collect()
}

/// Independent reader: lists the first directory sector at `root` the way the
/// FAT specification describes: (8.3 name bytes, long name if a complete run
/// with matching checksum directly precedes the short entry).
fn list(img: &[u8], root: usize) -> Vec<(String, Option<String>)> {
    let mut out = vec![];
    let mut run: Vec<[u8; 32]> = vec![];
    for i in 0..16 {
        let e: [u8; 32] = img[root + i * 32..root + i * 32 + 32].try_into().unwrap();
        if e[0] == 0 {
            break;
        }
        if e[0] == 0xE5 {
            run.clear();
            continue;
        }
        if e[11] & 0x3F == 0x0F {
            run.push(e);
            continue;
        }
        let n = run.len();
        let mut ok = n > 0 && run[0][0] & 0x40 != 0;
        for (k, f) in run.iter().enumerate() {
            ok &= (f[0] & 0x3F) as usize == n - k && f[13] == lfn_checksum(&e);
        }
        let long = if ok {
            let mut u = vec![];
            for f in run.iter().rev() {
                for p in LFN_POS {
                    u.push(r16(f, p));
                }
            }
            if let Some(z) = u.iter().position(|&c| c == 0) {
                u.truncate(z);
            }
            Some(String::from_utf16_lossy(&u))
        } else {
            None
        };
        out.push((String::from_utf8_lossy(&e[..11]).into_owned(), long));
        run.clear();
    }
    out
}

/// root: FIRST.TXT, orphaned run "Yesterday's log.txt", deleted LOG.TXT, LAST.TXT
fn image_with_orphan(fat32: bool) -> (Disk, usize) {
    let (mut d, root) = mkfs(fat32);
    let alias = b"LOG     TXT";
    let mut slots = vec![short_entry(b"FIRST   TXT", 0x20)];
    slots.extend(lfn_entries("Yesterday's log.txt", alias));
    let mut deleted = short_entry(alias, 0x20);
    deleted[0] = 0xE5; // deleted by an implementation that knows nothing of long names
    slots.push(deleted);
    slots.push(short_entry(b"LAST    TXT", 0x20));
    for (i, s) in slots.iter().enumerate() {
        d[root + i * 32..root + i * 32 + 32].copy_from_slice(s);
    }
    // sanity: before the library touches it, no entry has a long name
    assert_eq!(
        list(&d, root),
        vec![("FIRST   TXT".to_string(), None), ("LAST    TXT".to_string(), None)]
    );
    (Disk(Rc::new(RefCell::new(d))), root)
}

fn created_file_has_no_long_name(fat32: bool) {
    let (disk, root) = image_with_orphan(fat32);
    {
        let vm: VolumeManager<Disk, Clock, 4, 4, 1> =
            VolumeManager::new_with_limits(disk.clone(), Clock, 100);
        let vol = vm.open_volume(VolumeIdx(0)).unwrap();
        let dir = vol.open_root_dir().unwrap();
        let f = dir.open_file_in_dir("LOG.TXT", Mode::ReadWriteCreate).unwrap();
        f.write(b"today").unwrap();
        f.close().unwrap();
        dir.close().unwrap();
        vol.close().unwrap();
    }
    // a completely fresh mount by the library ...
    let vm: VolumeManager<Disk, Clock, 4, 4, 1> =
        VolumeManager::new_with_limits(disk.clone(), Clock, 100);
    let vol = vm.open_volume(VolumeIdx(0)).unwrap();
    let dir = vol.open_root_dir().unwrap();
    let mut storage = [0u8; 256];
    let mut lfn = LfnBuffer::new(&mut storage);
    let mut seen_by_library = vec![];
    dir.iterate_dir_lfn(&mut lfn, |e, long| {
        seen_by_library.push((format!("{}", e.name), long.map(|s| s.to_string())))
    })
    .unwrap();
    // ... and the independent reader
    let seen_by_reader = list(&disk.0.borrow(), root);
    println!("library: {:?}\nreader:  {:?}", seen_by_library, seen_by_reader);
    assert_eq!(
        seen_by_reader,
        vec![
            ("FIRST   TXT".to_string(), None),
            ("LOG     TXT".to_string(), None), // the file the history created: 8.3 name only
            ("LAST    TXT".to_string(), None),
        ],
        "the file created as LOG.TXT is shown under a long name nobody gave it"
    );
    assert!(seen_by_library.contains(&("LOG.TXT".to_string(), None)));
}

#[test]
fn created_file_has_no_long_name_fat16() {
    created_file_has_no_long_name(false);
}

#[test]
fn created_file_has_no_long_name_fat32() {
    created_file_has_no_long_name(true);
}

/// The same through `make_dir_in_dir` (it uses the same slot search).
#[test]
fn created_directory_has_no_long_name_fat16() {
    let (disk, root) = image_with_orphan(false);
    let vm: VolumeManager<Disk, Clock, 4, 4, 1> =
        VolumeManager::new_with_limits(disk.clone(), Clock, 100);
    let vol = vm.open_volume(VolumeIdx(0)).unwrap();
    let dir = vol.open_root_dir().unwrap();
    dir.make_dir_in_dir("LOG.TXT").unwrap();
    dir.close().unwrap();
    vol.close().unwrap();
    let seen = list(&disk.0.borrow(), root);
    println!("reader: {:?}", seen);
    assert_eq!(seen[1], ("LOG     TXT".to_string(), None));
}
