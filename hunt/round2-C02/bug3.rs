//! C02 bug 3 (lower severity): a truncating open empties a file and stamps its
//! modification time, but leaves the ARCHIVE attribute bit clear.
//!
//! History: DATA.BIN (3 clusters, archive bit clear = "already backed up",
//! last written 2017-01-01) is opened with `Mode::ReadWriteTruncate` and
//! closed/dropped without a `write()`. On the medium the file now has length 0,
//! its chain is cut, and its modification time is the clock value of the open -
//! the library itself treats the truncation as the file's last write - but the
//! attribute byte still says "unchanged since the last backup".
//!
//! The FAT specification: "ATTR_ARCHIVE ... This bit is set by the FAT file
//! system driver when a file is created, renamed, or written to." Every other
//! modifying path of this crate (`write`) sets the bit together with the
//! modification time; the truncate path (volume_mgr.rs, `Mode::ReadWriteTruncate`
//! arm of `open_file_in_dir`) sets only `entry.mtime`.
//!
//! Clause of C02 concerned: "shows that file under its name with exactly the
//! flushed length and contents, the directory/file attribute, ... and a
//! modification time equal to the clock value at the last write" - attribute
//! byte and modification time of the same entry disagree on whether that last
//! write happened. (The same holds for `ReadWriteCreateOrTruncate` on an
//! existing file; and a file that is created and never written is left with
//! attribute 0x00 as well.)
//!
//! Put this file into the crate's `tests/` directory:
//!   cargo test --offline --test bug3

use embedded_sdmmc::{
    Block, BlockCount, BlockDevice, BlockIdx, Mode, TimeSource, Timestamp, VolumeIdx,
    VolumeManager,
};
use std::cell::RefCell;
use std::rc::Rc;

#[derive(Clone)]
struct Disk(Rc<RefCell<Vec<u8>>>);
impl BlockDevice for Disk {
    type Error = ();
    fn read(&self, blocks: &mut [Block], start: BlockIdx) -> Result<(), ()> {
        let d = self.0.borrow();
        for (i, b) in blocks.iter_mut().enumerate() {
            let o = (start.0 as usize + i) * 512;
            b.as_mut_slice().copy_from_slice(d.get(o..o + 512).ok_or(())?);
        }
        Ok(())
    }
    fn write(&self, blocks: &[Block], start: BlockIdx) -> Result<(), ()> {
        let mut d = self.0.borrow_mut();
        for (i, b) in blocks.iter().enumerate() {
            let o = (start.0 as usize + i) * 512;
            d.get_mut(o..o + 512).ok_or(())?.copy_from_slice(b.as_slice());
        }
        Ok(())
    }
    fn num_blocks(&self) -> Result<BlockCount, ()> {
        Ok(BlockCount((self.0.borrow().len() / 512) as u32))
    }
}
struct Clock;
impl TimeSource for Clock {
    fn get_timestamp(&self) -> Timestamp {
        Timestamp::from_calendar(2024, 2, 29, 12, 34, 59).unwrap()
    }
}
/// 2024-02-29 12:34:58 in FAT encoding (two-second granularity)
const NOW_TIME: u16 = (12 << 11) | (34 << 5) | 29;
const NOW_DATE: u16 = ((2024 - 1980) << 9) | (2 << 5) | 29;

fn w16(d: &mut [u8], o: usize, v: u16) {
    d[o..o + 2].copy_from_slice(&v.to_le_bytes());
}
fn w32(d: &mut [u8], o: usize, v: u32) {
    d[o..o + 4].copy_from_slice(&v.to_le_bytes());
}
fn r16(d: &[u8], o: usize) -> u16 {
    u16::from_le_bytes([d[o], d[o + 1]])
}
fn r32(d: &[u8], o: usize) -> u32 {
    u32::from_le_bytes([d[o], d[o + 1], d[o + 2], d[o + 3]])
}

const CLUSTERS: u32 = 4200;
const FATSZ: usize = 17;
const FAT0: usize = 2 * 512;
const ROOT: usize = FAT0 + 2 * FATSZ * 512;

/// FAT16, 1 sector per cluster; DATA.BIN = clusters 2,3,4, attribute 0x00
fn image() -> Disk {
    let total = 1 + 2 * FATSZ as u32 + 32 + CLUSTERS;
    let mut d = vec![0u8; (1 + total as usize) * 512];
    d[446 + 4] = 0x06;
    w32(&mut d, 446 + 8, 1);
    w32(&mut d, 446 + 12, total);
    w16(&mut d, 510, 0xAA55);
    let b = 512;
    d[b..b + 3].copy_from_slice(&[0xEB, 0x3C, 0x90]);
    d[b + 3..b + 11].copy_from_slice(b"MSWIN4.1");
    w16(&mut d, b + 11, 512);
    d[b + 13] = 1;
    w16(&mut d, b + 14, 1);
    d[b + 16] = 2;
    w16(&mut d, b + 17, 512);
    w16(&mut d, b + 19, total as u16);
    d[b + 21] = 0xF8;
    w16(&mut d, b + 22, FATSZ as u16);
    w32(&mut d, b + 28, 1);
    d[b + 38] = 0x29;
    d[b + 43..b + 54].copy_from_slice(b"NO NAME    ");
    d[b + 54..b + 62].copy_from_slice(b"FAT16   ");
    w16(&mut d, b + 510, 0xAA55);
    for fat in [FAT0, FAT0 + FATSZ * 512] {
        w16(&mut d, fat, 0xFFF8);
        w16(&mut d, fat + 2, 0xFFFF);
        w16(&mut d, fat + 4, 3);
        w16(&mut d, fat + 6, 4);
        w16(&mut d, fat + 8, 0xFFFF);
    }
    let mut e = [0u8; 32];
    e[..11].copy_from_slice(b"DATA    BIN");
    e[11] = 0x00; // archive clear: unchanged since the last backup
    w16(&mut e, 14, 0x1000);
    w16(&mut e, 16, 0x4A21);
    w16(&mut e, 22, 0x1000);
    w16(&mut e, 24, 0x4A21);
    w16(&mut e, 26, 2);
    w32(&mut e, 28, 1300);
    d[ROOT..ROOT + 32].copy_from_slice(&e);
    Disk(Rc::new(RefCell::new(d)))
}

fn run(write_a_byte: bool) -> [u8; 32] {
    let disk = image();
    {
        let vm: VolumeManager<Disk, Clock, 4, 4, 1> =
            VolumeManager::new_with_limits(disk.clone(), Clock, 100);
        let vol = vm.open_volume(VolumeIdx(0)).unwrap();
        let dir = vol.open_root_dir().unwrap();
        let f = dir.open_file_in_dir("DATA.BIN", Mode::ReadWriteTruncate).unwrap();
        if write_a_byte {
            f.write(b"x").unwrap();
        }
        drop(f); // wrapper Drop = close
    }
    let d = disk.0.borrow();
    d[ROOT..ROOT + 32].try_into().unwrap()
}

#[test]
fn truncating_open_marks_the_file_as_modified() {
    let e = run(false);
    println!("entry after truncate + drop: {:02x?}", e);
    // the parts the library gets right: emptied, and stamped as written now
    assert_eq!(r32(&e, 28), 0);
    assert_eq!((r16(&e, 22), r16(&e, 24)), (NOW_TIME, NOW_DATE));
    // creation time untouched
    assert_eq!((r16(&e, 14), r16(&e, 16)), (0x1000, 0x4A21));
    // and the attribute byte has to say so as well
    assert_eq!(e[11], 0x20, "archive bit after the file was emptied");
}

/// For contrast (passes): with one byte written the bit is set.
#[test]
fn truncate_then_write_sets_the_bit() {
    let e = run(true);
    assert_eq!(r32(&e, 28), 1);
    assert_eq!(e[11], 0x20);
}
