// scratch differential harness (bug hunt C02) - NOT a deliverable
#![allow(dead_code)]
use embedded_sdmmc::*;
use std::cell::{Cell, RefCell};
use std::collections::{BTreeMap, BTreeSet};
use std::rc::Rc;

// ---------------------------------------------------------------- disk
#[derive(Clone)]
struct Disk(Rc<RefCell<Vec<u8>>>);
impl BlockDevice for Disk {
    type Error = ();
    fn read(&self, blocks: &mut [Block], start: BlockIdx) -> Result<(), ()> {
        let d = self.0.borrow();
        for (i, b) in blocks.iter_mut().enumerate() {
            let o = (start.0 as usize + i) * 512;
            if o + 512 > d.len() {
                return Err(());
            }
            b.as_mut_slice().copy_from_slice(&d[o..o + 512]);
        }
        Ok(())
    }
    fn write(&self, blocks: &[Block], start: BlockIdx) -> Result<(), ()> {
        let mut d = self.0.borrow_mut();
        for (i, b) in blocks.iter().enumerate() {
            let o = (start.0 as usize + i) * 512;
            if o + 512 > d.len() {
                return Err(());
            }
            d[o..o + 512].copy_from_slice(b.as_slice());
        }
        Ok(())
    }
    fn num_blocks(&self) -> Result<BlockCount, ()> {
        Ok(BlockCount((self.0.borrow().len() / 512) as u32))
    }
}

// ---------------------------------------------------------------- clock
#[derive(Clone)]
struct Clock {
    n: Rc<Cell<u32>>,
    log: Rc<RefCell<Vec<Timestamp>>>,
}
fn stamp(i: u32) -> Timestamp {
    let special: [(u16, u8, u8, u8, u8, u8); 8] = [
        (1980, 1, 1, 0, 0, 0),
        (2107, 12, 31, 23, 59, 59),
        (2024, 2, 29, 12, 0, 59),
        (2000, 2, 29, 23, 59, 1),
        (1999, 12, 31, 23, 59, 58),
        (2038, 1, 19, 3, 14, 7),
        (2106, 2, 7, 6, 28, 15),
        (1980, 12, 31, 0, 0, 3),
    ];
    if i % 3 == 0 {
        let s = special[((i / 3) % 8) as usize];
        // vary the minute so that successive rounds differ
        let m = ((s.4 as u32 + i / 24) % 60) as u8;
        Timestamp::from_calendar(s.0, s.1, s.2, s.3, m, s.5).unwrap()
    } else {
        Timestamp::from_calendar(
            1981 + (i % 120) as u16,
            (i % 12 + 1) as u8,
            (i % 28 + 1) as u8,
            (i % 24) as u8,
            ((i * 7) % 60) as u8,
            ((i * 13 + 1) % 60) as u8,
        )
        .unwrap()
    }
}
impl TimeSource for Clock {
    fn get_timestamp(&self) -> Timestamp {
        let i = self.n.get();
        self.n.set(i + 1);
        let t = stamp(i);
        self.log.borrow_mut().push(t);
        t
    }
}
/// FAT encoding of a time stamp, from the specification
fn fat_dt(t: &Timestamp) -> (u16, u16) {
    let year = 1970 + t.year_since_1970 as u16;
    let date = ((year - 1980) << 9) | ((t.zero_indexed_month as u16 + 1) << 5) | (t.zero_indexed_day as u16 + 1);
    let time = ((t.hours as u16) << 11) | ((t.minutes as u16) << 5) | (t.seconds as u16 / 2);
    (time, date)
}

// ---------------------------------------------------------------- mkfs
#[derive(Clone, Debug)]
struct Geo {
    fat32: bool,
    spc: u32,
    reserved: u32,
    nfats: u32,
    root_entries: u32,
    clusters: u32,
    lba: u32,
    root_cluster: u32,
    fat_slack: u32,
    hint: u32,
    free: u32,
}
#[derive(Clone)]
struct Lay {
    fat32: bool,
    spc: usize,
    fat0: usize,
    fatsz: usize,
    nfats: usize,
    root_off: usize,
    root_ents: usize,
    data_off: usize,
    root_clus: u32,
    nclus: u32,
    fsinfo: usize,
}
fn w16(d: &mut [u8], o: usize, v: u16) {
    d[o..o + 2].copy_from_slice(&v.to_le_bytes());
}
fn w32(d: &mut [u8], o: usize, v: u32) {
    d[o..o + 4].copy_from_slice(&v.to_le_bytes());
}
fn r16(d: &[u8], o: usize) -> u16 {
    u16::from_le_bytes([d[o], d[o + 1]])
}
fn r32(d: &[u8], o: usize) -> u32 {
    u32::from_le_bytes([d[o], d[o + 1], d[o + 2], d[o + 3]])
}
fn mkfs(g: &Geo) -> Vec<u8> {
    let esz = if g.fat32 { 4 } else { 2 };
    let fatsz = ((g.clusters + 2) * esz + 511) / 512 + g.fat_slack;
    let rootsecs = if g.fat32 { 0 } else { (g.root_entries * 32 + 511) / 512 };
    let total = g.reserved + g.nfats * fatsz + rootsecs + g.clusters * g.spc;
    let mut d = vec![0u8; ((g.lba + total) as usize) * 512];
    // MBR
    d[446] = 0;
    d[446 + 4] = if g.fat32 { 0x0C } else { 0x06 };
    w32(&mut d, 446 + 8, g.lba);
    w32(&mut d, 446 + 12, total);
    w16(&mut d, 510, 0xAA55);
    let b = (g.lba as usize) * 512;
    d[b] = 0xEB;
    d[b + 1] = 0x3C;
    d[b + 2] = 0x90;
    d[b + 3..b + 11].copy_from_slice(b"MSWIN4.1");
    w16(&mut d, b + 11, 512);
    d[b + 13] = g.spc as u8;
    w16(&mut d, b + 14, g.reserved as u16);
    d[b + 16] = g.nfats as u8;
    w16(&mut d, b + 17, if g.fat32 { 0 } else { g.root_entries as u16 });
    if total < 0x10000 && !g.fat32 {
        w16(&mut d, b + 19, total as u16);
    } else {
        w32(&mut d, b + 32, total);
    }
    d[b + 21] = 0xF8;
    w16(&mut d, b + 24, 63);
    w16(&mut d, b + 26, 255);
    w32(&mut d, b + 28, g.lba);
    if g.fat32 {
        w32(&mut d, b + 36, fatsz);
        w32(&mut d, b + 44, g.root_cluster);
        w16(&mut d, b + 48, 1);
        w16(&mut d, b + 50, 6);
        d[b + 66] = 0x29;
        d[b + 71..b + 82].copy_from_slice(b"NO NAME    ");
        d[b + 82..b + 90].copy_from_slice(b"FAT32   ");
        // fsinfo
        let f = b + 512;
        w32(&mut d, f, 0x41615252);
        w32(&mut d, f + 484, 0x61417272);
        w32(&mut d, f + 488, g.free);
        w32(&mut d, f + 492, g.hint);
        w32(&mut d, f + 508, 0xAA550000);
    } else {
        w16(&mut d, b + 22, fatsz as u16);
        d[b + 38] = 0x29;
        d[b + 43..b + 54].copy_from_slice(b"NO NAME    ");
        d[b + 54..b + 62].copy_from_slice(b"FAT16   ");
    }
    w16(&mut d, b + 510, 0xAA55);
    let lay = layout(&d);
    let mut im = Img { d, l: lay };
    if g.fat32 {
        im.set_fat(0, 0x0FFFFFF8);
        im.set_fat(1, 0x0FFFFFFF);
        im.set_fat(g.root_cluster, 0x0FFFFFFF);
    } else {
        im.set_fat(0, 0xFFF8);
        im.set_fat(1, 0xFFFF);
    }
    im.d
}
fn layout(d: &[u8]) -> Lay {
    assert_eq!(r16(d, 510), 0xAA55);
    let lba = r32(d, 446 + 8) as usize;
    let b = lba * 512;
    assert_eq!(r16(d, b + 11), 512);
    let spc = d[b + 13] as usize;
    let reserved = r16(d, b + 14) as usize;
    let nfats = d[b + 16] as usize;
    let root_ents = r16(d, b + 17) as usize;
    let mut total = r16(d, b + 19) as usize;
    if total == 0 {
        total = r32(d, b + 32) as usize;
    }
    let mut fatsz = r16(d, b + 22) as usize;
    if fatsz == 0 {
        fatsz = r32(d, b + 36) as usize;
    }
    let rootsecs = (root_ents * 32 + 511) / 512;
    let datasec = total - (reserved + nfats * fatsz + rootsecs);
    let nclus = (datasec / spc) as u32;
    assert!(nclus >= 4085);
    let fat32 = nclus >= 65525;
    Lay {
        fat32,
        spc,
        fat0: b + reserved * 512,
        fatsz: fatsz * 512,
        nfats,
        root_off: b + (reserved + nfats * fatsz) * 512,
        root_ents,
        data_off: b + (reserved + nfats * fatsz + rootsecs) * 512,
        root_clus: if fat32 { r32(d, b + 44) } else { 0 },
        nclus,
        fsinfo: if fat32 { b + r16(d, b + 48) as usize * 512 } else { 0 },
    }
}

/// image + layout, with helpers to build a pre-populated tree (writer) and
/// to read it back (reader). Both written from the FAT specification.
struct Img {
    d: Vec<u8>,
    l: Lay,
}
#[derive(Clone, Copy, Debug, PartialEq)]
enum DirLoc {
    Root16,
    Clus(u32),
}
impl Img {
    fn bpc(&self) -> usize {
        self.l.spc * 512
    }
    fn set_fat(&mut self, n: u32, v: u32) {
        for k in 0..self.l.nfats {
            let base = self.l.fat0 + k * self.l.fatsz;
            if self.l.fat32 {
                let o = base + n as usize * 4;
                let old = r32(&self.d, o);
                w32(&mut self.d, o, (old & 0xF0000000) | (v & 0x0FFFFFFF));
            } else {
                w16(&mut self.d, base + n as usize * 2, v as u16);
            }
        }
    }
    fn fat_k(&self, k: usize, n: u32) -> u32 {
        let base = self.l.fat0 + k * self.l.fatsz;
        if self.l.fat32 {
            r32(&self.d, base + n as usize * 4) & 0x0FFFFFFF
        } else {
            r16(&self.d, base + n as usize * 2) as u32
        }
    }
    fn fat(&self, n: u32) -> u32 {
        self.fat_k(0, n)
    }
    fn eoc(&self, v: u32) -> bool {
        if self.l.fat32 {
            v >= 0x0FFFFFF8
        } else {
            v >= 0xFFF8
        }
    }
    fn bad(&self) -> u32 {
        if self.l.fat32 {
            0x0FFFFFF7
        } else {
            0xFFF7
        }
    }
    fn clus_off(&self, n: u32) -> usize {
        assert!(n >= 2 && n < self.l.nclus + 2, "cluster {} out of range", n);
        self.l.data_off + (n as usize - 2) * self.bpc()
    }
    fn chain(&self, start: u32) -> Result<Vec<u32>, String> {
        let mut v = vec![];
        let mut c = start;
        if c == 0 {
            return Ok(v);
        }
        loop {
            if c < 2 || c >= self.l.nclus + 2 {
                return Err(format!("chain from {} reaches invalid cluster {}", start, c));
            }
            if v.len() > self.l.nclus as usize {
                return Err(format!("chain from {} loops", start));
            }
            v.push(c);
            let n = self.fat(c);
            if self.eoc(n) {
                return Ok(v);
            }
            if n == 0 {
                return Err(format!("chain from {} runs into free cluster after {}", start, c));
            }
            c = n;
        }
    }
    /// byte offsets of all 32-byte slots of a directory
    fn slots(&self, loc: DirLoc) -> Result<Vec<usize>, String> {
        let mut v = vec![];
        match loc {
            DirLoc::Root16 => {
                for i in 0..self.l.root_ents {
                    v.push(self.l.root_off + i * 32);
                }
            }
            DirLoc::Clus(c) => {
                for cl in self.chain(c)? {
                    let o = self.clus_off(cl);
                    for i in 0..self.bpc() / 32 {
                        v.push(o + i * 32);
                    }
                }
            }
        }
        Ok(v)
    }
    fn root(&self) -> DirLoc {
        if self.l.fat32 {
            DirLoc::Clus(self.l.root_clus)
        } else {
            DirLoc::Root16
        }
    }
    // ------------- writer helpers
    fn alloc_chain(&mut self, clusters: &[u32]) {
        for w in clusters.windows(2) {
            assert_eq!(self.fat(w[0]), 0);
            self.set_fat(w[0], w[1]);
        }
        let last = *clusters.last().unwrap();
        assert_eq!(self.fat(last), 0);
        self.set_fat(last, 0x0FFFFFFF);
    }
    fn put_raw(&mut self, loc: DirLoc, slot: usize, raw: &[u8; 32]) {
        let s = self.slots(loc).unwrap();
        let o = s[slot];
        self.d[o..o + 32].copy_from_slice(raw);
    }
    fn write_data(&mut self, clusters: &[u32], data: &[u8]) {
        let bpc = self.bpc();
        for (i, c) in clusters.iter().enumerate() {
            let o = self.clus_off(*c);
            let lo = i * bpc;
            if lo >= data.len() {
                break;
            }
            let hi = (lo + bpc).min(data.len());
            self.d[o..o + hi - lo].copy_from_slice(&data[lo..hi]);
        }
    }
}
fn mk_entry(name: &[u8; 11], attr: u8, b12: u8, tenth: u8, ct: u16, cd: u16, ad: u16, wt: u16, wd: u16, clus: u32, size: u32) -> [u8; 32] {
    let mut e = [0u8; 32];
    e[..11].copy_from_slice(name);
    e[11] = attr;
    e[12] = b12;
    e[13] = tenth;
    w16(&mut e, 14, ct);
    w16(&mut e, 16, cd);
    w16(&mut e, 18, ad);
    w16(&mut e, 20, (clus >> 16) as u16);
    w16(&mut e, 22, wt);
    w16(&mut e, 24, wd);
    w16(&mut e, 26, clus as u16);
    w32(&mut e, 28, size);
    e
}
fn lfn_csum(name: &[u8; 11]) -> u8 {
    let mut s = 0u8;
    for b in name {
        s = ((s & 1) << 7).wrapping_add(s >> 1).wrapping_add(*b);
    }
    s
}
/// long-name fragments for `long`, in on-disk order (last fragment first)
fn mk_lfn(long: &str, short: &[u8; 11]) -> Vec<[u8; 32]> {
    let mut u: Vec<u16> = long.encode_utf16().collect();
    if u.len() % 13 != 0 {
        u.push(0);
        while u.len() % 13 != 0 {
            u.push(0xFFFF);
        }
    }
    let n = u.len() / 13;
    let cs = lfn_csum(short);
    let mut out = vec![];
    for k in (0..n).rev() {
        let mut e = [0u8; 32];
        e[0] = (k as u8 + 1) | if k == n - 1 { 0x40 } else { 0 };
        e[11] = 0x0F;
        e[13] = cs;
        let pos = [1, 3, 5, 7, 9, 14, 16, 18, 20, 22, 24, 28, 30];
        for (j, p) in pos.iter().enumerate() {
            w16(&mut e, *p, u[k * 13 + j]);
        }
        out.push(e);
    }
    out
}

// ---------------------------------------------------------------- reader
#[derive(Clone, Debug, PartialEq)]
struct Node {
    off: usize,
    raw: [u8; 32],
    lfn: Option<String>,
    lfn_raw: Vec<[u8; 32]>,
    chain: Vec<u32>,
    data: Vec<u8>, // file: contents (size bytes); dir: the raw '.' and '..' entries
    is_dir: bool,
}
impl Node {
    fn attr(&self) -> u8 {
        self.raw[11]
    }
    fn size(&self) -> u32 {
        r32(&self.raw, 28)
    }
    fn clus(&self, fat32: bool) -> u32 {
        let lo = r16(&self.raw, 26) as u32;
        if fat32 {
            ((r16(&self.raw, 20) as u32) << 16) | lo
        } else {
            lo
        }
    }
}
fn short_display(n: &[u8]) -> String {
    let mut s = String::new();
    for (i, &c) in n[..8].iter().enumerate() {
        if c != b' ' {
            let c = if i == 0 && c == 0x05 { 0xE5 } else { c };
            s.push(c as char);
        }
    }
    let mut ext = String::new();
    for &c in &n[8..11] {
        if c != b' ' {
            ext.push(c as char);
        }
    }
    if !ext.is_empty() {
        s.push('.');
        s.push_str(&ext);
    }
    s
}
type Snap = BTreeMap<String, Node>;
impl Img {
    fn list(&self, loc: DirLoc) -> Result<Vec<Node>, String> {
        let mut out = vec![];
        let mut run: Vec<[u8; 32]> = vec![];
        for o in self.slots(loc)? {
            let mut raw = [0u8; 32];
            raw.copy_from_slice(&self.d[o..o + 32]);
            if raw[0] == 0 {
                break;
            }
            if raw[0] == 0xE5 {
                run.clear();
                continue;
            }
            if raw[11] & 0x3F == 0x0F {
                run.push(raw);
                continue;
            }
            // short entry: does the run in front of it form its long name?
            let mut lfn = None;
            if !run.is_empty() {
                let cs = lfn_csum(raw[..11].try_into().unwrap());
                let n = run.len();
                let mut ok = run[0][0] & 0x40 != 0 && (run[0][0] & 0x3F) as usize == n;
                for (k, f) in run.iter().enumerate() {
                    if (f[0] & 0x3F) as usize != n - k || f[13] != cs || (k > 0 && f[0] & 0x40 != 0) {
                        ok = false;
                    }
                }
                if ok {
                    let mut u = vec![];
                    for f in run.iter().rev() {
                        for p in [1, 3, 5, 7, 9, 14, 16, 18, 20, 22, 24, 28, 30] {
                            u.push(r16(f, p));
                        }
                    }
                    if let Some(z) = u.iter().position(|&x| x == 0) {
                        u.truncate(z);
                    }
                    lfn = Some(String::from_utf16_lossy(&u));
                }
            }
            out.push(Node {
                off: o,
                raw,
                lfn: lfn.clone(),
                lfn_raw: if lfn.is_some() { run.clone() } else { vec![] },
                chain: vec![],
                data: vec![],
                is_dir: raw[11] & 0x10 != 0,
            });
            run.clear();
        }
        Ok(out)
    }
    fn walk(&self) -> Result<Snap, String> {
        let mut snap = Snap::new();
        let mut seen = BTreeSet::new();
        self.walk_dir(self.root(), "", &mut snap, &mut seen, 0)?;
        Ok(snap)
    }
    fn walk_dir(&self, loc: DirLoc, prefix: &str, snap: &mut Snap, seen: &mut BTreeSet<u32>, parent_clus: u32) -> Result<(), String> {
        if let DirLoc::Clus(c) = loc {
            for cl in self.chain(c)? {
                if !seen.insert(cl) {
                    return Err(format!("cluster {} used twice (dir {})", cl, prefix));
                }
            }
        }
        for mut n in self.list(loc)? {
            let name = short_display(&n.raw[..11]);
            if n.attr() & 0x08 != 0 && n.attr() & 0x10 == 0 {
                snap.insert(format!("{}/<label>{}", prefix, name), n);
                continue;
            }
            if name == "." || name == ".." {
                if prefix.is_empty() {
                    return Err(format!("dot entry in root"));
                }
                // checked by the parent (data of the directory node)
                continue;
            }
            let path = format!("{}/{}", prefix, name);
            if snap.contains_key(&path) {
                return Err(format!("duplicate name {}", path));
            }
            let c = n.clus(self.l.fat32);
            if !self.l.fat32 && r16(&n.raw, 20) != 0 {
                // FAT16: high word must be zero
                return Err(format!("{}: FAT16 entry with high cluster word {:#x}", path, r16(&n.raw, 20)));
            }
            if n.is_dir {
                if c < 2 {
                    return Err(format!("{}: directory with cluster {}", path, c));
                }
                n.chain = self.chain(c).map_err(|e| format!("{}: {}", path, e))?;
                let o = self.clus_off(c);
                n.data = self.d[o..o + 64].to_vec();
                // check dot entries
                let dot = &self.d[o..o + 32];
                let dd = &self.d[o + 32..o + 64];
                if &dot[..11] != b".          " || &dd[..11] != b"..         " {
                    return Err(format!("{}: dot entries missing", path));
                }
                let dc = ((r16(dot, 20) as u32) << 16) | r16(dot, 26) as u32;
                let ddc = ((r16(dd, 20) as u32) << 16) | r16(dd, 26) as u32;
                if dc != c {
                    return Err(format!("{}: '.' points at {} not {}", path, dc, c));
                }
                if ddc != parent_clus {
                    return Err(format!("{}: '..' points at {} not {}", path, ddc, parent_clus));
                }
                if dot[11] & 0x10 == 0 || dd[11] & 0x10 == 0 || r32(dot, 28) != 0 || r32(dd, 28) != 0 {
                    return Err(format!("{}: dot entries attr/size wrong", path));
                }
                if n.size() != 0 {
                    return Err(format!("{}: directory with size {}", path, n.size()));
                }
                snap.insert(path.clone(), n);
                self.walk_dir(DirLoc::Clus(c), &path, snap, seen, c)?;
            } else {
                let size = n.size() as usize;
                if c != 0 {
                    n.chain = self.chain(c).map_err(|e| format!("{}: {}", path, e))?;
                }
                for cl in &n.chain {
                    if !seen.insert(*cl) {
                        return Err(format!("cluster {} used twice (file {})", cl, path));
                    }
                }
                if n.chain.len() * self.bpc() < size {
                    return Err(format!("{}: size {} but chain of {} clusters", path, size, n.chain.len()));
                }
                let mut data = vec![];
                for cl in &n.chain {
                    let o = self.clus_off(*cl);
                    data.extend_from_slice(&self.d[o..o + self.bpc()]);
                }
                data.truncate(size);
                n.data = data;
                snap.insert(path, n);
            }
        }
        Ok(())
    }
    /// global checks: FAT copies equal; every allocated cluster is referenced
    fn check_global(&self, snap: &Snap, fsinfo: bool, lost: bool) -> Result<(), String> {
        for k in 1..self.l.nfats {
            if self.d[self.l.fat0..self.l.fat0 + self.l.fatsz] != self.d[self.l.fat0 + k * self.l.fatsz..self.l.fat0 + (k + 1) * self.l.fatsz] {
                return Err(format!("FAT copy {} differs from copy 0", k));
            }
        }
        let mut used = BTreeSet::new();
        if self.l.fat32 {
            for c in self.chain(self.l.root_clus)? {
                used.insert(c);
            }
        }
        for n in snap.values() {
            for c in &n.chain {
                used.insert(*c);
            }
        }
        let mut free = 0;
        for c in 2..self.l.nclus + 2 {
            let v = self.fat(c);
            if v == 0 {
                free += 1;
                if used.contains(&c) {
                    return Err(format!("cluster {} in use but free in FAT", c));
                }
            } else if lost && v != self.bad() && !used.contains(&c) {
                return Err(format!("cluster {} allocated ({:#x}) but not referenced (lost)", c, v));
            }
        }
        if self.l.fat32 && fsinfo {
            let fc = r32(&self.d, self.l.fsinfo + 488);
            let hint = r32(&self.d, self.l.fsinfo + 492);
            if fc != 0xFFFFFFFF && fc != free {
                return Err(format!("FSInfo free count {} but {} free", fc, free));
            }
            if hint != 0xFFFFFFFF && (hint < 2 || hint >= self.l.nclus + 2) {
                return Err(format!("FSInfo hint {} out of range", hint));
            }
        }
        Ok(())
    }
}

// ---------------------------------------------------------------- model
#[derive(Clone, Debug)]
struct MNode {
    is_dir: bool,
    name: [u8; 11],
    attr: u8,
    b12_20: [u8; 8],
    wtime: u16,
    wdate: u16,
    content: Vec<u8>,
    lfn: Option<String>,
    created_here: bool,
}
struct OpenF {
    raw: RawFile,
    path: String,
    content: Vec<u8>,
    pos: usize,
    readonly: bool,
    dirty: bool,
    pending_m: Option<(u16, u16)>,
}
type VM = VolumeManager<Disk, Clock, 4, 4, 1>;
struct H {
    vm: VM,
    vol: RawVolume,
    disk: Disk,
    clock: Clock,
    model: BTreeMap<String, MNode>,
    prev: Snap,
    open: Vec<OpenF>,
    lay: Lay,
    trace: Vec<String>,
    strict_fail_mtime: bool,
    fsinfo_now: bool,
}
fn norm_dir(dir: &str) -> String {
    let mut v: Vec<&str> = vec![];
    for c in dir.split('/').filter(|c| !c.is_empty()) {
        if c == "." {
        } else if c == ".." {
            v.pop();
        } else {
            v.push(c);
        }
    }
    let mut s = String::new();
    for c in v {
        s.push('/');
        s.push_str(c);
    }
    s
}
fn short_from(name: &str) -> Option<[u8; 11]> {
    // independent 8.3 conversion for the model (Latin-1, upper-cased)
    let mut out = [b' '; 11];
    let (base, ext) = match name.rfind('.') {
        Some(i) => (&name[..i], &name[i + 1..]),
        None => (name, ""),
    };
    let up = |c: char| -> u8 {
        let b = c as u32 as u8;
        match b {
            b'a'..=b'z' => b - 32,
            0xE0..=0xF6 | 0xF8..=0xFE => b - 32,
            _ => b,
        }
    };
    if base.chars().count() > 8 || ext.chars().count() > 3 || base.is_empty() {
        return None;
    }
    for (i, c) in base.chars().enumerate() {
        out[i] = up(c);
    }
    for (i, c) in ext.chars().enumerate() {
        out[8 + i] = up(c);
    }
    if out[0] == 0xE5 {
        out[0] = 0x05;
    }
    Some(out)
}
impl H {
    fn new(img: Vec<u8>) -> H {
        let lay = layout(&img);
        let disk = Disk(Rc::new(RefCell::new(img)));
        let clock = Clock { n: Rc::new(Cell::new(0)), log: Rc::new(RefCell::new(vec![])) };
        let vm: VM = VolumeManager::new_with_limits(disk.clone(), clock.clone(), 100);
        let vol = vm.open_raw_volume(VolumeIdx(0)).expect("mount");
        let im = Img { d: disk.0.borrow().clone(), l: lay.clone() };
        let prev = im.walk().expect("initial image walk");
        im.check_global(&prev, true, true).expect("initial image global");
        let mut model = BTreeMap::new();
        for (p, n) in &prev {
            model.insert(
                p.clone(),
                MNode {
                    is_dir: n.is_dir,
                    name: n.raw[..11].try_into().unwrap(),
                    attr: n.attr(),
                    b12_20: n.raw[12..20].try_into().unwrap(),
                    wtime: r16(&n.raw, 22),
                    wdate: r16(&n.raw, 24),
                    content: n.data.clone(),
                    lfn: n.lfn.clone(),
                    created_here: false,
                },
            );
        }
        H { vm, vol, disk, clock, model, prev, open: vec![], lay, trace: vec![], strict_fail_mtime: std::env::var("STRICT").is_ok(), fsinfo_now: false }
    }
    fn img(&self) -> Img {
        Img { d: self.disk.0.borrow().clone(), l: self.lay.clone() }
    }
    fn take_stamps(&self) -> Vec<Timestamp> {
        std::mem::take(&mut *self.clock.log.borrow_mut())
    }
    fn open_dir_path(&self, dir: &str) -> Result<RawDirectory, String> {
        let mut d = self.vm.open_root_dir(self.vol).map_err(|e| format!("open_root_dir: {:?}", e))?;
        for comp in dir.split('/').filter(|c| !c.is_empty()) {
            let n = self.vm.open_dir(d, comp);
            self.vm.close_dir(d).unwrap();
            d = n.map_err(|e| format!("open_dir {}: {:?}", comp, e))?;
        }
        Ok(d)
    }
    fn fail(&self, msg: String) -> String {
        let mut s = String::new();
        for t in &self.trace {
            s.push_str(t);
            s.push('\n');
        }
        s.push_str("FAIL: ");
        s.push_str(&msg);
        s
    }
    /// compare the medium with the model; `touched` = paths the last op was allowed to change
    fn check(&mut self, touched: &[String]) -> Result<(), String> {
        let d = std::mem::take(&mut *self.disk.0.borrow_mut());
        let im = Img { d, l: self.lay.clone() };
        let r = self.check_inner(&im, touched);
        *self.disk.0.borrow_mut() = im.d;
        r
    }
    fn check_inner(&mut self, im: &Img, touched: &[String]) -> Result<(), String> {
        let snap = im.walk().map_err(|e| self.fail(format!("reader: {}", e)))?;
        im.check_global(&snap, self.fsinfo_now && !self.open.iter().any(|o| o.dirty), !self.open.iter().any(|o| o.dirty)).map_err(|e| self.fail(format!("global: {}", e)))?;
        // 1. same set of names as the model
        let mk: Vec<&String> = self.model.keys().collect();
        let sk: Vec<&String> = snap.keys().collect();
        if mk != sk {
            return Err(self.fail(format!("names differ:\n model {:?}\n disk  {:?}", mk, sk)));
        }
        // 2. untouched objects are byte-identical to the previous snapshot
        for (p, n) in &snap {
            if touched.contains(p) {
                continue;
            }
            // an open dirty file may have its data area modified; compare all but data
            let open_dirty = self.open.iter().any(|o| &o.path == p && o.dirty);
            match self.prev.get(p) {
                None => return Err(self.fail(format!("{} appeared but was not touched", p))),
                Some(o) => {
                    if open_dirty {
                        if o.raw != n.raw || o.lfn_raw != n.lfn_raw || o.off != n.off {
                            return Err(self.fail(format!("untouched(open) {} changed entry:\n was {:02x?}\n now {:02x?}", p, o.raw, n.raw)));
                        }
                    } else if n.is_dir && o.is_dir && o.raw == n.raw && o.lfn_raw == n.lfn_raw && o.off == n.off && o.data == n.data && n.chain.starts_with(&o.chain) {
                        // a directory may grow
                    } else if o != n {
                        return Err(self.fail(format!(
                            "untouched {} changed:\n was raw {:02x?} chain {:?} lfn {:?} len {}\n now raw {:02x?} chain {:?} lfn {:?} len {} data_equal={}",
                            p, o.raw, o.chain, o.lfn, o.data.len(), n.raw, n.chain, n.lfn, n.data.len(), o.data == n.data
                        )));
                    }
                }
            }
        }
        // 3. every object agrees with the model
        for (p, m) in &self.model {
            let n = &snap[p];
            let open_dirty = self.open.iter().any(|o| &o.path == p && o.dirty);
            let mut errs = vec![];
            if n.raw[..11] != m.name {
                errs.push(format!("name {:02x?} want {:02x?}", &n.raw[..11], m.name));
            }
            if n.attr() != m.attr {
                errs.push(format!("attr {:#x} want {:#x}", n.attr(), m.attr));
            }
            if n.raw[12..20] != m.b12_20 {
                errs.push(format!("bytes12..20 {:02x?} want {:02x?}", &n.raw[12..20], m.b12_20));
            }
            if (r16(&n.raw, 22), r16(&n.raw, 24)) != (m.wtime, m.wdate) {
                errs.push(format!("mtime {:04x}/{:04x} want {:04x}/{:04x}", r16(&n.raw, 22), r16(&n.raw, 24), m.wtime, m.wdate));
            }
            if n.lfn != m.lfn {
                errs.push(format!("long name {:?} want {:?}", n.lfn, m.lfn));
            }
            if !m.is_dir {
                if n.size() as usize != m.content.len() {
                    errs.push(format!("size {} want {}", n.size(), m.content.len()));
                } else if !open_dirty && n.data != m.content {
                    let first = n.data.iter().zip(m.content.iter()).position(|(a, b)| a != b);
                    errs.push(format!("content differs first at {:?}", first));
                }
                let need = (m.content.len() + im.bpc() - 1) / im.bpc();
                if !open_dirty && n.chain.len() != need && !(m.content.is_empty() && n.chain.len() == 1) {
                    errs.push(format!("chain len {} want {}", n.chain.len(), need));
                }
            }
            if !errs.is_empty() {
                return Err(self.fail(format!("{}: {}  (raw {:02x?})", p, errs.join("; "), n.raw)));
            }
        }
        self.prev = snap;
        Ok(())
    }

    // ------------------------------------------------------------ ops
    fn op_open(&mut self, dir: &str, name: &str, mode: Mode) -> Result<Option<usize>, String> {
        let raw_dir = dir;
        let dir_n = norm_dir(dir);
        let dir: &str = &dir_n;
        self.trace.push(format!("open {} {} {:?}", dir, name, mode));
        self.take_stamps();
        let d = self.open_dir_path(raw_dir).map_err(|e| self.fail(e))?;
        let r = self.vm.open_file_in_dir(d, name, mode);
        self.vm.close_dir(d).unwrap();
        let stamps = self.take_stamps();
        let sn = short_from(name);
        let path = sn.map(|s| format!("{}/{}", dir, short_display(&s)));
        match r {
            Ok(raw) => {
                let path = path.unwrap();
                let sn = sn.unwrap();
                let exists = self.model.contains_key(&path);
                let mut touched = vec![];
                if !exists {
                    if mode == Mode::ReadOnly || mode == Mode::ReadWriteAppend || mode == Mode::ReadWriteTruncate {
                        return Err(self.fail(format!("opened non-existent {}", path)));
                    }
                    if stamps.len() != 1 {
                        return Err(self.fail(format!("create took {} time stamps", stamps.len())));
                    }
                    let (t, dte) = fat_dt(&stamps[0]);
                    let mut b = [0u8; 8];
                    w16(&mut b, 2, t);
                    w16(&mut b, 4, dte);
                    self.model.insert(
                        path.clone(),
                        MNode { is_dir: false, name: sn, attr: 0, b12_20: b, wtime: t, wdate: dte, content: vec![], lfn: None, created_here: true },
                    );
                    touched.push(path.clone());
                } else if mode == Mode::ReadWriteTruncate || mode == Mode::ReadWriteCreateOrTruncate {
                    if stamps.len() != 1 {
                        return Err(self.fail(format!("truncate took {} time stamps", stamps.len())));
                    }
                    let (t, dte) = fat_dt(&stamps[0]);
                    let m = self.model.get_mut(&path).unwrap();
                    m.content.clear();
                    m.wtime = t;
                    m.wdate = dte;
                    touched.push(path.clone());
                } else if mode == Mode::ReadWriteCreate {
                    return Err(self.fail(format!("create of existing {} succeeded", path)));
                }
                let content = self.model[&path].content.clone();
                let pos = if mode == Mode::ReadWriteAppend || (mode == Mode::ReadWriteCreateOrAppend) { content.len() } else { 0 };
                self.open.push(OpenF { raw, path, content, pos, readonly: mode == Mode::ReadOnly, dirty: false, pending_m: None });
                self.trace.push(format!("  -> ok, stamps {:?}", stamps));
                self.check(&touched)?;
                Ok(Some(self.open.len() - 1))
            }
            Err(e) => {
                self.trace.push(format!("  -> err {:?}", e));
                self.check(&[])?;
                Ok(None)
            }
        }
    }
    fn op_write(&mut self, h: usize, data: &[u8]) -> Result<(), String> {
        self.trace.push(format!("write h{} ({}) {} bytes at {}", h, self.open[h].path, data.len(), self.open[h].pos));
        self.take_stamps();
        let raw = self.open[h].raw;
        let r = self.vm.write(raw, data);
        let stamps = self.take_stamps();
        let len_after = self.vm.file_length(raw).unwrap() as usize;
        let pos_after = self.vm.file_offset(raw).unwrap() as usize;
        let o = &mut self.open[h];
        let old_len = o.content.len();
        match r {
            Ok(()) => {
                if o.readonly {
                    return Err(self.fail("write on read-only handle succeeded".into()));
                }
                let end = o.pos + data.len();
                if o.content.len() < end {
                    o.content.resize(end, 0);
                }
                o.content[o.pos..end].copy_from_slice(data);
                o.pos = end;
                if !data.is_empty() {
                    o.dirty = true;
                    if stamps.len() != 1 {
                        let n = stamps.len();
                        return Err(self.fail(format!("write took {} time stamps", n)));
                    }
                    o.pending_m = Some(fat_dt(&stamps[0]));
                } else if !stamps.is_empty() {
                    return Err(self.fail("empty write took a time stamp".into()));
                }
                if len_after != o.content.len() || pos_after != o.pos {
                    let (a, b) = (o.content.len(), o.pos);
                    return Err(self.fail(format!("after write length {} pos {} want {} {}", len_after, pos_after, a, b)));
                }
                self.trace.push(format!("  -> ok, stamps {:?}", stamps));
            }
            Err(e) => {
                // how much was stored?
                let stored = pos_after - o.pos;
                let end = o.pos + stored;
                if o.content.len() < end {
                    o.content.resize(end, 0);
                }
                o.content[o.pos..end].copy_from_slice(&data[..stored]);
                o.pos = end;
                if len_after != o.content.len().max(old_len) {
                    let a = o.content.len();
                    return Err(self.fail(format!("after failed write length {} want {}", len_after, a)));
                }
                if stored > 0 {
                    o.dirty = true;
                    if stamps.len() != 1 {
                        let n = stamps.len();
                        return Err(self.fail(format!("failed write took {} time stamps", n)));
                    }
                    o.pending_m = Some(fat_dt(&stamps[0]));
                } else if !stamps.is_empty() && !o.readonly {
                    // a write that stored nothing
                    if self.strict_fail_mtime {
                        // remember: library may stamp; we say nothing was written so mtime must stay
                    } else {
                        o.dirty = true;
                        o.pending_m = Some(fat_dt(&stamps[0]));
                    }
                }
                self.trace.push(format!("  -> err {:?}, stored {}, stamps {:?}", e, stored, stamps));
            }
        }
        let p = self.open[h].path.clone();
        let _ = p;
        self.check(&[])
    }
    fn op_seek(&mut self, h: usize, pos: usize) -> Result<(), String> {
        self.trace.push(format!("seek h{} to {}", h, pos));
        let raw = self.open[h].raw;
        let r = self.vm.file_seek_from_start(raw, pos as u32);
        if pos <= self.open[h].content.len() {
            if r.is_err() {
                return Err(self.fail(format!("seek failed {:?}", r)));
            }
            self.open[h].pos = pos;
        } else if r.is_ok() {
            return Err(self.fail("seek past end succeeded".into()));
        }
        Ok(())
    }
    fn apply_flush(&mut self, h: usize) -> Vec<String> {
        let o = &mut self.open[h];
        let mut touched = vec![];
        if o.dirty {
            let m = self.model.get_mut(&o.path).unwrap();
            m.content = o.content.clone();
            if let Some((t, d)) = o.pending_m {
                m.wtime = t;
                m.wdate = d;
                m.attr |= 0x20;
            }
            o.dirty = false;
            touched.push(o.path.clone());
        }
        touched
    }
    fn op_flush(&mut self, h: usize) -> Result<(), String> {
        self.trace.push(format!("flush h{} ({})", h, self.open[h].path));
        self.take_stamps();
        let raw = self.open[h].raw;
        let r = self.vm.flush_file(raw);
        if let Err(e) = r {
            return Err(self.fail(format!("flush failed {:?}", e)));
        }
        if !self.take_stamps().is_empty() {
            return Err(self.fail("flush took a time stamp".into()));
        }
        let touched = self.apply_flush(h);
        self.fsinfo_now = true;
        let r = self.check(&touched);
        self.fsinfo_now = false;
        r
    }
    fn op_close(&mut self, h: usize, by_drop: bool) -> Result<(), String> {
        self.trace.push(format!("close h{} ({}) drop={}", h, self.open[h].path, by_drop));
        self.take_stamps();
        let raw = self.open[h].raw;
        if by_drop {
            let f = raw.to_file(&self.vm);
            drop(f);
        } else {
            let r = self.vm.close_file(raw);
            if let Err(e) = r {
                return Err(self.fail(format!("close failed {:?}", e)));
            }
        }
        if !self.take_stamps().is_empty() {
            return Err(self.fail("close took a time stamp".into()));
        }
        let touched = self.apply_flush(h);
        self.open.remove(h);
        self.fsinfo_now = true;
        let r = self.check(&touched);
        self.fsinfo_now = false;
        r
    }
    fn op_delete(&mut self, dir: &str, name: &str) -> Result<(), String> {
        let raw_dir = dir;
        let dir_n = norm_dir(dir);
        let dir: &str = &dir_n;
        self.trace.push(format!("delete {} {}", dir, name));
        let d = self.open_dir_path(raw_dir).map_err(|e| self.fail(e))?;
        let r = self.vm.delete_file_in_dir(d, name);
        self.vm.close_dir(d).unwrap();
        let path = short_from(name).map(|s| format!("{}/{}", dir, short_display(&s)));
        match r {
            Ok(()) => {
                let path = path.unwrap();
                if self.model.remove(&path).is_none() {
                    return Err(self.fail(format!("deleted non-existent {}", path)));
                }
                if self.open.iter().any(|o| o.path == path) {
                    return Err(self.fail(format!("deleted open file {}", path)));
                }
                self.prev.remove(&path);
                self.trace.push("  -> ok".into());
                self.check(&[path])
            }
            Err(e) => {
                self.trace.push(format!("  -> err {:?}", e));
                self.check(&[])
            }
        }
    }
    fn op_mkdir(&mut self, dir: &str, name: &str) -> Result<(), String> {
        let raw_dir = dir;
        let dir_n = norm_dir(dir);
        let dir: &str = &dir_n;
        self.trace.push(format!("mkdir {} {}", dir, name));
        self.take_stamps();
        let d = self.open_dir_path(raw_dir).map_err(|e| self.fail(e))?;
        let r = self.vm.make_dir_in_dir(d, name);
        self.vm.close_dir(d).unwrap();
        let stamps = self.take_stamps();
        match r {
            Ok(()) => {
                let sn = short_from(name).unwrap();
                let path = format!("{}/{}", dir, short_display(&sn));
                if self.model.contains_key(&path) {
                    return Err(self.fail(format!("mkdir of existing {}", path)));
                }
                let st = stamps.last().unwrap();
                let (t, dte) = fat_dt(st);
                let mut b = [0u8; 8];
                w16(&mut b, 2, t);
                w16(&mut b, 4, dte);
                self.model.insert(path.clone(), MNode { is_dir: true, name: sn, attr: 0x10, b12_20: b, wtime: t, wdate: dte, content: vec![], lfn: None, created_here: true });
                self.trace.push(format!("  -> ok, stamps {:?}", stamps));
                self.check(&[path.clone()])?;
                // dot entries: times equal to the directory's own entry
                let n = &self.prev[&path];
                let dot = &n.data[..32];
                let dd = &n.data[32..64];
                for (nm, e) in [(".", dot), ("..", dd)] {
                    if e[14..18] != n.raw[14..18] || e[22..26] != n.raw[22..26] {
                        self.trace.push(format!("  NOTE: '{}' of {} has times {:02x?}/{:02x?}, entry has {:02x?}/{:02x?}", nm, path, &e[14..18], &e[22..26], &n.raw[14..18], &n.raw[22..26]));
                    }
                }
                Ok(())
            }
            Err(e) => {
                self.trace.push(format!("  -> err {:?}", e));
                self.check(&[])
            }
        }
    }
    fn op_remount(&mut self) -> Result<(), String> {
        if !self.open.is_empty() {
            return Ok(());
        }
        self.trace.push("remount".into());
        self.vm.close_volume(self.vol).map_err(|e| self.fail(format!("close_volume {:?}", e)))?;
        self.fsinfo_now = true;
        let r = self.check(&[]);
        self.fsinfo_now = false;
        r?;
        self.vol = self.vm.open_raw_volume(VolumeIdx(0)).map_err(|e| self.fail(format!("reopen {:?}", e)))?;
        // and the library's own view agrees with the model
        self.lib_view()
    }
    /// the library, freshly mounted, reads every file of the model
    fn lib_listing(&mut self) -> Result<(), String> {
        // the library's fresh-mount listing of every directory against the reader's
        let mut dirs: Vec<String> = vec![String::new()];
        for (p, m) in &self.model {
            if m.is_dir {
                dirs.push(p.clone());
            }
        }
        let fat32 = self.lay.fat32;
        for dir in dirs {
            let d = self.open_dir_path(&dir).map_err(|e| self.fail(e))?;
            let mut storage = [0u8; 800];
            let mut lb = LfnBuffer::new(&mut storage);
            let mut got: Vec<(String, Option<String>, u32, u32, (u16, u16), (u16, u16))> = vec![];
            let enc = |t: &Timestamp| -> (u16, u16) {
                let b = t.serialize_to_fat();
                (u16::from_le_bytes([b[0], b[1]]), u16::from_le_bytes([b[2], b[3]]))
            };
            let mut attrs = vec![];
            self.vm
                .iterate_dir_lfn(d, &mut lb, |e, l| {
                    let nm = format!("{}", e.name);
                    if nm == "." || nm == ".." {
                        return;
                    }
                    attrs.push(e.attributes);
                    got.push((nm, l.map(|s| s.to_string()), e.size, 0, enc(&e.mtime), enc(&e.ctime)));
                })
                .map_err(|e| self.fail(format!("iterate {:?}", e)))?;
            self.vm.close_dir(d).unwrap();
            let want: Vec<(String, Option<String>, u32, u32, (u16, u16), (u16, u16))> = {
                let dd = std::mem::take(&mut *self.disk.0.borrow_mut());
                let im = Img { d: dd, l: self.lay.clone() };
                let loc = if dir.is_empty() { im.root() } else { DirLoc::Clus(self.prev[&dir].clus(fat32)) };
                let l = im.list(loc);
                *self.disk.0.borrow_mut() = im.d;
                l.map_err(|e| self.fail(e))?
                    .into_iter()
                    .filter(|n| &n.raw[..2] != b". " && &n.raw[..3] != b".. ")
                    .map(|n| (short_display(&n.raw[..11]), n.lfn.clone(), n.size(), 0u32, (r16(&n.raw, 22), r16(&n.raw, 24)), (r16(&n.raw, 14), r16(&n.raw, 16))))
                    .collect()
            };
            // dates with month/day 0 do not round-trip through Timestamp (known): compare loosely
            let norm = |v: &Vec<(String, Option<String>, u32, u32, (u16, u16), (u16, u16))>| -> Vec<(String, Option<String>, u32)> { v.iter().map(|x| (x.0.clone(), x.1.clone(), x.2)).collect() };
            if norm(&got) != norm(&want) {
                return Err(self.fail(format!("library lists {:?}:\n got  {:?}\n want {:?}", dir, got, want)));
            }
            for (g, w) in got.iter().zip(want.iter()) {
                let sane = |d: u16| (d >> 5) & 15 != 0 && d & 31 != 0;
                if sane((w.4).1) && g.4 != w.4 {
                    return Err(self.fail(format!("library mtime of {}/{}: {:04x?} reader {:04x?}", dir, g.0, g.4, w.4)));
                }
                if sane((w.5).1) && g.5 != w.5 {
                    return Err(self.fail(format!("library ctime of {}/{}: {:04x?} reader {:04x?}", dir, g.0, g.5, w.5)));
                }
            }
        }
        Ok(())
    }
    fn lib_view(&mut self) -> Result<(), String> {
        self.lib_listing()?;
        let paths: Vec<(String, MNode)> = self.model.iter().map(|(a, b)| (a.clone(), b.clone())).collect();
        for (p, m) in paths {
            if m.is_dir || p.contains("<label>") {
                continue;
            }
            let i = p.rfind('/').unwrap();
            let (dir, name) = (&p[..i], &p[i + 1..]);
            let d = self.open_dir_path(dir).map_err(|e| self.fail(e))?;
            let sfn = ShortFileName::create_from_str(name);
            let sfn = match sfn {
                Ok(s) => s,
                Err(_) => {
                    self.vm.close_dir(d).unwrap();
                    continue;
                }
            };
            let e = self.vm.find_directory_entry(d, &sfn);
            let e = match e {
                Ok(e) => e,
                Err(er) => {
                    self.vm.close_dir(d).unwrap();
                    return Err(self.fail(format!("library cannot find {}: {:?}", p, er)));
                }
            };
            if e.size as usize != m.content.len() {
                return Err(self.fail(format!("library sees {} with size {}", p, e.size)));
            }
            if m.attr & 1 == 0 || true {
                let f = self.vm.open_file_in_dir(d, &sfn, Mode::ReadOnly).map_err(|er| self.fail(format!("library cannot open {}: {:?}", p, er)))?;
                let mut buf = vec![0u8; m.content.len() + 10];
                let mut got = 0;
                loop {
                    let n = self.vm.read(f, &mut buf[got..]).map_err(|er| self.fail(format!("library read {}: {:?}", p, er)))?;
                    if n == 0 {
                        break;
                    }
                    got += n;
                }
                self.vm.close_file(f).unwrap();
                if buf[..got] != m.content[..] {
                    return Err(self.fail(format!("library reads {} differently", p)));
                }
            }
            self.vm.close_dir(d).unwrap();
        }
        Ok(())
    }
}

// ---------------------------------------------------------------- images
struct Rng(u64);
impl Rng {
    fn next(&mut self) -> u64 {
        self.0 ^= self.0 << 13;
        self.0 ^= self.0 >> 7;
        self.0 ^= self.0 << 17;
        self.0
    }
    fn below(&mut self, n: usize) -> usize {
        (self.next() % n as u64) as usize
    }
}
fn pattern(seed: u64, n: usize) -> Vec<u8> {
    let mut r = Rng(seed | 1);
    (0..n).map(|_| (r.next() >> 11) as u8).collect()
}

/// pre-populated tree
fn populate(img: Vec<u8>, free_left: Option<u32>, first_free: u32) -> Vec<u8> {
    let l = layout(&img);
    let mut im = Img { d: img, l };
    let root = im.root();
    let bpc = im.bpc();
    let base = first_free; // clusters base.. are ours
    let mut slot = 0;
    // volume label
    im.put_raw(root, slot, &mk_entry(b"MYLABEL    ", 0x08, 0, 0, 0, 0, 0, 0x6000, 0x5021, 0, 0));
    slot += 1;
    // fragmented file, clusters out of order: base+5, base+2, base+9
    let ch = [base + 5, base + 2, base + 9];
    im.alloc_chain(&ch);
    let data = pattern(11, 2 * bpc + 17);
    im.write_data(&ch, &data);
    im.put_raw(root, slot, &mk_entry(b"FRAG    DAT", 0x20, 0x18, 0x63, 0x1234, 0x4a21, 0x4a22, 0x2345, 0x4a23, ch[0], data.len() as u32));
    slot += 1;
    // deleted slots (a deleted long-name run + short entry)
    let mut del = mk_lfn("deleted long name.bin", b"DELETE~1BIN");
    del.push(mk_entry(b"DELETE~1BIN", 0x20, 0, 0, 0, 0, 0, 0, 0x4a21, 0, 0));
    for mut e in del {
        e[0] = 0xE5;
        im.put_raw(root, slot, &e);
        slot += 1;
    }
    // long-name file
    let sn = b"LONGFI~1TXT";
    for e in mk_lfn("Long File Name with Ünïcode.txt", sn) {
        im.put_raw(root, slot, &e);
        slot += 1;
    }
    let ch = [base + 3];
    im.alloc_chain(&ch);
    let data = pattern(12, 300);
    im.write_data(&ch, &data);
    im.put_raw(root, slot, &mk_entry(sn, 0x21 & 0xFE, 0, 0x64, 0x8821, 0x5021, 0x5021, 0x8822, 0x5022, ch[0], data.len() as u32));
    slot += 1;
    // empty file, cluster 0
    im.put_raw(root, slot, &mk_entry(b"EMPTY      ", 0x00, 0x08, 199, 0xbf7d, 0xff9f, 0xff9f, 0xbf7d, 0xff9f, 0, 0));
    slot += 1;
    // file of exactly one cluster
    let ch = [base + 4];
    im.alloc_chain(&ch);
    let data = pattern(13, bpc);
    im.write_data(&ch, &data);
    im.put_raw(root, slot, &mk_entry(b"EXACT   BIN", 0x20, 0, 0, 0, 0, 0, 0x0001, 0x0021, ch[0], data.len() as u32));
    slot += 1;
    // a single deleted slot
    let mut e = mk_entry(b"GONE    TXT", 0x20, 0, 0, 0, 0, 0, 0, 0x4a21, 0, 0);
    e[0] = 0xE5;
    im.put_raw(root, slot, &e);
    slot += 1;
    // sub directory with nested dir and a long-name file in it
    let sub = base + 6;
    im.alloc_chain(&[sub]);
    im.put_raw(root, slot, &mk_entry(b"SUB        ", 0x10, 0, 5, 0x1111, 0x4a21, 0x4a21, 0x1111, 0x4a21, sub, 0));
    slot += 1;
    let _ = slot;
    let sl = DirLoc::Clus(sub);
    im.put_raw(sl, 0, &mk_entry(b".          ", 0x10, 0, 5, 0x1111, 0x4a21, 0x4a21, 0x1111, 0x4a21, sub, 0));
    im.put_raw(sl, 1, &mk_entry(b"..         ", 0x10, 0, 5, 0x1111, 0x4a21, 0x4a21, 0x1111, 0x4a21, 0, 0));
    let mut s = 2;
    let sn = b"INSUB~1 TXT";
    for e in mk_lfn("in sub directory.txt", sn) {
        im.put_raw(sl, s, &e);
        s += 1;
    }
    let ch = [base + 8, base + 7];
    im.alloc_chain(&ch);
    let data = pattern(14, bpc + 1);
    im.write_data(&ch, &data);
    im.put_raw(sl, s, &mk_entry(sn, 0x20, 0, 0, 0x2222, 0x4a21, 0, 0x2222, 0x4a21, ch[0], data.len() as u32));
    s += 1;
    let sub2 = base + 10;
    im.alloc_chain(&[sub2]);
    im.put_raw(sl, s, &mk_entry(b"SUB2       ", 0x10, 0, 0, 0x3333, 0x4a21, 0, 0x3333, 0x4a21, sub2, 0));
    let s2 = DirLoc::Clus(sub2);
    im.put_raw(s2, 0, &mk_entry(b".          ", 0x10, 0, 0, 0x3333, 0x4a21, 0, 0x3333, 0x4a21, sub2, 0));
    im.put_raw(s2, 1, &mk_entry(b"..         ", 0x10, 0, 0, 0x3333, 0x4a21, 0, 0x3333, 0x4a21, sub, 0));
    // limit the free space: mark everything but `free_left` clusters bad
    if let Some(fl) = free_left {
        let mut free = 0;
        for c in 2..im.l.nclus + 2 {
            if im.fat(c) == 0 {
                free += 1;
                if free > fl {
                    let b = im.bad();
                    im.set_fat(c, b);
                }
            }
        }
    }
    // fsinfo free count
    if im.l.fat32 {
        let mut free = 0;
        for c in 2..im.l.nclus + 2 {
            if im.fat(c) == 0 {
                free += 1;
            }
        }
        let o = im.l.fsinfo + 488;
        if r32(&im.d, o) != 0xFFFFFFFF {
            w32(&mut im.d, o, free);
        }
    }
    im.d
}

const NAMES: [&str; 10] = ["A.TXT", "b.txt", "C", "LONGFI~1.TXT", "FRAG.DAT", "EMPTY", "EXACT.BIN", "ÅÄ.öü", "GONE.TXT", "Z1234567.ABC"];
const DIRS: [&str; 4] = ["", "/SUB", "/SUB/SUB2", "/NEW"];

fn random_run(geo: &Geo, free_left: Option<u32>, seed: u64, steps: usize) -> Result<(), String> {
    let first_free = if geo.fat32 { geo.hint.max(geo.root_cluster + 1).min(geo.clusters - 20) } else { 2 };
    let first_free = if geo.fat32 && geo.hint == 0xFFFFFFFF { geo.root_cluster + 1 } else { first_free };
    let img = populate(mkfs(geo), free_left, first_free);
    let mut h = H::new(img);
    h.trace.push(format!("geo {:?} free_left {:?} seed {}", geo, free_left, seed));
    let mut r = Rng(seed * 2654435761 + 1);
    let bpc = geo.spc as usize * 512;
    let sizes = [0, 1, 511, 512, 513, bpc - 1, bpc, bpc + 1, 2 * bpc, 3 * bpc + 5, 100];
    for _ in 0..steps {
        let k = r.below(100);
        if k < 22 {
            if h.open.len() < 4 {
                let dir = DIRS[r.below(DIRS.len())];
                if dir == "/NEW" && !h.model.contains_key("/NEW") {
                    continue;
                }
                let name = NAMES[r.below(NAMES.len())];
                let mode = [Mode::ReadOnly, Mode::ReadWriteAppend, Mode::ReadWriteTruncate, Mode::ReadWriteCreate, Mode::ReadWriteCreateOrTruncate, Mode::ReadWriteCreateOrAppend][r.below(6)];
                h.op_open(dir, name, mode)?;
            }
        } else if k < 50 {
            if !h.open.is_empty() {
                let i = r.below(h.open.len());
                let n = sizes[r.below(sizes.len())];
                let data = pattern(r.next(), n);
                h.op_write(i, &data)?;
            }
        } else if k < 60 {
            if !h.open.is_empty() {
                let i = r.below(h.open.len());
                let len = h.open[i].content.len();
                let cands = [0, len, len / 2, len.saturating_sub(1), bpc.min(len), len + 1];
                h.op_seek(i, cands[r.below(cands.len())])?;
            }
        } else if k < 70 {
            if !h.open.is_empty() {
                let i = r.below(h.open.len());
                h.op_flush(i)?;
            }
        } else if k < 82 {
            if !h.open.is_empty() {
                let i = r.below(h.open.len());
                h.op_close(i, r.below(2) == 0)?;
            }
        } else if k < 90 {
            let dir = DIRS[r.below(DIRS.len())];
            if dir == "/NEW" && !h.model.contains_key("/NEW") {
                continue;
            }
            h.op_delete(dir, NAMES[r.below(NAMES.len())])?;
        } else if k < 95 {
            let dir = DIRS[r.below(3)];
            let name = ["NEW", "D2", "A.TXT"][r.below(3)];
            h.op_mkdir(dir, name)?;
        } else {
            h.op_remount()?;
        }
    }
    while !h.open.is_empty() {
        h.op_close(0, true)?;
    }
    h.op_remount()?;
    // print notes
    for t in &h.trace {
        if t.contains("NOTE") {
            println!("{}", t);
        }
    }
    Ok(())
}

fn geos() -> Vec<Geo> {
    vec![
        Geo { fat32: false, spc: 1, reserved: 1, nfats: 2, root_entries: 512, clusters: 4100, lba: 1, root_cluster: 0, fat_slack: 0, hint: 0, free: 0 },
        Geo { fat32: false, spc: 4, reserved: 4, nfats: 2, root_entries: 40, clusters: 5000, lba: 63, root_cluster: 0, fat_slack: 1, hint: 0, free: 0 },
        Geo { fat32: false, spc: 2, reserved: 1, nfats: 1, root_entries: 16, clusters: 4090, lba: 2048, root_cluster: 0, fat_slack: 0, hint: 0, free: 0 },
        Geo { fat32: true, spc: 1, reserved: 32, nfats: 2, root_entries: 0, clusters: 65600, lba: 1, root_cluster: 2, fat_slack: 0, hint: 0xFFFFFFFF, free: 0xFFFFFFFF },
        Geo { fat32: true, spc: 2, reserved: 9, nfats: 2, root_entries: 0, clusters: 70000, lba: 8, root_cluster: 5, fat_slack: 2, hint: 66000, free: 1 },
        Geo { fat32: true, spc: 1, reserved: 32, nfats: 1, root_entries: 0, clusters: 66000, lba: 1, root_cluster: 65900, fat_slack: 0, hint: 65800, free: 1 },
    ]
}

#[test]
fn random_histories() {
    let seeds: u64 = std::env::var("SEEDS").ok().and_then(|s| s.parse().ok()).unwrap_or(20);
    let steps: usize = std::env::var("STEPS").ok().and_then(|s| s.parse().ok()).unwrap_or(150);
    let mut fails = 0;
    for (gi, g) in geos().iter().enumerate() {
        for fl in [None, Some(7u32)] {
            for seed in 1..=seeds {
                if let Err(e) = random_run(g, fl, seed, steps) {
                    fails += 1;
                    println!("==== geo#{} free_left {:?} seed {} ====\n{}\n", gi, fl, seed, tail(&e, 40));
                    break;
                }
            }
        }
    }
    assert_eq!(fails, 0);
}
fn tail(s: &str, n: usize) -> String {
    let l: Vec<&str> = s.lines().collect();
    let st = l.len().saturating_sub(n);
    let mut out = String::new();
    if st > 0 {
        out.push_str(l[0]);
        out.push_str("\n...\n");
    }
    out.push_str(&l[st..].join("\n"));
    out
}

fn many_files(geo: &Geo, free_left: Option<u32>) -> Result<(), String> {
    let first_free = if geo.fat32 { if geo.hint == 0xFFFFFFFF { geo.root_cluster + 1 } else { geo.hint.max(geo.root_cluster + 1).min(geo.clusters - 20) } } else { 2 };
    let img = populate(mkfs(geo), free_left, first_free);
    let mut h = H::new(img);
    h.trace.push(format!("many_files geo {:?} free_left {:?}", geo, free_left));
    h.op_mkdir("", "NEW")?;
    let bpc = geo.spc as usize * 512;
    for dir in ["/NEW", "", "/SUB"] {
        let keep = h.op_open(dir, "KEEP.DAT", Mode::ReadWriteCreateOrAppend)?;
        if let Some(k) = keep {
            h.op_write(k, &pattern(1, bpc + 3))?;
        }
        for i in 0..(2 * bpc / 32 + 5) {
            let name = format!("F{}.X", i);
            if let Some(f) = h.op_open(dir, &name, Mode::ReadWriteCreate)? {
                h.op_write(f, &pattern(i as u64 + 7, (i * 37) % (bpc + 2)))?;
                h.op_close(f, i % 2 == 0)?;
            }
            if i % 7 == 3 {
                if let Some(_) = keep {
                    h.op_write(0, &pattern(i as u64, 10))?;
                    h.op_flush(0)?;
                }
            }
            if i % 5 == 4 {
                h.op_delete(dir, &format!("F{}.X", i - 2))?;
            }
            if i % 11 == 10 {
                h.op_mkdir(dir, &format!("D{}", i))?;
            }
        }
        if keep.is_some() {
            h.op_close(0, true)?;
        }
        h.op_remount()?;
    }
    Ok(())
}

#[test]
fn many() {
    let mut fails = 0;
    for (gi, g) in geos().iter().enumerate() {
        for fl in [None, Some(40u32)] {
            if let Err(e) = many_files(g, fl) {
                fails += 1;
                println!("==== many geo#{} free_left {:?} ====\n{}\n", gi, fl, tail(&e, 30));
            }
        }
    }
    assert_eq!(fails, 0);
}

#[test]
fn orphan_lfn() {
    for g in [&geos()[0], &geos()[4]] {
        let l = layout(&mkfs(g));
        let mut im = Img { d: mkfs(g), l };
        let root = im.root();
        // what an LFN-unaware implementation leaves behind after deleting
        // "Yesterday's log.txt" (alias LOG.TXT): live fragments, deleted short entry
        let sn = b"LOG     TXT";
        let mut s = 0;
        im.put_raw(root, s, &mk_entry(b"FIRST   TXT", 0x20, 0, 0, 0, 0x4a21, 0, 0, 0x4a21, 0, 0));
        s += 1;
        for e in mk_lfn("Yesterday's log.txt", sn) {
            im.put_raw(root, s, &e);
            s += 1;
        }
        let mut e = mk_entry(sn, 0x20, 0, 0, 0, 0x4a21, 0, 0, 0x4a21, 0, 0);
        e[0] = 0xE5;
        im.put_raw(root, s, &e);
        s += 1;
        im.put_raw(root, s, &mk_entry(b"LAST    TXT", 0x20, 0, 0, 0, 0x4a21, 0, 0, 0x4a21, 0, 0));
        let mut h = H::new(im.d);
        let r = (|| -> Result<(), String> {
            let f = h.op_open("", "LOG.TXT", Mode::ReadWriteCreate)?.unwrap();
            h.op_write(f, b"today")?;
            h.op_close(f, false)?;
            h.op_mkdir("", "NEWDIR")?;
            h.op_remount()
        })();
        println!("{:?}", r.as_ref().map_err(|e| tail(e, 8)));
    }
}

#[test]
fn dotdot_paths() {
    let mut fails = 0;
    for (gi, g) in geos().iter().enumerate() {
        let first_free = if g.fat32 { if g.hint == 0xFFFFFFFF { g.root_cluster + 1 } else { g.hint.max(g.root_cluster + 1).min(g.clusters - 20) } } else { 2 };
        let img = populate(mkfs(g), None, first_free);
        let mut h = H::new(img);
        let r = (|| -> Result<(), String> {
            h.op_mkdir("/SUB/..", "VIAROOT")?;
            h.op_mkdir("/SUB/SUB2/..", "VIASUB")?;
            h.op_mkdir("/SUB/SUB2/../.", "VIADOT")?;
            h.op_mkdir("/SUB/SUB2/../..", "VIAROOT2")?;
            h.op_mkdir("/VIAROOT/../SUB/VIASUB/.", "DEEP")?;
            let f = h.op_open("/SUB/VIASUB/DEEP/../../..", "TOP.TXT", Mode::ReadWriteCreate)?.unwrap();
            h.op_write(f, b"top")?;
            let g2 = h.op_open("/SUB/SUB2/.././VIASUB/DEEP", "X.Y", Mode::ReadWriteCreateOrAppend)?.unwrap();
            h.op_write(g2, &pattern(3, 700))?;
            h.op_close(f, true)?;
            h.op_close(0, false)?;
            h.op_delete("/SUB/..", "TOP.TXT")?;
            h.op_remount()
        })();
        if let Err(e) = r {
            fails += 1;
            println!("==== dotdot geo#{} ====\n{}", gi, tail(&e, 12));
        }
    }
    assert_eq!(fails, 0);
}

#[test]
fn more_geos() {
    let gs = vec![
        Geo { fat32: false, spc: 32, reserved: 8, nfats: 2, root_entries: 512, clusters: 4200, lba: 3, root_cluster: 0, fat_slack: 0, hint: 0, free: 0 },
        Geo { fat32: false, spc: 1, reserved: 1, nfats: 2, root_entries: 33, clusters: 65524, lba: 1, root_cluster: 0, fat_slack: 0, hint: 0, free: 0 },
        Geo { fat32: true, spc: 8, reserved: 32, nfats: 2, root_entries: 0, clusters: 65525, lba: 2048, root_cluster: 2, fat_slack: 0, hint: 0xFFFFFFFF, free: 0xFFFFFFFF },
    ];
    let mut fails = 0;
    for (gi, g) in gs.iter().enumerate() {
        for fl in [None, Some(9u32)] {
            for seed in 100..104 {
                if let Err(e) = random_run(g, fl, seed, 200) {
                    fails += 1;
                    println!("==== more geo#{} free_left {:?} seed {} ====\n{}\n", gi, fl, seed, tail(&e, 40));
                    break;
                }
            }
            if let Err(e) = many_files(g, fl.map(|x| x + 30)) {
                fails += 1;
                println!("==== more-many geo#{} free_left {:?} ====\n{}\n", gi, fl, tail(&e, 30));
            }
        }
    }
    assert_eq!(fails, 0);
}

#[test]
fn big_file() {
    let mut fails = 0;
    for (gi, g) in geos().iter().enumerate() {
        let first_free = if g.fat32 { if g.hint == 0xFFFFFFFF { g.root_cluster + 1 } else { g.hint.max(g.root_cluster + 1).min(g.clusters - 20) } } else { 2 };
        let img = populate(mkfs(g), None, first_free);
        let mut h = H::new(img);
        let bpc = g.spc as usize * 512;
        let r = (|| -> Result<(), String> {
            let a = h.op_open("", "BIG.A", Mode::ReadWriteCreate)?.unwrap();
            let b = h.op_open("/SUB", "BIG.B", Mode::ReadWriteCreate)?.unwrap();
            // interleaved growth: two chains fragment each other, across FAT sector boundaries
            for i in 0..150 {
                h.op_write(a, &pattern(i, 2 * bpc + 1))?;
                h.op_write(b, &pattern(i + 1000, bpc - 1))?;
                if i % 40 == 7 {
                    h.op_flush(a)?;
                    h.op_flush(b)?;
                }
            }
            h.op_seek(a, 77 * bpc - 3)?;
            h.op_write(a, &pattern(5, 9))?;
            h.op_seek(b, 0)?;
            h.op_write(b, &pattern(6, 3 * bpc))?;
            h.op_close(b, true)?;
            h.op_close(a, false)?;
            h.op_remount()?;
            let a = h.op_open("", "BIG.A", Mode::ReadWriteAppend)?.unwrap();
            h.op_write(a, &pattern(9, 5))?;
            h.op_close(a, true)?;
            h.op_delete("/SUB", "BIG.B")?;
            let a = h.op_open("", "BIG.A", Mode::ReadWriteTruncate)?.unwrap();
            h.op_close(a, true)?;
            h.op_remount()
        })();
        if let Err(e) = r {
            fails += 1;
            println!("==== big geo#{} ====\n{}\n", gi, tail(&e, 20));
        }
    }
    assert_eq!(fails, 0);
}

#[test]
fn two_volumes() {
    let g0 = Geo { fat32: false, spc: 2, reserved: 1, nfats: 2, root_entries: 64, clusters: 4100, lba: 1, root_cluster: 0, fat_slack: 0, hint: 0, free: 0 };
    let d0 = populate(mkfs(&g0), None, 2);
    let lba1 = (d0.len() / 512) as u32 + 5;
    let g1 = Geo { fat32: true, spc: 1, reserved: 32, nfats: 2, root_entries: 0, clusters: 65600, lba: lba1, root_cluster: 2, fat_slack: 0, hint: 0xFFFFFFFF, free: 0xFFFFFFFF };
    let mut d = populate(mkfs(&g1), None, 3);
    let slot1: [u8; 16] = d[446..462].try_into().unwrap();
    d[512..d0.len()].copy_from_slice(&d0[512..]);
    d[446..462].copy_from_slice(&d0[446..462]);
    d[462..478].copy_from_slice(&slot1);
    let view = |d: &Vec<u8>, part: usize| -> (Img, Snap) {
        let mut c = d.clone();
        if part == 1 {
            let s: [u8; 16] = c[462..478].try_into().unwrap();
            c[446..462].copy_from_slice(&s);
        }
        let l = layout(&c);
        let im = Img { d: c, l };
        let s = im.walk().expect("walk");
        im.check_global(&s, false, true).expect("global");
        (im, s)
    };
    let before0 = view(&d, 0).1;
    let before1 = view(&d, 1).1;
    let disk = Disk(Rc::new(RefCell::new(d)));
    let clock = Clock { n: Rc::new(Cell::new(0)), log: Rc::new(RefCell::new(vec![])) };
    let vm: VolumeManager<Disk, Clock, 4, 4, 2> = VolumeManager::new_with_limits(disk.clone(), clock, 7);
    let v0 = vm.open_raw_volume(VolumeIdx(0)).unwrap();
    let v1 = vm.open_raw_volume(VolumeIdx(1)).unwrap();
    let r0 = vm.open_root_dir(v0).unwrap();
    let r1 = vm.open_root_dir(v1).unwrap();
    let a = vm.open_file_in_dir(r0, "SAME.TXT", Mode::ReadWriteCreate).unwrap();
    let b = vm.open_file_in_dir(r1, "SAME.TXT", Mode::ReadWriteCreate).unwrap();
    let pa = pattern(1, 3000);
    let pb = pattern(2, 2000);
    vm.write(a, &pa[..1000]).unwrap();
    vm.write(b, &pb[..1500]).unwrap();
    vm.write(a, &pa[1000..]).unwrap();
    vm.flush_file(a).unwrap();
    vm.write(b, &pb[1500..]).unwrap();
    vm.delete_file_in_dir(r1, "FRAG.DAT").unwrap();
    vm.make_dir_in_dir(r0, "ONV0").unwrap();
    vm.close_file(b).unwrap();
    vm.close_file(a).unwrap();
    vm.close_dir(r0).unwrap();
    vm.close_dir(r1).unwrap();
    vm.close_volume(v1).unwrap();
    vm.close_volume(v0).unwrap();
    let dd = disk.0.borrow().clone();
    let a0 = view(&dd, 0).1;
    let a1 = view(&dd, 1).1;
    assert_eq!(a0["/SAME.TXT"].data, pa);
    assert_eq!(a1["/SAME.TXT"].data, pb);
    for (p, n) in &before0 {
        assert_eq!(&a0[p], n, "{}", p);
    }
    for (p, n) in &before1 {
        if p != "/FRAG.DAT" {
            assert_eq!(&a1[p], n, "{}", p);
        }
    }
    assert!(!a1.contains_key("/FRAG.DAT"));
    assert!(a0.contains_key("/ONV0") && !a1.contains_key("/ONV0"));
    assert_eq!(a0.len(), before0.len() + 2);
    assert_eq!(a1.len(), before1.len());
}
