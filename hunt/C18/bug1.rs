//! C18 - ShortFileName::create_from_str does not upper-case the lower-case
//! letters of the ISO-8859-1 high half (U+00E0..U+00FE except U+00F7).
//!
//! Clause violated (C18): "Parsing a file name accepts exactly the valid 8.3
//! names over ISO-8859-1, upper-cases them, pads with spaces".
//! The type's own documentation says: "ISO-8859-1 encoding is assumed. All
//! lower-case is converted to upper-case by default."
//!
//! What should happen: "café.txt" and "CAFÉ.TXT" name the same file and are
//! both stored as 43 41 46 C9 20 20 20 20 54 58 54. What happens: the parser
//! uses `char::to_ascii_uppercase`, so é (0xE9) is stored as 0xE9: a lower-case
//! letter in a short name, and two names that differ only in case are two
//! different directory entries (end to end: after creating "café.txt",
//! find_directory_entry("CAFÉ.TXT") is NotFound and creating "CAFÉ.TXT"
//! succeeds, leaving both in the directory).
//!
//! Run: cp bug1.rs <crate>/tests/ && cargo test --offline --test bug1

use embedded_sdmmc::ShortFileName;

/// The 11 on-disk bytes of a parsed name, through the public accessors.
fn bytes(s: &ShortFileName) -> [u8; 11] {
    let mut o = [b' '; 11];
    o[..s.base_name().len()].copy_from_slice(s.base_name());
    o[8..8 + s.extension().len()].copy_from_slice(s.extension());
    o
}

#[test]
fn latin1_lower_case_is_upper_cased() {
    let lower = ShortFileName::create_from_str("caf\u{e9}.txt").unwrap();
    let upper = ShortFileName::create_from_str("CAF\u{c9}.TXT").unwrap();
    assert_eq!(bytes(&upper), *b"CAF\xC9    TXT");
    assert_eq!(
        bytes(&lower),
        *b"CAF\xC9    TXT",
        "U+00E9 was not upper-cased to U+00C9"
    );
    assert_eq!(lower, upper, "names differing only in case must be equal");
}

#[test]
fn every_latin1_letter_with_an_upper_case_form_at_every_position() {
    let mut wrong = Vec::new();
    for b in 0xE0u8..=0xFE {
        if b == 0xF7 {
            continue; // DIVISION SIGN, not a letter
        }
        let lo = b as char;
        let up = (b - 0x20) as char;
        // base positions 0..8 and extension positions 0..3
        for pos in 0..11 {
            let mk = |c: char| -> String {
                let mut base: Vec<char> = "ABCDEFGH".chars().collect();
                let mut ext: Vec<char> = "IJK".chars().collect();
                if pos < 8 {
                    base[pos] = c;
                } else {
                    ext[pos - 8] = c;
                }
                format!(
                    "{}.{}",
                    base.iter().collect::<String>(),
                    ext.iter().collect::<String>()
                )
            };
            let a = ShortFileName::create_from_str(&mk(lo)).unwrap();
            let z = ShortFileName::create_from_str(&mk(up)).unwrap();
            if a != z {
                wrong.push((b, pos));
            }
        }
    }
    assert!(
        wrong.is_empty(),
        "{} (letter, position) pairs are not upper-cased, e.g. {:x?}",
        wrong.len(),
        &wrong[..wrong.len().min(5)]
    );
}

#[test]
fn a_ring_is_not_the_deleted_marker_case() {
    // U+00E5 (a with ring) is a lower-case letter: its stored form is U+00C5,
    // so the 0xE5 -> 0x05 escape never has to apply to it.
    let s = ShortFileName::create_from_str("\u{e5}").unwrap();
    assert_eq!(bytes(&s), *b"\xC5          ", "got {:x?}", bytes(&s));
}
