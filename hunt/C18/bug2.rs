//! C18 - the directory-entry codec does not round-trip the start cluster of a
//! directory entry that refers to the root directory (the ".." entry of every
//! first-level sub-directory; the FAT layout stores start cluster 0 there).
//!
//! Clause violated (C18): "Encoding a directory entry and decoding it again
//! returns the same name, attributes, start cluster, size and timestamps for
//! both FAT types, and the encoded bytes sit at the offsets the FAT
//! specification assigns."
//!
//! OnDiskDirEntry::get_entry maps (directory bit set, cluster field 0) to the
//! in-memory marker ClusterId::ROOT_DIR = 0xFFFF_FFFC, but DirEntry::serialize
//! has no inverse mapping: it writes the marker's bits into the cluster
//! fields. So
//!  * FAT32: decode then encode turns bytes 20..22 / 26..28 from 00 00 / 00 00
//!    into FF FF / FC FF (cluster 0xFFFFFFFC, not what the specification
//!    assigns for "parent is the root");
//!  * FAT16: it writes FC FF to bytes 26..28, and decoding THAT gives
//!    ClusterId(0x0000FFFC) - a different start cluster from the entry that was
//!    encoded (ROOT_DIR);
//!  * an entry built in memory with the directory attribute and
//!    ClusterId::EMPTY decodes as ROOT_DIR: not "the same start cluster".
//!
//! Needs the crate's `verif-hooks` feature (public forwarder to the private
//! serialiser):
//! Run: cp bug2.rs <crate>/tests/ && cargo test --offline --features verif-hooks --test bug2

use embedded_sdmmc::fat::{FatType, OnDiskDirEntry};
use embedded_sdmmc::{BlockIdx, ClusterId};

/// The ".." entry of a first-level sub-directory exactly as a formatter or
/// this crate's own make_dir writes it: directory attribute, start cluster 0.
fn dot_dot_raw() -> [u8; 32] {
    let mut b = [0u8; 32];
    b[..11].copy_from_slice(b"..         ");
    b[11] = 0x10;
    b[16] = 0x21; // creation date 1980-01-01
    b[24] = 0x21; // write date 1980-01-01
    b
}

#[test]
fn fat32_decode_then_encode_keeps_the_cluster_fields() {
    let raw = dot_dot_raw();
    let e = OnDiskDirEntry::new(&raw).get_entry(FatType::Fat32, BlockIdx(0), 32);
    let out = e.verif_serialize(FatType::Fat32);
    assert_eq!(
        (&out[20..22], &out[26..28]),
        (&raw[20..22], &raw[26..28]),
        "cluster fields changed: whole entry {:x?}",
        out
    );
}

#[test]
fn fat16_encode_then_decode_returns_the_same_start_cluster() {
    let raw = dot_dot_raw();
    let e = OnDiskDirEntry::new(&raw).get_entry(FatType::Fat16, BlockIdx(0), 32);
    assert_eq!(e.cluster, ClusterId::ROOT_DIR);
    let out = e.verif_serialize(FatType::Fat16);
    let e2 = OnDiskDirEntry::new(&out).get_entry(FatType::Fat16, BlockIdx(0), 32);
    assert_eq!(e2.cluster, e.cluster, "start cluster changed by encode + decode");
    assert_eq!(e2, e);
}

#[test]
fn directory_entry_with_empty_cluster_round_trips() {
    for ft in [FatType::Fat16, FatType::Fat32] {
        let mut e = OnDiskDirEntry::new(&dot_dot_raw()).get_entry(ft, BlockIdx(0), 32);
        e.cluster = ClusterId::EMPTY;
        let out = e.verif_serialize(ft);
        let e2 = OnDiskDirEntry::new(&out).get_entry(ft, BlockIdx(0), 32);
        assert_eq!(e2.cluster, e.cluster, "{:?}", ft);
    }
}
