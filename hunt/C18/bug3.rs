//! C18 - Timestamp::from_fat followed by Timestamp::serialize_to_fat changes
//! every date word whose month field or day field is 0 (6016 of the 65536
//! date words), among them 0x0000, the value the FAT specification uses for
//! "no date recorded" (optional creation date) and the value found in
//! volume-label entries.
//!
//! Clause violated (C18): "Every representable FAT date/time (1980-2107,
//! two-second resolution) survives decode-then-encode unchanged", quantified
//! over "all 2^32 (date,time) field pairs".
//!
//! from_fat deliberately "tolerates" month 0 / day 0 by decoding them as
//! January / the 1st, which makes the decoder non-injective: 0x0000 and 0x0021
//! both decode to 1980-01-01, so the encoder cannot give back what was read
//! (0x0000 -> 0x0021, 0x0020 -> 0x0021, 0x0001 -> 0x0021, ...). A caller of
//! the DirEntry API cannot tell an unrecorded date from 1980-01-01 either.
//! (All other words - month 13..15, hour 24..31, minute 60..63, seconds field
//! 30..31 - do survive, and all 65536 time words survive.)
//!
//! Run: cp bug3.rs <crate>/tests/ && cargo test --offline --test bug3

use embedded_sdmmc::Timestamp;

fn recode(date: u16, time: u16) -> (u16, u16) {
    let b = Timestamp::from_fat(date, time).serialize_to_fat();
    (
        u16::from_le_bytes([b[2], b[3]]),
        u16::from_le_bytes([b[0], b[1]]),
    )
}

#[test]
fn unrecorded_date_survives() {
    assert_eq!(recode(0x0000, 0x0000), (0x0000, 0x0000));
}

#[test]
fn all_date_and_time_words_survive_decode_then_encode() {
    let mut bad = Vec::new();
    for w in 0..=0xFFFFu16 {
        // the two fields are coded independently: vary one at a time
        if recode(w, 0x8C2F) != (w, 0x8C2F) {
            bad.push(("date", w, recode(w, 0x8C2F).0));
        }
        if recode(0x5A3C, w) != (0x5A3C, w) {
            bad.push(("time", w, recode(0x5A3C, w).1));
        }
    }
    assert!(
        bad.is_empty(),
        "{} words changed, e.g. {:x?}",
        bad.len(),
        &bad[..bad.len().min(6)]
    );
}
