mod hk;
use embedded_sdmmc::{Error, Mode, RawDirectory, RawFile, RawVolume, VolumeIdx, VolumeManager};
use hk::*;
use std::collections::BTreeMap;

use std::sync::atomic::{AtomicUsize, Ordering};
static ST: [AtomicUsize; 10] = [const { AtomicUsize::new(0) }; 10];
fn st(i: usize) {
    ST[i].fetch_add(1, Ordering::Relaxed);
}
type VM = VolumeManager<Dev, Clock, 4, 4, 2>;

#[derive(Clone, Debug)]
struct Claim {
    path: String,
    content: Vec<u8>,
    from: usize,
    to: Option<usize>,
    why: String,
}

struct Vol {
    g: Geo,
    raw: Option<RawVolume>,
    files: BTreeMap<String, Vec<u8>>,
    dirs: Vec<String>,
    claims: Vec<Claim>,
    info0: (u32, u32),
    free0: u32,
    count_valid: bool,
}

struct Handle {
    vol: usize,
    raw: RawFile,
    path: String,
    content: Vec<u8>,
    off: usize,
    ro: bool,
}

struct World {
    dev: Dev,
    vm: VM,
    vols: Vec<Vol>,
    handles: Vec<Handle>,
    oplog: Vec<(usize, String)>, // (log len at op start, description)
    findings: Vec<(String, String)>,
    desc: String,
    detour: std::cell::Cell<bool>,
}

fn cb(g: &Geo) -> usize {
    (g.spc * 512) as usize
}

fn pattern(tag: u32, n: usize) -> Vec<u8> {
    (0..n).map(|i| ((i as u32).wrapping_mul(31).wrapping_add(tag.wrapping_mul(97)) % 251) as u8 + 1).collect()
}

/// builds one volume on dev; returns Vol
fn build_vol(dev: &Dev, rng: &mut Rng, fat32: bool, lba: u32, desc: &mut String) -> Vol {
    let big = std::env::var("HUNT_BIG").is_ok();
    let spc = if big { 1 + rng.below(2) as u32 } else { *rng.pick(&[1u32, 1, 2, 2, 4, 8, 16, 32, 64, 128]) };
    let nfats = 1 + rng.below(2) as u32;
    let clusters = if fat32 { 65525 + rng.below(300) as u32 } else { 4085 + rng.below(300) as u32 };
    let root_entries = *rng.pick(&[16u32, 24, 30, 32, 48]);
    let mut g = Geo::new(fat32, spc, nfats, clusters, root_entries, lba);
    if rng.below(3) == 0 {
        g.fat_size += 1 + rng.below(3) as u32; // slack sectors behind the used part of the FAT
    }
    if fat32 && rng.below(3) == 0 {
        g.info_sec = 2 + rng.below(5) as u32;
    }
    if !fat32 && rng.below(3) == 0 {
        g.reserved = 1 + rng.below(8) as u32;
    }
    let per = if fat32 { 128 } else { 256 };
    let k = if big { 150 + rng.below(400) as u32 } else { 14 + rng.below(30) as u32 };
    let mut avail: Vec<u32> = (2..2 + k).collect();
    for c in [per - 2, per - 1, per, per + 1] {
        if !avail.contains(&c) {
            avail.push(c);
        }
    }
    if rng.below(2) == 0 {
        avail.push(clusters); // last but one
    }
    if rng.below(3) != 0 {
        avail.push(clusters + 1); // very last cluster
    }
    let mut mk = Mk::new(dev, g.clone(), &avail);
    let mut files = BTreeMap::new();
    let cbytes = cb(&g);

    // FAT32 root gets cluster 2
    let root_chain = if fat32 {
        if rng.below(3) == 0 {
            // root somewhere else than cluster 2
            let pos = 1 + rng.below(6) as usize;
            let c = mk.free_list.remove(pos);
            mk.fat[c as usize] = mk.g.eoc();
            mk.g.root_cluster = c;
            let mut bs = dev.get(lba);
            bs[44..48].copy_from_slice(&c.to_le_bytes());
            dev.put(lba, bs);
            Some(vec![c])
        } else {
            Some(mk.chain(1))
        }
    } else {
        None
    };

    // SUB contents
    let sub_chain_first;
    {
        // reserve the clusters of SUB later; need its first cluster for the root entry, so build SUB first
        let la = pattern(11, cbytes + 77);
        let la_ch = mk.chain(2);
        mk.write_chain_data(&la_ch, &la);
        let lb = pattern(12, 10);
        let lb_ch = mk.chain(1);
        mk.write_chain_data(&lb_ch, &lb);
        let mut ents: Vec<[u8; 32]> = vec![];
        // '.' and '..' patched after we know the cluster
        ents.push(short_entry(".", 0x10, 0, 0));
        ents.push(short_entry("..", 0x10, 0, 0));
        for i in 0..12 {
            let n = format!("SF{:02}.DAT", i);
            ents.push(short_entry(&n, 0x20, 0, 0));
            files.insert(format!("SUB/{}", n), vec![]);
        }
        ents.extend(entries_with_lfn("LONGA.TXT", "long name a - crosses a block.txt", 0x20, la_ch[0], la.len() as u32));
        files.insert("SUB/LONGA.TXT".to_string(), la);
        for i in 12..22 {
            let n = format!("SF{:02}.DAT", i);
            ents.push(short_entry(&n, 0x20, 0, 0));
            files.insert(format!("SUB/{}", n), vec![]);
        }
        let long: String = (0..250).map(|i| (b'a' + (i % 26) as u8) as char).collect();
        ents.extend(entries_with_lfn("LONGB.TXT", &long, 0x20, lb_ch[0], lb.len() as u32));
        files.insert("SUB/LONGB.TXT".to_string(), lb);
        // optionally fill up to the end of the cluster so that a create must grow SUB
        let per_cluster = (g.spc * 16) as usize;
        let fill_to = ((ents.len() + per_cluster - 1) / per_cluster) * per_cluster;
        let leave = rng.below(4).saturating_sub(1) as usize;
        let mut i = 0;
        while ents.len() + leave < fill_to && i < 2000 {
            let n = format!("SG{:04}.DAT", i);
            ents.push(short_entry(&n, 0x20, 0, 0));
            if i < 4 {
                files.insert(format!("SUB/{}", n), vec![]);
            }
            i += 1;
        }
        let n = (ents.len() + per_cluster - 1) / per_cluster;
        let ch = mk.chain(n);
        ents[0] = short_entry(".", 0x10, ch[0], 0);
        mk.write_dir(&ents, false, Some(ch.clone()));
        sub_chain_first = ch[0];
    }
    // root
    {
        let p1 = pattern(1, 2 * cbytes + 100);
        let p1_ch = mk.chain(3);
        mk.write_chain_data(&p1_ch, &p1);
        let mut ents: Vec<[u8; 32]> = vec![];
        ents.push(short_entry("HUNTVOL", 0x08, 0, 0));
        ents.extend(entries_with_lfn("PRE1.TXT", "pre-existing one.txt", 0x20, p1_ch[0], p1.len() as u32));
        files.insert("PRE1.TXT".to_string(), p1);
        ents.push(short_entry("EMPTY.DAT", 0x20, 0, 0));
        files.insert("EMPTY.DAT".to_string(), vec![]);
        ents.extend(entries_with_lfn("SUB", "Sub directory", 0x10, sub_chain_first, 0));
        let cap = if fat32 { (g.spc * 16) as usize } else { g.root_entries as usize };
        let leave = rng.below(5).saturating_sub(2) as usize;
        let mut i = 0;
        while ents.len() + leave < cap {
            let n = format!("RF{:04}.DAT", i);
            ents.push(short_entry(&n, 0x20, 0, 0));
            if i < 4 {
                files.insert(n, vec![]);
            }
            i += 1;
        }
        if fat32 {
            mk.write_dir(&ents, false, root_chain);
        } else {
            mk.write_dir(&ents, true, None);
        }
    }
    let free = mk.free_now();
    let g = mk.g.clone();
    let first_free = mk.fat.iter().enumerate().skip(2).find(|(_, v)| **v == 0).map(|(i, _)| i as u32).unwrap_or(0xFFFF_FFFF);
    let ck = rng.below(5);
    let count = match ck {
        0 | 1 => free,
        2 => 0xFFFF_FFFF,
        3 => free + 5 + rng.below(1000) as u32,
        _ => free.saturating_sub(1 + rng.below(3) as u32),
    };
    let hint = match rng.below(8) {
        0 => 0xFFFF_FFFF,
        1 => first_free,
        2 => clusters + 1,
        3 => clusters + 2,
        4 => clusters + 2 + rng.below(100000) as u32,
        5 => 3, // allocated
        6 => rng.below(2) as u32,
        _ => clusters,
    };
    mk.finish(count, hint);
    *desc += &format!(
        "[vol fat32={} spc={} nfats={} clusters={} root_entries={} lba={} free={} info=({:#x},{:#x})] ",
        fat32, spc, nfats, clusters, g.root_entries, lba, free, count, hint
    );
    let claims = files
        .iter()
        .map(|(p, c)| Claim { path: p.clone(), content: c.clone(), from: 0, to: None, why: "pre-existing".into() })
        .collect();
    Vol {
        g,
        raw: None,
        files,
        dirs: vec!["".into(), "SUB".into()],
        claims,
        info0: (count, hint),
        free0: free,
        count_valid: true,
    }
}

impl World {
    fn new(seed: u64, rng: &mut Rng) -> World {
        let mut desc = format!("seed={} ", seed);
        let dev = Dev::new(0xFFFF_FF00);
        let two = rng.below(4) == 0;
        let mut vols = vec![];
        let f1 = rng.below(2) == 0 || two;
        let v0 = build_vol(&dev, rng, f1, 64, &mut desc);
        let next = v0.g.end() + 17;
        vols.push(v0);
        if two {
            let f2 = rng.below(3) != 0;
            vols.push(build_vol(&dev, rng, f2, next, &mut desc));
        }
        let gs: Vec<(&Geo,)> = vols.iter().map(|v| (&v.g,)).collect();
        write_mbr(&dev, &gs);
        dev.0.log.borrow_mut().clear();
        let vm: VM = VolumeManager::new_with_limits(dev.clone(), Clock, 100);
        World { dev, vm, vols, handles: vec![], oplog: vec![], findings: vec![], desc, detour: std::cell::Cell::new(false) }
    }

    fn find(&mut self, cat: &str, msg: String) {
        if !self.findings.iter().any(|(c, _)| c == cat) {
            self.findings.push((cat.to_string(), msg));
        }
    }

    fn mount(&mut self, v: usize) {
        let raw = self.vm.open_raw_volume(VolumeIdx(v)).expect("mount");
        self.vols[v].raw = Some(raw);
        let g = self.vols[v].g.clone();
        if g.fat32 {
            let b = self.dev.get(g.info_block());
            let c = u32::from_le_bytes([b[488], b[489], b[490], b[491]]);
            let h = u32::from_le_bytes([b[492], b[493], b[494], b[495]]);
            self.vols[v].info0 = (c, h);
        }
        let dev = self.dev.clone();
        let fat = read_fat(&|b| dev.get(b), &g, 0);
        self.vols[v].free0 = fat[2..].iter().filter(|x| **x == 0).count() as u32;
        self.vols[v].count_valid = true;
    }

    fn open_path_dir(&self, v: usize, path: &str) -> Result<RawDirectory, Error<()>> {
        let mut d = self.vm.open_root_dir(self.vols[v].raw.unwrap())?;
        if !path.is_empty() {
            for comp in path.split('/') {
                let r = self.vm.open_dir(d, comp);
                self.vm.close_dir(d).unwrap();
                d = r?;
            }
        }
        if self.detour.get() {
            let prefix = if path.is_empty() { String::new() } else { format!("{}/", path) };
            if let Some(child) = self.vols[v].dirs.iter().find(|p| !p.is_empty() && p.starts_with(&prefix) && !p[prefix.len()..].contains('/')) {
                let name = &child[prefix.len()..];
                let c = self.vm.open_dir(d, name)?;
                self.vm.close_dir(d).unwrap();
                let back = self.vm.open_dir(c, "..");
                self.vm.close_dir(c).unwrap();
                d = back?;
            }
        }
        Ok(d)
    }

    fn begin_modify(&mut self, v: usize, path: &str) {
        let l = self.dev.log_len();
        for c in self.vols[v].claims.iter_mut() {
            if c.path == path && c.to.is_none() {
                c.to = Some(l);
            }
        }
    }

    fn claim(&mut self, v: usize, path: &str, content: Vec<u8>, why: &str) {
        let l = self.dev.log_len();
        if let Some(c) = self.vols[v].claims.iter().find(|c| c.path == path && c.to.is_none()) {
            if c.content == content {
                return;
            }
        }
        self.begin_modify(v, path);
        self.vols[v].claims.push(Claim { path: path.to_string(), content, from: l, to: None, why: why.to_string() });
    }

    fn check_fats(&mut self, what: &str) {
        for v in 0..self.vols.len() {
            let g = self.vols[v].g.clone();
            if g.nfats < 2 {
                continue;
            }
            for s in 0..g.fat_size {
                if self.dev.get(g.fat_start(0) + s) != self.dev.get(g.fat_start(1) + s) {
                    self.find("C16.fat-copies", format!("after {}: vol {} FAT sector {} differs between copies", what, v, s));
                }
            }
        }
    }

    /// after flush/close/close_volume on vol v
    fn check_info(&mut self, v: usize, what: &str) {
        let g = self.vols[v].g.clone();
        if !g.fat32 {
            return;
        }
        let dev = self.dev.clone();
        let fat = read_fat(&|b| dev.get(b), &g, 0);
        let free = fat[2..].iter().filter(|x| **x == 0).count() as i64;
        let b = self.dev.get(g.info_block());
        let c = u32::from_le_bytes([b[488], b[489], b[490], b[491]]);
        let h = u32::from_le_bytes([b[492], b[493], b[494], b[495]]);
        let (c0, _h0) = self.vols[v].info0;
        if c0 == 0xFFFF_FFFF {
            if c != 0xFFFF_FFFF {
                self.find("C16.count-unknown", format!("after {}: vol {} count was unknown at mount, now {:#x}", what, v, c));
            }
        } else if self.vols[v].count_valid {
            let want = c0 as i64 + (free - self.vols[v].free0 as i64);
            if want < 2 || want > 0xFFFF_FFFE {
                self.vols[v].count_valid = false;
            } else if c as i64 != want {
                self.find(
                    "C16.count-delta",
                    format!("after {}: vol {} stored count {} but mount value {} + delta {} = {}", what, v, c, c0, free - self.vols[v].free0 as i64, want),
                );
            }
        }
        if h != 0xFFFF_FFFF && (h < 2 || h >= g.clusters + 2) {
            self.find("C16.hint-range", format!("after {}: vol {} stored hint {:#x} (clusters {})", what, v, h, g.clusters));
        }
    }

    /// track stale-low counts becoming invalid between flushes (running minimum)
    fn track_low(&mut self) {
        for v in 0..self.vols.len() {
            let g = self.vols[v].g.clone();
            if !g.fat32 || self.vols[v].info0.0 == 0xFFFF_FFFF {
                continue;
            }
            let dev = self.dev.clone();
            let fat = read_fat(&|b| dev.get(b), &g, 0);
            let free = fat[2..].iter().filter(|x| **x == 0).count() as i64;
            let want = self.vols[v].info0.0 as i64 + (free - self.vols[v].free0 as i64);
            if want < 2 || want > 0xFFFF_FFFE {
                self.vols[v].count_valid = false;
            }
        }
    }

    fn free_of(&self, v: usize) -> u32 {
        let dev = self.dev.clone();
        let fat = read_fat(&|b| dev.get(b), &self.vols[v].g, 0);
        fat[2..].iter().filter(|x| **x == 0).count() as u32
    }

    fn op(&mut self, s: String) {
        self.oplog.push((self.dev.log_len(), s));
    }

    fn step(&mut self, rng: &mut Rng) {
        let before: Vec<Blk> = self.vols.iter().map(|v| self.dev.get(v.g.info_block())).collect();
        let nops_before = self.oplog.len();
        self.step2(rng);
        for i in 0..self.vols.len() {
            if !self.vols[i].g.fat32 {
                continue;
            }
            if self.dev.get(self.vols[i].g.info_block()) != before[i] {
                let ok = self.oplog[nops_before..].iter().any(|(_, s)| s.starts_with(&format!("v{} ", i)));
                if !ok {
                    let m = format!("vol {} info sector changed by {:?}", i, &self.oplog[nops_before..]);
                    self.find("C16.other-volume", m);
                }
            }
        }
    }

    fn step2(&mut self, rng: &mut Rng) {
        self.detour.set(rng.below(3) == 0);
        let v = rng.below(self.vols.len() as u64) as usize;
        let act = rng.below(100);
        if act < 28 && self.handles.len() < 4 {
            // open
            let dirs = self.vols[v].dirs.clone();
            let dir = rng.pick(&dirs).clone();
            let mut names: Vec<String> = (0..10).map(|i| format!("N{}.DAT", i)).collect();
            let prefix = if dir.is_empty() { String::new() } else { format!("{}/", dir) };
            for p in self.vols[v].files.keys() {
                if let Some(rest) = p.strip_prefix(&prefix) {
                    if !rest.contains('/') && (dir.is_empty() || true) {
                        names.push(rest.to_string());
                    }
                }
            }
            let name = rng.pick(&names).clone();
            let path = format!("{}{}", prefix, name);
            if self.handles.iter().any(|h| h.vol == v && h.path == path) {
                return;
            }
            if self.vols[v].dirs.contains(&path) {
                return;
            }
            let mode = *rng.pick(&[
                Mode::ReadOnly,
                Mode::ReadWriteAppend,
                Mode::ReadWriteTruncate,
                Mode::ReadWriteCreate,
                Mode::ReadWriteCreateOrTruncate,
                Mode::ReadWriteCreateOrTruncate,
                Mode::ReadWriteCreateOrAppend,
                Mode::ReadWriteCreateOrAppend,
            ]);
            let exists = self.vols[v].files.contains_key(&path);
            self.op(format!("v{} open {} {:?} (exists={})", v, path, mode, exists));
            let truncating = exists && matches!(mode, Mode::ReadWriteTruncate | Mode::ReadWriteCreateOrTruncate);
            if truncating {
                st(5);
                self.begin_modify(v, &path);
            }
            let d = self.open_path_dir(v, &dir).expect("open dir");
            let free_before = self.free_of(v);
            let r = self.vm.open_file_in_dir(d, name.as_str(), mode);
            if !exists && r.is_ok() && self.free_of(v) < free_before {
                st(6);
            }
            self.vm.close_dir(d).unwrap();
            match r {
                Ok(raw) => {
                    let mut content = if exists { self.vols[v].files[&path].clone() } else { vec![] };
                    if truncating {
                        content.clear();
                    }
                    if !exists {
                        assert!(matches!(mode, Mode::ReadWriteCreate | Mode::ReadWriteCreateOrTruncate | Mode::ReadWriteCreateOrAppend));
                    }
                    let off = if matches!(mode, Mode::ReadWriteAppend | Mode::ReadWriteCreateOrAppend) { content.len() } else { 0 };
                    self.vols[v].files.insert(path.clone(), content.clone());
                    self.handles.push(Handle { vol: v, raw, path, content, off, ro: mode == Mode::ReadOnly });
                }
                Err(Error::NotFound) if !exists => {}
                Err(Error::FileAlreadyExists) if exists && mode == Mode::ReadWriteCreate => {}
                Err(Error::NotEnoughSpace) if !exists => st(1),
                Err(e) => self.find("api.open", format!("open {} {:?} -> {:?}", path, mode, e)),
            }
        } else if act < 60 && !self.handles.is_empty() {
            // write
            let hi = rng.below(self.handles.len() as u64) as usize;
            if self.handles[hi].ro {
                return;
            }
            let v = self.handles[hi].vol;
            let cbytes = cb(&self.vols[v].g);
            let n = match rng.below(6) {
                0 => 1 + rng.below(20) as usize,
                1 => 512,
                2 => cbytes,
                3 => cbytes + 1 + rng.below(600) as usize,
                4 => 2 * cbytes + rng.below(cbytes as u64) as usize,
                _ => 1 + rng.below(3 * cbytes as u64) as usize,
            };
            let n = if std::env::var("HUNT_BIG").is_ok() && rng.below(3) == 0 { n * (20 + rng.below(60) as usize) } else { n };
            let data = pattern(rng.next() as u32, n);
            let path = self.handles[hi].path.clone();
            let off = self.handles[hi].off;
            self.op(format!("v{} write {} off={} len={}", v, path, off, n));
            self.begin_modify(v, &path);
            let r = self.vm.write(self.handles[hi].raw, &data);
            let noff = self.vm.file_offset(self.handles[hi].raw).unwrap() as usize;
            let wrote = match r {
                Ok(()) => n,
                Err(Error::DiskFull) => {
                    st(0);
                    noff - off
                }
                Err(Error::NotEnoughSpace) => noff - off,
                Err(e) => {
                    self.find("api.write", format!("write {} -> {:?}", path, e));
                    noff - off
                }
            };
            if noff != off + wrote {
                self.find("api.write-off", format!("write {} offset {} expected {}", path, noff, off + wrote));
            }
            let h = &mut self.handles[hi];
            if h.content.len() < off + wrote {
                h.content.resize(off + wrote, 0);
            }
            h.content[off..off + wrote].copy_from_slice(&data[..wrote]);
            h.off = off + wrote;
            let len = self.vm.file_length(h.raw).unwrap() as usize;
            if len != h.content.len() {
                let m = format!("write {} length {} expected {}", path, len, h.content.len());
                self.find("api.write-len", m);
            }
        } else if act < 66 && !self.handles.is_empty() {
            // seek
            let hi = rng.below(self.handles.len() as u64) as usize;
            let len = self.handles[hi].content.len();
            let to = match rng.below(3) {
                0 => 0,
                1 => len,
                _ => rng.below(len as u64 + 1) as usize,
            };
            self.op(format!("seek {} to {}", self.handles[hi].path, to));
            self.vm.file_seek_from_start(self.handles[hi].raw, to as u32).expect("seek");
            self.handles[hi].off = to;
        } else if act < 76 && !self.handles.is_empty() {
            // flush
            let hi = rng.below(self.handles.len() as u64) as usize;
            let v = self.handles[hi].vol;
            let path = self.handles[hi].path.clone();
            self.op(format!("v{} flush {}", v, path));
            match self.vm.flush_file(self.handles[hi].raw) {
                Ok(()) => {
                    let c = self.handles[hi].content.clone();
                    self.claim(v, &path, c, "flush");
                    self.check_info(v, &format!("flush {}", path));
                }
                Err(e) => self.find("api.flush", format!("flush {} -> {:?}", path, e)),
            }
        } else if act < 86 && !self.handles.is_empty() {
            // close
            let hi = rng.below(self.handles.len() as u64) as usize;
            self.close_handle(hi);
        } else if act < 93 {
            // delete
            let cands: Vec<String> = self.vols[v]
                .files
                .keys()
                .filter(|p| !self.handles.iter().any(|h| h.vol == v && &h.path == *p))
                .cloned()
                .collect();
            if cands.is_empty() {
                return;
            }
            let path = rng.pick(&cands).clone();
            let (dir, name) = match path.rfind('/') {
                Some(p) => (path[..p].to_string(), path[p + 1..].to_string()),
                None => (String::new(), path.clone()),
            };
            self.op(format!("v{} delete {}", v, path));
            self.begin_modify(v, &path);
            let d = self.open_path_dir(v, &dir).expect("open dir");
            let r = self.vm.delete_file_in_dir(d, name.as_str());
            self.vm.close_dir(d).unwrap();
            match r {
                Ok(()) => {
                    if path.contains("LONG") || path.contains("PRE1") {
                        st(4);
                    }
                    self.vols[v].files.remove(&path);
                }
                Err(e) => self.find("api.delete", format!("delete {} -> {:?}", path, e)),
            }
        } else if act < 98 {
            // mkdir
            let dirs = self.vols[v].dirs.clone();
            let dir = rng.pick(&dirs).clone();
            if dir.matches('/').count() >= 2 {
                return;
            }
            let name = format!("D{}", rng.below(3));
            let path = if dir.is_empty() { name.clone() } else { format!("{}/{}", dir, name) };
            let exists = self.vols[v].dirs.contains(&path);
            self.op(format!("v{} mkdir {} (exists={})", v, path, exists));
            let d = self.open_path_dir(v, &dir).expect("open dir");
            let r = self.vm.make_dir_in_dir(d, name.as_str());
            self.vm.close_dir(d).unwrap();
            match r {
                Ok(()) if !exists => {
                    st(3);
                    self.vols[v].dirs.push(path)
                }
                Err(Error::DirAlreadyExists) if exists => {}
                Err(Error::NotEnoughSpace) if !exists => st(2),
                r => self.find("api.mkdir", format!("mkdir {} -> {:?}", path, r)),
            }
        } else {
            // remount vol v
            self.op(format!("v{} remount", v));
            while let Some(hi) = self.handles.iter().position(|h| h.vol == v) {
                self.close_handle(hi);
            }
            self.op(format!("v{} close_volume", v));
            match self.vm.close_volume(self.vols[v].raw.unwrap()) {
                Ok(()) => self.check_info(v, "close_volume"),
                Err(e) => self.find("api.close_volume", format!("{:?}", e)),
            }
            self.check_fats("close_volume");
            self.mount(v);
        }
        self.track_low();
        let what = self.oplog.last().map(|x| x.1.clone()).unwrap_or_default();
        self.check_fats(&what);
    }

    fn close_handle(&mut self, hi: usize) {
        let h = self.handles.remove(hi);
        self.op(format!("v{} close {}", h.vol, h.path));
        match self.vm.close_file(h.raw) {
            Ok(()) => {
                self.vols[h.vol].files.insert(h.path.clone(), h.content.clone());
                self.claim(h.vol, &h.path, h.content.clone(), "close");
                self.check_info(h.vol, &format!("close {}", h.path));
            }
            Err(e) => self.find("api.close", format!("close {} -> {:?}", h.path, e)),
        }
    }

    fn op_at(&self, l: usize) -> String {
        // op in progress when write number l (1-based count) was issued
        let mut cur = "<before first op>".to_string();
        for (i, (start, s)) in self.oplog.iter().enumerate() {
            if *start < l {
                cur = format!("op#{} {}", i, s);
            } else {
                break;
            }
        }
        cur
    }
}

fn run_history(seed: u64, nops: usize, verbose: bool) -> Vec<(String, String)> {
    let mut rng = Rng(seed.wrapping_mul(0x9E37_79B9_7F4A_7C15) | 1);
    for _ in 0..4 {
        rng.next();
    }
    let mut w = World::new(seed, &mut rng);
    let snapshot = w.dev.snapshot();
    // fsck of the initial image must be clean
    {
        let dev = w.dev.clone();
        for v in w.vols.iter() {
            let r = fsck(&|b| dev.get(b), &v.g);
            assert!(r.viol.is_empty(), "initial image dirty: {:?} {}", r.viol, w.desc);
            for (p, c) in v.files.iter() {
                assert_eq!(&r.tree[p].content, c, "initial {}", p);
            }
        }
    }
    for v in 0..w.vols.len() {
        w.mount(v);
    }
    for _ in 0..nops {
        w.step(&mut rng);
    }
    // final: close everything
    while !w.handles.is_empty() {
        w.close_handle(0);
    }
    for v in 0..w.vols.len() {
        w.op(format!("v{} final close_volume", v));
        match w.vm.close_volume(w.vols[v].raw.unwrap()) {
            Ok(()) => w.check_info(v, "final close_volume"),
            Err(e) => w.find("api.close_volume", format!("{:?}", e)),
        }
    }
    w.check_fats("final");
    // final state vs model
    {
        let dev = w.dev.clone();
        for vi in 0..w.vols.len() {
            let r = fsck(&|b| dev.get(b), &w.vols[vi].g);
            let files = w.vols[vi].files.clone();
            for (p, c) in files.iter() {
                match r.tree.get(p) {
                    Some(n) if &n.content == c && n.size as usize == c.len() => {}
                    Some(n) => w.find("model.final", format!("final {}: size {} model {}", p, n.size, c.len())),
                    None => w.find("model.final", format!("final {} missing", p)),
                }
            }
        }
    }

    // crash prefixes
    let log = w.dev.0.log.borrow().clone();
    let crash = snapshot.to_dev(0xFFFF_FF00);
    for l in 0..=log.len() {
        if l > 0 {
            crash.put(log[l - 1].0, log[l - 1].1);
        }
        for vi in 0..w.vols.len() {
            let g = w.vols[vi].g.clone();
            let c2 = crash.clone();
            let r = fsck(&|b| c2.get(b), &g);
            if !r.viol.is_empty() {
                let cat = format!("C10.{}", r.viol[0].split(|c: char| c.is_ascii_digit() || c == '\'').next().unwrap_or("").trim());
                let m = format!("prefix {}/{} (block {}), during {}: {:?}", l, log.len(), if l > 0 { log[l - 1].0 } else { 0 }, w.op_at(l), r.viol);
                w.find(&cat, m);
            }
            let claims = w.vols[vi].claims.clone();
            for c in claims.iter() {
                if c.from <= l && l <= c.to.unwrap_or(log.len()) {
                    match r.tree.get(&c.path) {
                        Some(n) if n.size as usize >= c.content.len() && n.content.len() >= c.content.len() && n.content[..c.content.len()] == c.content[..] => {}
                        Some(n) => {
                            let m = format!(
                                "prefix {}/{} during {}: '{}' ({} at {}, len {}) now size {} readable {} equal-prefix {}",
                                l, log.len(), w.op_at(l), c.path, c.why, c.from, c.content.len(), n.size, n.content.len(),
                                n.content.iter().zip(c.content.iter()).take_while(|(a, b)| a == b).count()
                            );
                            w.find("C09.content", m);
                        }
                        None => {
                            let m = format!("prefix {}/{} during {}: '{}' ({} at {}, len {}) is gone", l, log.len(), w.op_at(l), c.path, c.why, c.from, c.content.len());
                            w.find("C09.gone", m);
                        }
                    }
                }
            }
        }
        // the library must mount it and list the root
        if l % 7 == 0 || l == log.len() {
            let vm: VM = VolumeManager::new_with_limits(crash.clone(), Clock, 9000);
            for vi in 0..w.vols.len() {
                match vm.open_raw_volume(VolumeIdx(vi)) {
                    Ok(rv) => {
                        let d = vm.open_root_dir(rv).unwrap();
                        if let Err(e) = vm.iterate_dir(d, |_| {}) {
                            w.find("C10.mount-list", format!("prefix {} root listing fails {:?}", l, e));
                        }
                        vm.close_dir(d).unwrap();
                        vm.close_volume(rv).ok();
                    }
                    Err(e) => w.find("C10.mount", format!("prefix {} does not mount {:?}", l, e)),
                }
            }
            // the mount must not have written anything
        }
    }
    if verbose || !w.findings.is_empty() {
        println!("==== {} writes={} ops={}", w.desc, log.len(), w.oplog.len());
        if !w.findings.is_empty() {
            for (i, (l, s)) in w.oplog.iter().enumerate() {
                println!("   op#{} @{} {}", i, l, s);
            }
            for (c, m) in w.findings.iter() {
                println!("  FINDING {}: {}", c, m);
            }
        }
    }
    w.findings.iter().map(|(c, m)| (c.clone(), format!("{} :: {}", w.desc, m))).collect()
}

#[test]
fn hunt() {
    let start: u64 = std::env::var("HUNT_START").ok().and_then(|s| s.parse().ok()).unwrap_or(1);
    let n: u64 = std::env::var("HUNT_N").ok().and_then(|s| s.parse().ok()).unwrap_or(20);
    let nops: usize = std::env::var("HUNT_OPS").ok().and_then(|s| s.parse().ok()).unwrap_or(60);
    let verbose = std::env::var("HUNT_V").is_ok();
    let mut all: BTreeMap<String, (u64, String, usize)> = BTreeMap::new();
    for seed in start..start + n {
        for (c, m) in run_history(seed, nops, verbose) {
            let e = all.entry(c).or_insert((seed, m, 0));
            e.2 += 1;
        }
    }
    for (c, (seed, m, cnt)) in all.iter() {
        println!("SUMMARY {} x{} first seed {}: {}", c, cnt, seed, m);
    }
    println!("STATS diskfull={} open-nospace={} mkdir-nospace={} mkdir-ok={} del-lfn={} trunc={} grow={}", ST[0].load(Ordering::Relaxed), ST[1].load(Ordering::Relaxed), ST[2].load(Ordering::Relaxed), ST[3].load(Ordering::Relaxed), ST[4].load(Ordering::Relaxed), ST[5].load(Ordering::Relaxed), ST[6].load(Ordering::Relaxed));
    assert!(all.is_empty());
}
