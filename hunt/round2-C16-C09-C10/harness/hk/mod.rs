//! Hunt kit: write-logging sparse device, mkfs, fsck/reader.
#![allow(dead_code)]

use embedded_sdmmc::{Block, BlockCount, BlockDevice, BlockIdx};
use std::cell::RefCell;
use std::collections::{BTreeMap, HashMap, HashSet};
use std::rc::Rc;

pub type Blk = [u8; 512];

#[derive(Clone, Debug)]
pub struct Geo {
    pub fat32: bool,
    pub spc: u32,
    pub nfats: u32,
    pub clusters: u32,
    pub root_entries: u32,
    pub reserved: u32,
    pub lba: u32,
    pub fat_size: u32,
    pub root_cluster: u32,
    pub info_sec: u32,
}

impl Geo {
    pub fn new(fat32: bool, spc: u32, nfats: u32, clusters: u32, root_entries: u32, lba: u32) -> Geo {
        let esz = if fat32 { 4 } else { 2 };
        let fat_size = ((clusters + 2) * esz + 511) / 512;
        Geo {
            fat32,
            spc,
            nfats,
            clusters,
            root_entries: if fat32 { 0 } else { root_entries },
            reserved: if fat32 { 32 } else { 1 },
            lba,
            fat_size,
            root_cluster: 2,
            info_sec: 1,
        }
    }
    pub fn fat_start(&self, n: u32) -> u32 {
        self.lba + self.reserved + n * self.fat_size
    }
    pub fn root_start(&self) -> u32 {
        self.lba + self.reserved + self.nfats * self.fat_size
    }
    pub fn root_blocks(&self) -> u32 {
        (self.root_entries * 32 + 511) / 512
    }
    pub fn data_start(&self) -> u32 {
        self.root_start() + self.root_blocks()
    }
    pub fn total(&self) -> u32 {
        self.reserved + self.nfats * self.fat_size + self.root_blocks() + self.clusters * self.spc
    }
    pub fn end(&self) -> u32 {
        self.lba + self.total()
    }
    pub fn cl_block(&self, c: u32) -> u32 {
        self.data_start() + (c - 2) * self.spc
    }
    pub fn info_block(&self) -> u32 {
        self.lba + self.info_sec
    }
    pub fn eoc(&self) -> u32 {
        if self.fat32 { 0x0FFF_FFFF } else { 0xFFFF }
    }
    pub fn bad(&self) -> u32 {
        if self.fat32 { 0x0FFF_FFF7 } else { 0xFFF7 }
    }
    pub fn is_eoc(&self, v: u32) -> bool {
        if self.fat32 { v >= 0x0FFF_FFF8 } else { v >= 0xFFF8 }
    }
}

pub struct Inner {
    pub blocks: RefCell<HashMap<u32, Blk>>,
    pub log: RefCell<Vec<(u32, Blk)>>,
    pub junk: RefCell<Vec<(u32, u32)>>,
    pub nblocks: u32,
}

#[derive(Clone)]
pub struct Dev(pub Rc<Inner>);

pub fn junk_block(b: u32) -> Blk {
    let mut blk = [0u8; 512];
    for i in 0..16u32 {
        let e = &mut blk[(i * 32) as usize..(i * 32 + 32) as usize];
        let name = format!("JK{:06X}", (b.wrapping_mul(16) + i) & 0xFF_FFFF);
        e[0..8].copy_from_slice(name.as_bytes());
        e[8..11].copy_from_slice(b"JNK");
        e[11] = if i % 3 == 0 { 0x10 } else { 0x20 };
        let cl = 2 + (b.wrapping_mul(7) + i * 3) % 60;
        e[26..28].copy_from_slice(&(cl as u16).to_le_bytes());
        e[28..32].copy_from_slice(&(1000u32 + i).to_le_bytes());
    }
    blk
}

impl Dev {
    pub fn new(nblocks: u32) -> Dev {
        Dev(Rc::new(Inner {
            blocks: RefCell::new(HashMap::new()),
            log: RefCell::new(Vec::new()),
            junk: RefCell::new(Vec::new()),
            nblocks,
        }))
    }
    pub fn get(&self, b: u32) -> Blk {
        if let Some(x) = self.0.blocks.borrow().get(&b) {
            return *x;
        }
        for (s, e) in self.0.junk.borrow().iter() {
            if b >= *s && b < *e {
                return junk_block(b);
            }
        }
        [0u8; 512]
    }
    pub fn put(&self, b: u32, blk: Blk) {
        self.0.blocks.borrow_mut().insert(b, blk);
    }
    pub fn log_len(&self) -> usize {
        self.0.log.borrow().len()
    }
    pub fn snapshot(&self) -> Image {
        Image {
            blocks: self.0.blocks.borrow().clone(),
            junk: self.0.junk.borrow().clone(),
        }
    }
}

impl BlockDevice for Dev {
    type Error = ();
    fn read(&self, blocks: &mut [Block], start: BlockIdx) -> Result<(), ()> {
        for (i, b) in blocks.iter_mut().enumerate() {
            let idx = start.0 + i as u32;
            if idx >= self.0.nblocks {
                panic!("read past device end: {}", idx);
            }
            b.contents = self.get(idx);
        }
        Ok(())
    }
    fn write(&self, blocks: &[Block], start: BlockIdx) -> Result<(), ()> {
        for (i, b) in blocks.iter().enumerate() {
            let idx = start.0 + i as u32;
            if idx >= self.0.nblocks {
                panic!("write past device end: {}", idx);
            }
            self.put(idx, b.contents);
            self.0.log.borrow_mut().push((idx, b.contents));
        }
        Ok(())
    }
    fn num_blocks(&self) -> Result<BlockCount, ()> {
        Ok(BlockCount(self.0.nblocks))
    }
}

/// A standalone image (snapshot + applied prefix of the log)
#[derive(Clone)]
pub struct Image {
    pub blocks: HashMap<u32, Blk>,
    pub junk: Vec<(u32, u32)>,
}

impl Image {
    pub fn get(&self, b: u32) -> Blk {
        if let Some(x) = self.blocks.get(&b) {
            return *x;
        }
        for (s, e) in self.junk.iter() {
            if b >= *s && b < *e {
                return junk_block(b);
            }
        }
        [0u8; 512]
    }
    pub fn to_dev(&self, nblocks: u32) -> Dev {
        let d = Dev::new(nblocks);
        *d.0.blocks.borrow_mut() = self.blocks.clone();
        *d.0.junk.borrow_mut() = self.junk.clone();
        d
    }
}

// ---------------------------------------------------------------- mkfs

pub struct Mk<'a> {
    pub dev: &'a Dev,
    pub g: Geo,
    pub fat: Vec<u32>,
    pub free_list: Vec<u32>, // clusters available to the populate step, in order
}

pub fn write_mbr(dev: &Dev, parts: &[(&Geo,)]) {
    let mut b = [0u8; 512];
    for (i, (g,)) in parts.iter().enumerate() {
        let o = 446 + i * 16;
        b[o + 4] = if g.fat32 { 0x0C } else { 0x06 };
        b[o + 8..o + 12].copy_from_slice(&g.lba.to_le_bytes());
        b[o + 12..o + 16].copy_from_slice(&g.total().to_le_bytes());
    }
    b[510] = 0x55;
    b[511] = 0xAA;
    dev.put(0, b);
}

impl<'a> Mk<'a> {
    /// `free`: clusters left free or used by the tree; everything else is marked bad.
    pub fn new(dev: &'a Dev, g: Geo, avail: &[u32]) -> Mk<'a> {
        let mut fat = vec![g.bad(); (g.clusters + 2) as usize];
        fat[0] = if g.fat32 { 0x0FFF_FFF8 } else { 0xFFF8 };
        fat[1] = g.eoc();
        for c in avail {
            assert!(*c >= 2 && *c < g.clusters + 2);
            fat[*c as usize] = 0;
        }
        let mut bs = [0u8; 512];
        bs[0] = 0xEB;
        bs[1] = 0x3C;
        bs[2] = 0x90;
        bs[3..11].copy_from_slice(b"HUNTKIT ");
        bs[11..13].copy_from_slice(&512u16.to_le_bytes());
        bs[13] = g.spc as u8;
        bs[14..16].copy_from_slice(&(g.reserved as u16).to_le_bytes());
        bs[16] = g.nfats as u8;
        bs[17..19].copy_from_slice(&(g.root_entries as u16).to_le_bytes());
        bs[21] = 0xF8;
        bs[32..36].copy_from_slice(&g.total().to_le_bytes());
        if g.fat32 {
            bs[36..40].copy_from_slice(&g.fat_size.to_le_bytes());
            bs[44..48].copy_from_slice(&g.root_cluster.to_le_bytes());
            bs[48..50].copy_from_slice(&(g.info_sec as u16).to_le_bytes());
            bs[50..52].copy_from_slice(&6u16.to_le_bytes());
            bs[66] = 0x29;
            bs[71..82].copy_from_slice(b"HUNT32     ");
            bs[82..90].copy_from_slice(b"FAT32   ");
        } else {
            bs[22..24].copy_from_slice(&(g.fat_size as u16).to_le_bytes());
            bs[38] = 0x29;
            bs[43..54].copy_from_slice(b"HUNT16     ");
            bs[54..62].copy_from_slice(b"FAT16   ");
        }
        bs[510] = 0x55;
        bs[511] = 0xAA;
        dev.put(g.lba, bs);
        dev.0.junk.borrow_mut().push((g.data_start(), g.end()));
        Mk {
            dev,
            g,
            fat,
            free_list: avail.to_vec(),
        }
    }

    pub fn take(&mut self) -> u32 {
        self.free_list.remove(0)
    }

    /// allocate a chain of n clusters, returns them
    pub fn chain(&mut self, n: usize) -> Vec<u32> {
        let cl: Vec<u32> = (0..n).map(|_| self.take()).collect();
        for i in 0..n {
            self.fat[cl[i] as usize] = if i + 1 < n { cl[i + 1] } else { self.g.eoc() };
        }
        cl
    }

    pub fn write_chain_data(&self, cl: &[u32], data: &[u8]) {
        let mut off = 0usize;
        for c in cl {
            for s in 0..self.g.spc {
                let mut b = [0u8; 512];
                if off < data.len() {
                    let n = (data.len() - off).min(512);
                    b[..n].copy_from_slice(&data[off..off + n]);
                }
                off += 512;
                self.dev.put(self.g.cl_block(*c) + s, b);
            }
        }
    }

    pub fn finish(&self, info_count: u32, info_hint: u32) {
        let esz = if self.g.fat32 { 4 } else { 2 };
        for n in 0..self.g.nfats {
            for s in 0..self.g.fat_size {
                let mut b = [0u8; 512];
                for i in 0..(512 / esz) {
                    let c = s * (512 / esz) + i;
                    // slack entries behind the last cluster: nonzero junk would hide
                    // bugs, zero is what format tools leave
                    let v = if (c as usize) < self.fat.len() { self.fat[c as usize] } else { 0 };
                    let o = (i * esz) as usize;
                    if self.g.fat32 {
                        // reserved top nibble: must be ignored and preserved
                        let v = if c >= 2 && c % 3 == 0 { v | 0xA000_0000 } else { v };
                        b[o..o + 4].copy_from_slice(&v.to_le_bytes());
                    } else {
                        b[o..o + 2].copy_from_slice(&(v as u16).to_le_bytes());
                    }
                }
                self.dev.put(self.g.fat_start(n) + s, b);
            }
        }
        if self.g.fat32 {
            let mut b = [0u8; 512];
            b[0..4].copy_from_slice(&0x4161_5252u32.to_le_bytes());
            b[484..488].copy_from_slice(&0x6141_7272u32.to_le_bytes());
            b[488..492].copy_from_slice(&info_count.to_le_bytes());
            b[492..496].copy_from_slice(&info_hint.to_le_bytes());
            b[508..512].copy_from_slice(&0xAA55_0000u32.to_le_bytes());
            self.dev.put(self.g.info_block(), b);
        }
        // FAT16 root region is zeroed by default (not in junk range)
    }

    pub fn free_now(&self) -> u32 {
        self.fat[2..].iter().filter(|v| **v == 0).count() as u32
    }
}

pub fn sfn_bytes(name: &str) -> [u8; 11] {
    let mut out = [b' '; 11];
    let (base, ext) = match name.rfind('.') {
        Some(p) if p > 0 => (&name[..p], &name[p + 1..]),
        _ => (name, ""),
    };
    for (i, c) in base.bytes().take(8).enumerate() {
        out[i] = c.to_ascii_uppercase();
    }
    for (i, c) in ext.bytes().take(3).enumerate() {
        out[8 + i] = c.to_ascii_uppercase();
    }
    out
}

pub fn lfn_csum(sfn: &[u8; 11]) -> u8 {
    let mut s = 0u8;
    for b in sfn {
        s = ((s & 1) << 7).wrapping_add(s >> 1).wrapping_add(*b);
    }
    s
}

pub fn short_entry(name: &str, attr: u8, cluster: u32, size: u32) -> [u8; 32] {
    let mut e = [0u8; 32];
    if name == "." {
        e[0..11].copy_from_slice(b".          ");
    } else if name == ".." {
        e[0..11].copy_from_slice(b"..         ");
    } else {
        e[0..11].copy_from_slice(&sfn_bytes(name));
    }
    e[11] = attr;
    e[13] = 77; // creation tenths
    e[14..16].copy_from_slice(&0x6000u16.to_le_bytes());
    e[16..18].copy_from_slice(&0x5021u16.to_le_bytes());
    e[18..20].copy_from_slice(&0x5021u16.to_le_bytes());
    e[20..22].copy_from_slice(&((cluster >> 16) as u16).to_le_bytes());
    e[22..24].copy_from_slice(&0x6000u16.to_le_bytes());
    e[24..26].copy_from_slice(&0x5021u16.to_le_bytes());
    e[26..28].copy_from_slice(&(cluster as u16).to_le_bytes());
    e[28..32].copy_from_slice(&size.to_le_bytes());
    e
}

/// LFN fragments + the short entry
pub fn entries_with_lfn(name: &str, lfn: &str, attr: u8, cluster: u32, size: u32) -> Vec<[u8; 32]> {
    let sfn = sfn_bytes(name);
    let cs = lfn_csum(&sfn);
    let mut units: Vec<u16> = lfn.encode_utf16().collect();
    let nfrag = (units.len() + 12) / 13;
    if units.len() % 13 != 0 {
        units.push(0);
        while units.len() % 13 != 0 {
            units.push(0xFFFF);
        }
    }
    let mut out = Vec::new();
    for f in (0..nfrag).rev() {
        let mut e = [0u8; 32];
        e[0] = (f as u8 + 1) | if f == nfrag - 1 { 0x40 } else { 0 };
        e[11] = 0x0F;
        e[13] = cs;
        let u = &units[f * 13..f * 13 + 13];
        let pos = [1, 3, 5, 7, 9, 14, 16, 18, 20, 22, 24, 28, 30];
        for (k, p) in pos.iter().enumerate() {
            e[*p..*p + 2].copy_from_slice(&u[k].to_le_bytes());
        }
        out.push(e);
    }
    out.push(short_entry(name, attr, cluster, size));
    out
}

impl<'a> Mk<'a> {
    /// Write a directory's entries into a fresh chain (or the FAT16 root), zero-filled.
    /// Returns the chain.
    pub fn write_dir(&mut self, entries: &[[u8; 32]], root16: bool, preset_chain: Option<Vec<u32>>) -> Vec<u32> {
        let mut bytes = Vec::new();
        for e in entries {
            bytes.extend_from_slice(e);
        }
        if root16 {
            assert!(entries.len() as u32 <= self.g.root_entries);
            for s in 0..self.g.root_blocks() {
                let mut b = [0u8; 512];
                let off = (s * 512) as usize;
                if off < bytes.len() {
                    let n = (bytes.len() - off).min(512);
                    b[..n].copy_from_slice(&bytes[off..off + n]);
                }
                self.dev.put(self.g.root_start() + s, b);
            }
            return vec![];
        }
        let cb = (self.g.spc * 512) as usize;
        let n = ((bytes.len() + cb - 1) / cb).max(1);
        let cl = match preset_chain {
            Some(c) => {
                assert!(c.len() >= n);
                c
            }
            None => self.chain(n),
        };
        self.write_chain_data(&cl, &bytes);
        cl
    }
}

// ---------------------------------------------------------------- fsck / reader

#[derive(Debug, Clone)]
pub struct FNode {
    pub size: u32,
    pub content: Vec<u8>, // as much as the chain gives, up to size
    pub is_dir: bool,
    pub cluster: u32,
}

pub struct Fsck {
    pub viol: Vec<String>, // C10 violations
    pub notes: Vec<String>, // permitted residue
    pub tree: BTreeMap<String, FNode>,
    pub free: u32,
    pub fat: Vec<u32>,
}

pub fn read_fat(img: &dyn Fn(u32) -> Blk, g: &Geo, n: u32) -> Vec<u32> {
    let mut fat = Vec::with_capacity((g.clusters + 2) as usize);
    let esz = if g.fat32 { 4usize } else { 2 };
    'outer: for s in 0..g.fat_size {
        let b = img(g.fat_start(n) + s);
        for i in 0..(512 / esz) {
            if fat.len() as u32 >= g.clusters + 2 {
                break 'outer;
            }
            let o = i * esz;
            let v = if g.fat32 {
                u32::from_le_bytes([b[o], b[o + 1], b[o + 2], b[o + 3]]) & 0x0FFF_FFFF
            } else {
                u16::from_le_bytes([b[o], b[o + 1]]) as u32
            };
            fat.push(v);
        }
    }
    fat
}

pub fn fsck(img: &dyn Fn(u32) -> Blk, g: &Geo) -> Fsck {
    let fat = read_fat(img, g, 0);
    let mut r = Fsck {
        viol: vec![],
        notes: vec![],
        tree: BTreeMap::new(),
        free: fat[2..].iter().filter(|v| **v == 0).count() as u32,
        fat,
    };
    let mut owner: HashMap<u32, String> = HashMap::new();
    // root
    if g.fat32 {
        walk_dir(img, g, &mut r, &mut owner, "", Some(g.root_cluster), 0);
    } else {
        walk_dir(img, g, &mut r, &mut owner, "", None, 0);
    }
    // orphans
    for c in 2..g.clusters + 2 {
        let v = r.fat[c as usize];
        if v == 0 || v == g.bad() || owner.contains_key(&c) {
            continue;
        }
        if g.is_eoc(v) {
            continue;
        }
        if v < 2 || v >= g.clusters + 2 {
            r.viol.push(format!("orphan cluster {} links out of range ({:#x})", c, v));
        } else if r.fat[v as usize] == 0 {
            r.viol.push(format!("orphan cluster {} links into free cluster {}", c, v));
        } else if r.fat[v as usize] == g.bad() {
            r.viol.push(format!("orphan cluster {} links into bad cluster {}", c, v));
        } else if let Some(o) = owner.get(&v) {
            r.viol.push(format!("orphan cluster {} links into live chain of '{}' at {}", c, o, v));
        }
    }
    r
}

fn chain_of(g: &Geo, r: &mut Fsck, owner: &mut HashMap<u32, String>, who: &str, first: u32) -> Vec<u32> {
    let mut out = vec![];
    let mut seen = HashSet::new();
    let mut c = first;
    loop {
        if c < 2 || c >= g.clusters + 2 {
            r.viol.push(format!("'{}' refers to out-of-range cluster {:#x}", who, c));
            break;
        }
        let v = r.fat[c as usize];
        if v == 0 {
            r.viol.push(format!("'{}' refers to free cluster {}", who, c));
            break;
        }
        if v == g.bad() {
            r.viol.push(format!("'{}' refers to bad cluster {}", who, c));
            break;
        }
        if !seen.insert(c) {
            r.viol.push(format!("'{}' chain is cyclic at {}", who, c));
            break;
        }
        if let Some(o) = owner.get(&c) {
            r.viol.push(format!("'{}' shares cluster {} with '{}'", who, c, o));
            break;
        }
        owner.insert(c, who.to_string());
        out.push(c);
        if g.is_eoc(v) {
            break;
        }
        c = v;
    }
    out
}

fn walk_dir(
    img: &dyn Fn(u32) -> Blk,
    g: &Geo,
    r: &mut Fsck,
    owner: &mut HashMap<u32, String>,
    path: &str,
    first: Option<u32>,
    depth: u32,
) {
    if depth > 8 {
        r.viol.push(format!("directory nesting too deep at '{}'", path));
        return;
    }
    let who = if path.is_empty() { "/".to_string() } else { path.to_string() };
    // (block, slots)
    let mut blocks: Vec<(u32, usize)> = vec![];
    match first {
        None => {
            for s in 0..g.root_blocks() {
                let slots = (g.root_entries as usize).saturating_sub(s as usize * 16).min(16);
                blocks.push((g.root_start() + s, slots));
            }
        }
        Some(c) => {
            for c in chain_of(g, r, owner, &who, c) {
                for s in 0..g.spc {
                    blocks.push((g.cl_block(c) + s, 16));
                }
            }
        }
    }
    let mut ended = false;
    let mut subdirs = vec![];
    for (bn, slots) in blocks {
        let b = img(bn);
        for i in 0..slots {
            let e = &b[i * 32..i * 32 + 32];
            if ended {
                if e.iter().any(|x| *x != 0) {
                    r.viol.push(format!(
                        "dir '{}': non-zero bytes behind the end marker (block {} slot {}: {:02x?})",
                        who, bn, i, &e[..12]
                    ));
                    return;
                }
                continue;
            }
            if e[0] == 0 {
                ended = true;
                continue;
            }
            if e[0] == 0xE5 {
                continue;
            }
            let attr = e[11];
            if attr & 0x3F == 0x0F {
                continue;
            }
            if attr & 0x08 != 0 {
                continue;
            }
            let name = {
                let base = String::from_utf8_lossy(&e[0..8]).trim_end().to_string();
                let ext = String::from_utf8_lossy(&e[8..11]).trim_end().to_string();
                if ext.is_empty() { base } else { format!("{}.{}", base, ext) }
            };
            let mut cl = u16::from_le_bytes([e[26], e[27]]) as u32;
            if g.fat32 {
                cl |= (u16::from_le_bytes([e[20], e[21]]) as u32) << 16;
            }
            let size = u32::from_le_bytes([e[28], e[29], e[30], e[31]]);
            if name == "." || name == ".." {
                continue;
            }
            let p = if path.is_empty() { name.clone() } else { format!("{}/{}", path, name) };
            if r.tree.contains_key(&p) {
                r.notes.push(format!("duplicate name '{}'", p));
                continue;
            }
            if attr & 0x10 != 0 {
                if cl < 2 || cl >= g.clusters + 2 {
                    r.viol.push(format!("sub-directory entry '{}' without a cluster of its own ({:#x})", p, cl));
                    continue;
                }
                r.tree.insert(p.clone(), FNode { size, content: vec![], is_dir: true, cluster: cl });
                subdirs.push((p, cl));
            } else {
                let mut content = vec![];
                if cl == 0 {
                    if size != 0 {
                        r.viol.push(format!("file '{}' has size {} but no cluster", p, size));
                    }
                } else {
                    let ch = chain_of(g, r, owner, &p, cl);
                    'rd: for c in ch {
                        for s in 0..g.spc {
                            if content.len() as u32 >= size {
                                break 'rd;
                            }
                            let b = img(g.cl_block(c) + s);
                            let n = ((size as usize) - content.len()).min(512);
                            content.extend_from_slice(&b[..n]);
                        }
                    }
                    if (content.len() as u32) < size {
                        r.notes.push(format!("file '{}' size {} longer than chain ({})", p, size, content.len()));
                    }
                }
                r.tree.insert(p, FNode { size, content, is_dir: false, cluster: cl });
            }
        }
    }
    for (p, cl) in subdirs {
        walk_dir(img, g, r, owner, &p, Some(cl), depth + 1);
    }
}

// ---------------------------------------------------------------- rng

pub struct Rng(pub u64);
impl Rng {
    pub fn next(&mut self) -> u64 {
        self.0 ^= self.0 << 13;
        self.0 ^= self.0 >> 7;
        self.0 ^= self.0 << 17;
        self.0
    }
    pub fn below(&mut self, n: u64) -> u64 {
        (self.next() >> 11) % n
    }
    pub fn pick<'a, T>(&mut self, v: &'a [T]) -> &'a T {
        &v[self.below(v.len() as u64) as usize]
    }
}

pub struct Clock;
impl embedded_sdmmc::TimeSource for Clock {
    fn get_timestamp(&self) -> embedded_sdmmc::Timestamp {
        embedded_sdmmc::Timestamp {
            year_since_1970: 55,
            zero_indexed_month: 3,
            zero_indexed_day: 4,
            hours: 10,
            minutes: 11,
            seconds: 12,
        }
    }
}
