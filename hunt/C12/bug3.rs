// bug3.rs - property C14 (and C12)
//
// DEFECT: CMD0 is sent without looking at the busy signal. After
// mark_card_uninit() the next call re-initialises the card and clocks out
// CMD0 - up to 51 times - while the card is holding DataOut low.
//
// card_command() (src/sdcard/mod.rs:533-535) skips wait_not_busy() for CMD0.
// acquire() (mod.rs:444-470) starts with CMD0 straight away. If the previous
// operation left the card busy - legal: STOP_TRANSMISSION answers R1b, "busy
// may follow", and read() (mod.rs:246-250) returns right after the R1 byte;
// the same after the Stop Tran token of a multi-block write - the reset
// command is sent into the busy period. The busy card does not listen; the
// driver reads the 0x00 busy byte as an R1 of 0x00 (mod.rs:557), finds it is
// not R1_IDLE_STATE, "tries again" (mod.rs:463-466) without any pause on the
// bus, and after acquire_retries + 1 = 51 frames (357 byte times) gives up
// with CardNotFound - on a card that is perfectly healthy and would have been
// ready a moment later.
//
// Card behaviour used here (legal): busy for 1000 byte times after the R1 of
// CMD12 (a tenth of the driver's command timeout of 10_000 polls).
//
// Violated clauses:
//   C14: "Every command the driver sends ... is sent only when the card is
//         able to accept it: not while the card signals busy", quantified
//         over "all sequences of driver calls ..., including
//         re-initialisation after mark-uninitialised"
//   C12: "a block read returns the 512 bytes the card stores at that block
//         number" (it returns CardNotFound), "the card kind is identified
//         correctly" (get_card_type() gives None)
//
// What should have happened: acquire() lets a busy card finish (wait for 0xFF
// with a timeout, and carry on with CMD0 regardless once it expires, for
// cards that are not in SPI mode yet) before the first CMD0, and again
// before each retry.
//
// Run: cargo test --offline --test bug3
// ===========================================================================
// Byte-level simulated SD card (SPI mode) with a protocol monitor.
//
// One call of `Card::xfer(mosi) -> miso` is one 8-clock SPI byte time. The
// MISO byte of an exchange is decided before the MOSI byte of the same
// exchange is looked at (a card cannot answer a byte it has not seen yet).
//
// Everything the card does is legal under the SD Physical Layer
// Specification, chapter 7 (SPI mode); the timing knobs are the ones the
// specification leaves to the card (table "Timing values": N_CR, N_AC, N_BR,
// busy length) and are settable per test.
// ===========================================================================
#![allow(dead_code)]

use embedded_hal::spi::{ErrorType, Operation, SpiDevice};
use std::cell::RefCell;
use std::collections::{HashMap, VecDeque};
use std::convert::Infallible;
use std::rc::Rc;

#[derive(Clone, Copy, PartialEq, Eq, Debug)]
pub enum Kind {
    V1Sc,
    V2Sc,
    V2Hc,
}

#[derive(Clone, Copy, PartialEq, Eq, Debug)]
enum Phase {
    /// Powered, never saw CMD0
    PowerOn,
    /// After CMD0, in idle state
    Idle,
    /// Identification finished (ACMD41 answered 0x00)
    Ready,
}

#[derive(Clone, PartialEq, Eq, Debug)]
enum Rx {
    /// Listening for command frames
    Command,
    /// Write command accepted, waiting for a start token
    AwaitToken { multi: bool, block: u64, gap_seen: usize },
    /// Receiving 512 + 2 bytes
    Data { multi: bool, block: u64, buf: Vec<u8> },
}

pub struct Card {
    pub kind: Kind,
    pub csd: [u8; 16],
    pub capacity_blocks: u64,
    pub store: HashMap<u64, [u8; 512]>,

    // ---- timing knobs, all legal values ----
    /// N_CR: 0xFF bytes between command and response (0..=8)
    pub ncr: usize,
    /// N_AC: 0xFF bytes before a read data token
    pub nac: usize,
    /// busy bytes after each accepted data block of a write
    pub busy_block: usize,
    /// N_BR: bytes between the stop-tran token and the busy signal (0..=1)
    pub nbr: usize,
    /// busy bytes after the stop-tran token
    pub busy_stop: usize,
    /// busy bytes after the R1 of CMD12 (R1b)
    pub busy_cmd12: usize,
    /// number of ACMD41 that answer "still initialising"
    pub acmd41_iters: usize,
    /// The card only listens for the start token once N_WR (min. 1 byte) has
    /// gone by after its response to the write command
    pub strict_nwr: bool,

    // ---- state ----
    phase: Phase,
    rx: Rx,
    crc_on: bool,
    app_cmd: bool,
    saw_cmd8: bool,
    acmd41_left: usize,
    frame: Vec<u8>,
    /// (byte, card-signals-busy-during-this-byte)
    out: VecDeque<(u8, bool)>,
    reading_multi: Option<u64>,
    busy_run: usize,

    // ---- monitor ----
    pub violations: Vec<String>,
    pub commands: Vec<(u8, u32)>,
    pub bytes_clocked: u64,
}

pub fn crc7(data: &[u8]) -> u8 {
    let mut crc: u8 = 0;
    for &b in data {
        for i in (0..8).rev() {
            let bit = (b >> i) & 1;
            let top = (crc >> 6) & 1;
            crc = (crc << 1) & 0x7F;
            if bit ^ top == 1 {
                crc ^= 0x09;
            }
        }
    }
    crc
}

pub fn crc16(data: &[u8]) -> u16 {
    let mut crc: u16 = 0;
    for &b in data {
        crc ^= (b as u16) << 8;
        for _ in 0..8 {
            if crc & 0x8000 != 0 {
                crc = (crc << 1) ^ 0x1021;
            } else {
                crc <<= 1;
            }
        }
    }
    crc
}

/// CSD version 1.0 for a standard-capacity card
pub fn csd_v1(c_size: u32, c_size_mult: u8, read_bl_len: u8) -> [u8; 16] {
    let mut d = [0u8; 16];
    d[0] = 0x00;
    d[1] = 0x26;
    d[3] = 0x32;
    d[4] = 0x5F;
    d[5] = 0x50 | (read_bl_len & 0x0F);
    d[6] = 0x80 | ((c_size >> 10) as u8 & 0x03);
    d[7] = (c_size >> 2) as u8;
    d[8] = ((c_size & 3) as u8) << 6 | 0x2D;
    d[9] = 0xD8 | ((c_size_mult >> 1) & 3);
    d[10] = ((c_size_mult & 1) << 7) | 0x7F;
    d[11] = 0xFF;
    d[12] = 0x92;
    d[13] = 0x80;
    d[14] = 0x40;
    d[15] = (crc7(&d[0..15]) << 1) | 1;
    d
}

/// CSD version 2.0 for a high-capacity card
pub fn csd_v2(c_size: u32) -> [u8; 16] {
    let mut d = [0u8; 16];
    d[0] = 0x40;
    d[1] = 0x0E;
    d[3] = 0x32;
    d[4] = 0x5B;
    d[5] = 0x59;
    d[7] = (c_size >> 16) as u8 & 0x3F;
    d[8] = (c_size >> 8) as u8;
    d[9] = c_size as u8;
    d[10] = 0x7F;
    d[11] = 0x80;
    d[12] = 0x0A;
    d[13] = 0x40;
    d[15] = (crc7(&d[0..15]) << 1) | 1;
    d
}

impl Card {
    pub fn new(kind: Kind) -> Card {
        // 64 MiB standard capacity (C_SIZE 4095, MULT 3, BL_LEN 9 -> 4096*32*512)
        // or 4 GiB high capacity (C_SIZE 8191 -> 8192 * 1024 blocks)
        let (csd, capacity_blocks) = match kind {
            Kind::V1Sc | Kind::V2Sc => (csd_v1(4095, 3, 9), 4096u64 * 32),
            Kind::V2Hc => (csd_v2(8191), 8192u64 * 1024),
        };
        Card {
            kind,
            csd,
            capacity_blocks,
            store: HashMap::new(),
            ncr: 1,
            nac: 2,
            busy_block: 20,
            nbr: 0,
            busy_stop: 20,
            busy_cmd12: 3,
            acmd41_iters: 3,
            strict_nwr: false,
            phase: Phase::PowerOn,
            rx: Rx::Command,
            crc_on: false,
            app_cmd: false,
            saw_cmd8: false,
            acmd41_left: 0,
            frame: Vec::new(),
            out: VecDeque::new(),
            reading_multi: None,
            busy_run: 0,
            violations: Vec::new(),
            commands: Vec::new(),
            bytes_clocked: 0,
        }
    }

    /// What the card stores at a block (never-written blocks have a pattern
    /// that depends on the block number)
    pub fn stored(&self, block: u64) -> [u8; 512] {
        match self.store.get(&block) {
            Some(b) => *b,
            None => {
                let mut b = [0u8; 512];
                for (i, x) in b.iter_mut().enumerate() {
                    *x = (block as u8).wrapping_mul(7).wrapping_add(i as u8) & 0x7F;
                }
                b
            }
        }
    }

    fn violate(&mut self, what: String) {
        self.violations
            .push(format!("byte #{}: {}", self.bytes_clocked, what));
    }

    fn push(&mut self, b: u8) {
        self.out.push_back((b, false));
    }

    fn push_busy(&mut self, n: usize) {
        for _ in 0..n {
            self.out.push_back((0x00, true));
        }
    }

    fn push_r1(&mut self, r1: u8) {
        for _ in 0..self.ncr {
            self.push(0xFF);
        }
        self.push(r1);
    }

    fn push_data_block(&mut self, data: &[u8]) {
        for _ in 0..self.nac {
            self.push(0xFF);
        }
        self.push(0xFE);
        for &b in data {
            self.push(b);
        }
        let crc = crc16(data);
        self.push((crc >> 8) as u8);
        self.push(crc as u8);
    }

    fn idle_bit(&self) -> u8 {
        if self.phase == Phase::Ready {
            0
        } else {
            1
        }
    }

    /// One SPI byte time
    pub fn xfer(&mut self, mosi: u8) -> u8 {
        self.bytes_clocked += 1;

        // A multi-block read keeps streaming
        if self.out.is_empty() {
            if let Some(next) = self.reading_multi {
                if next < self.capacity_blocks {
                    let data = self.stored(next);
                    self.push_data_block(&data);
                    self.reading_multi = Some(next + 1);
                } else if next != u64::MAX {
                    // ran off the end of the card: out of range data error
                    // token, once; the read stays open until CMD12
                    self.push(0x08);
                    self.reading_multi = Some(u64::MAX);
                }
            }
        }

        let sending = !self.out.is_empty();
        let (miso, busy) = self.out.pop_front().unwrap_or((0xFF, false));

        if busy {
            // The card is programming: it holds the line low and does not
            // listen.
            if mosi != 0xFF {
                if self.busy_run % 6 == 0 && mosi & 0xC0 == 0x40 {
                    self.violate(format!(
                        "byte {:#04x} (start of a command frame, CMD{}) sent while the card signals busy",
                        mosi,
                        mosi & 0x3F
                    ));
                } else {
                    self.violate(format!(
                        "byte {:#04x} sent while the card signals busy",
                        mosi
                    ));
                }
                self.busy_run += 1;
            } else {
                self.busy_run = 0;
            }
            return miso;
        }

        match std::mem::replace(&mut self.rx, Rx::Command) {
            Rx::Command => self.rx_command(mosi),
            Rx::AwaitToken {
                multi,
                block,
                gap_seen,
            } => {
                if sending {
                    // The card is still sending its response / data response:
                    // the gap before the token has not begun yet.
                    if mosi != 0xFF {
                        self.violate(format!(
                            "byte {:#04x} sent while the card is sending its response to the write command",
                            mosi
                        ));
                    }
                    self.rx = Rx::AwaitToken {
                        multi,
                        block,
                        gap_seen,
                    };
                } else {
                    self.rx_await_token(mosi, multi, block, gap_seen)
                }
            }
            Rx::Data {
                multi,
                block,
                mut buf,
            } => {
                buf.push(mosi);
                if buf.len() == 514 {
                    self.data_block_done(multi, block, buf);
                } else {
                    self.rx = Rx::Data { multi, block, buf };
                }
            }
        }
        miso
    }

    fn rx_await_token(&mut self, mosi: u8, multi: bool, block: u64, gap_seen: usize) {
        if self.strict_nwr && gap_seen == 0 {
            // N_WR: the first byte time after the response belongs to the gap
            if mosi != 0xFF {
                self.violate(format!(
                    "byte {:#04x} sent in the N_WR gap (min. 8 clocks of 0xFF between the response to the write command and the start token)",
                    mosi
                ));
            }
            self.rx = Rx::AwaitToken {
                multi,
                block,
                gap_seen: 1,
            };
            return;
        }
        match (mosi, multi) {
            (0xFF, _) => {
                self.rx = Rx::AwaitToken {
                    multi,
                    block,
                    gap_seen: gap_seen + 1,
                };
            }
            (0xFE, false) | (0xFC, true) => {
                self.rx = Rx::Data {
                    multi,
                    block,
                    buf: Vec::with_capacity(514),
                };
            }
            (0xFD, true) => {
                // stop tran: N_BR then busy
                for _ in 0..self.nbr {
                    self.push(0xFF);
                }
                let n = self.busy_stop;
                self.push_busy(n);
                self.rx = Rx::Command;
            }
            (other, _) => {
                if !self.violations.iter().any(|v| v.contains("start token was expected")) {
                self.violate(format!(
                    "byte {:#04x} where a {} start token was expected",
                    other,
                    if multi { "multi-block (0xFC) or stop (0xFD)" } else { "single-block (0xFE)" }
                ));
                }
                self.rx = Rx::AwaitToken {
                    multi,
                    block,
                    gap_seen: gap_seen + 1,
                };
            }
        }
    }

    fn data_block_done(&mut self, multi: bool, block: u64, buf: Vec<u8>) {
        let crc = u16::from_be_bytes([buf[512], buf[513]]);
        let good = crc == crc16(&buf[0..512]);
        if self.crc_on && !good {
            self.violate(format!("data block for block {} has a wrong CRC-16", block));
            self.push(0xEB); // xxx0_101_1 : CRC error (top bits are don't-care)
            self.rx = if multi {
                Rx::AwaitToken {
                    multi,
                    block,
                    gap_seen: 0,
                }
            } else {
                Rx::Command
            };
            return;
        }
        if block >= self.capacity_blocks {
            self.push(0xED); // write error
            self.rx = Rx::Command;
            return;
        }
        let mut b = [0u8; 512];
        b.copy_from_slice(&buf[0..512]);
        self.store.insert(block, b);
        // data response "accepted"; the three top bits are don't-care
        self.push(0xE5);
        let n = self.busy_block;
        self.push_busy(n);
        self.rx = if multi {
            Rx::AwaitToken {
                multi,
                block: block + 1,
                gap_seen: 0,
            }
        } else {
            Rx::Command
        };
    }

    fn rx_command(&mut self, mosi: u8) {
        if self.frame.is_empty() {
            if mosi == 0xFF {
                return;
            }
            if mosi & 0xC0 != 0x40 {
                self.violate(format!(
                    "byte {:#04x} between frames (neither 0xFF nor the start of a command)",
                    mosi
                ));
                return;
            }
            if !self.out.is_empty() && self.reading_multi.is_none() {
                self.violate(format!(
                    "command CMD{} started while the card is still sending its previous response",
                    mosi & 0x3F
                ));
            }
        }
        self.frame.push(mosi);
        if self.frame.len() < 6 {
            return;
        }
        let f = std::mem::take(&mut self.frame);
        let idx = f[0] & 0x3F;
        let arg = u32::from_be_bytes([f[1], f[2], f[3], f[4]]);
        self.commands.push((idx, arg));
        if f[5] & 1 != 1 {
            self.violate(format!("CMD{}: end bit is 0", idx));
        }
        if f[5] >> 1 != crc7(&f[0..5]) {
            self.violate(format!("CMD{}: wrong CRC-7", idx));
            if self.crc_on || idx == 0 || idx == 8 {
                let r = 0x08 | self.idle_bit();
                self.push_r1(r);
                return;
            }
        }
        let was_app = std::mem::replace(&mut self.app_cmd, false);
        self.execute(idx, arg, was_app);
    }

    fn addr_to_block(&mut self, arg: u32) -> Option<u64> {
        match self.kind {
            Kind::V2Hc => Some(arg as u64),
            _ => {
                if arg % 512 != 0 {
                    None
                } else {
                    Some(arg as u64 / 512)
                }
            }
        }
    }

    fn execute(&mut self, idx: u8, arg: u32, was_app: bool) {
        // CMD12 during a multi-block read
        if idx == 12 {
            if self.reading_multi.is_none() && self.out.is_empty() {
                self.violate("CMD12 without an open multi-block read".into());
                let r = 0x04 | self.idle_bit();
                self.push_r1(r);
                return;
            }
            self.reading_multi = None;
            self.out.clear();
            // stuff byte: anything; take something that looks like an R1
            self.push(0x7F);
            self.push_r1(0x00);
            let n = self.busy_cmd12;
            self.push_busy(n);
            return;
        }
        if self.reading_multi.is_some() {
            self.violate(format!("CMD{} during a multi-block read", idx));
        }

        if self.phase == Phase::PowerOn && idx != 0 {
            self.violate(format!("CMD{} before CMD0", idx));
            return;
        }

        if was_app {
            match idx {
                41 => {
                    if self.phase == Phase::Ready {
                        self.push_r1(0x00);
                        return;
                    }
                    if self.kind != Kind::V1Sc && !self.saw_cmd8 {
                        self.violate("ACMD41 before CMD8".into());
                    }
                    if self.kind == Kind::V1Sc && arg & 0x4000_0000 != 0 {
                        // legal for the host as long as CMD8 was not answered;
                        // here the card did not answer CMD8 -> HCS must be 0
                        self.violate("ACMD41 with HCS set to a card that rejected CMD8".into());
                    }
                    if self.kind == Kind::V2Hc && arg & 0x4000_0000 == 0 {
                        // stays busy forever
                        self.push_r1(0x01);
                        return;
                    }
                    if self.acmd41_left > 0 {
                        self.acmd41_left -= 1;
                        self.push_r1(0x01);
                    } else {
                        self.phase = Phase::Ready;
                        self.push_r1(0x00);
                    }
                    return;
                }
                23 => {
                    if self.phase != Phase::Ready {
                        self.violate("ACMD23 before the end of identification".into());
                    }
                    self.push_r1(0x00);
                    return;
                }
                _ => {}
            }
        } else if idx == 41 || idx == 23 {
            self.violate(format!("ACMD{} not directly preceded by CMD55", idx));
            let r = 0x04 | self.idle_bit();
            self.push_r1(r);
            return;
        }

        match idx {
            0 => {
                self.phase = Phase::Idle;
                self.crc_on = false;
                self.saw_cmd8 = false;
                self.acmd41_left = self.acmd41_iters;
                self.rx = Rx::Command;
                self.push_r1(0x01);
            }
            8 => {
                if self.phase != Phase::Idle {
                    self.violate("CMD8 outside idle state".into());
                }
                if self.kind == Kind::V1Sc {
                    self.push_r1(0x05);
                } else {
                    self.saw_cmd8 = true;
                    self.push_r1(0x01);
                    // R7: command version + reserved bits (don't-care), voltage, echo
                    self.push(0x00);
                    self.push(0x00);
                    self.push(((arg >> 8) & 0x0F) as u8);
                    self.push(arg as u8);
                }
            }
            55 => {
                self.app_cmd = true;
                let r = self.idle_bit();
                self.push_r1(r);
            }
            58 => {
                let r = self.idle_bit();
                self.push_r1(r);
                let mut ocr0 = 0x00u8;
                if self.phase == Phase::Ready {
                    ocr0 |= 0x80;
                    if self.kind == Kind::V2Hc {
                        ocr0 |= 0x40;
                    }
                }
                self.push(ocr0);
                self.push(0xFF);
                self.push(0x80);
                self.push(0x00);
            }
            59 => {
                self.crc_on = arg & 1 == 1;
                let r = self.idle_bit();
                self.push_r1(r);
            }
            9 | 13 | 17 | 18 | 24 | 25 if self.phase != Phase::Ready => {
                self.violate(format!(
                    "CMD{} before the identification sequence has completed",
                    idx
                ));
                self.push_r1(0x05);
            }
            9 => {
                self.push_r1(0x00);
                let csd = self.csd;
                self.push_data_block(&csd);
            }
            13 => {
                self.push_r1(0x00);
                self.push(0x00);
            }
            17 => match self.addr_to_block(arg) {
                Some(b) if b < self.capacity_blocks => {
                    self.push_r1(0x00);
                    let data = self.stored(b);
                    self.push_data_block(&data);
                }
                Some(_) => self.push_r1(0x40),
                None => self.push_r1(0x20),
            },
            18 => match self.addr_to_block(arg) {
                Some(b) if b < self.capacity_blocks => {
                    self.push_r1(0x00);
                    self.reading_multi = Some(b);
                }
                Some(_) => self.push_r1(0x40),
                None => self.push_r1(0x20),
            },
            24 | 25 => match self.addr_to_block(arg) {
                Some(b) if b < self.capacity_blocks => {
                    self.push_r1(0x00);
                    self.rx = Rx::AwaitToken {
                        multi: idx == 25,
                        block: b,
                        gap_seen: 0,
                    };
                }
                Some(_) => self.push_r1(0x40),
                None => self.push_r1(0x20),
            },
            other => {
                self.violate(format!("unexpected CMD{}", other));
                let r = 0x04 | self.idle_bit();
                self.push_r1(r);
            }
        }
    }
}

/// embedded-hal SpiDevice in front of the card
#[derive(Clone)]
pub struct Bus(pub Rc<RefCell<Card>>);

impl ErrorType for Bus {
    type Error = Infallible;
}

impl SpiDevice<u8> for Bus {
    fn transaction(&mut self, operations: &mut [Operation<'_, u8>]) -> Result<(), Infallible> {
        let mut card = self.0.borrow_mut();
        for op in operations.iter_mut() {
            match op {
                Operation::Read(buf) => {
                    for b in buf.iter_mut() {
                        *b = card.xfer(0xFF);
                    }
                }
                Operation::Write(buf) => {
                    for b in buf.iter() {
                        card.xfer(*b);
                    }
                }
                Operation::Transfer(rd, wr) => {
                    let n = rd.len().max(wr.len());
                    for i in 0..n {
                        let o = wr.get(i).copied().unwrap_or(0xFF);
                        let r = card.xfer(o);
                        if let Some(x) = rd.get_mut(i) {
                            *x = r;
                        }
                    }
                }
                Operation::TransferInPlace(buf) => {
                    for b in buf.iter_mut() {
                        *b = card.xfer(*b);
                    }
                }
                Operation::DelayNs(_) => {}
            }
        }
        Ok(())
    }
}

pub struct NoDelay;
impl embedded_hal::delay::DelayNs for NoDelay {
    fn delay_ns(&mut self, _ns: u32) {}
}

pub fn payload(seed: u8) -> [u8; 512] {
    let mut b = [0u8; 512];
    for (i, x) in b.iter_mut().enumerate() {
        // never 0xFF / 0xFE / 0xFC / 0xFD and never a command start byte
        *x = (seed.wrapping_add(i as u8).wrapping_mul(3)) & 0x3F;
    }
    b
}

// ===========================================================================
// The test
// ===========================================================================
use embedded_sdmmc::sdcard::{AcquireOpts, CardType};
use embedded_sdmmc::{Block, BlockDevice, BlockIdx, SdCard};

fn mk(kind: Kind, use_crc: bool) -> (Rc<RefCell<Card>>, SdCard<Bus, NoDelay>) {
    let card = Rc::new(RefCell::new(Card::new(kind)));
    let sd = SdCard::new_with_options(
        Bus(card.clone()),
        NoDelay,
        AcquireOpts {
            use_crc,
            acquire_retries: 50,
        },
    );
    (card, sd)
}

fn blocks(n: usize, seed: u8) -> Vec<Block> {
    (0..n)
        .map(|i| {
            let mut b = Block::new();
            b.contents = payload(seed.wrapping_add(i as u8));
            b
        })
        .collect()
}

fn expect_type(kind: Kind) -> CardType {
    match kind {
        Kind::V1Sc => CardType::SD1,
        Kind::V2Sc => CardType::SD2,
        Kind::V2Hc => CardType::SDHC,
    }
}

#[test]
fn bug3_cmd0_sent_while_card_busy_after_mark_card_uninit() {
    for kind in [Kind::V1Sc, Kind::V2Sc, Kind::V2Hc] {
        let (card, sd) = mk(kind, true);
        card.borrow_mut().busy_cmd12 = 1000; // R1b: busy may follow

        // a multi-block read; it ends with CMD12
        let mut r2 = blocks(2, 0);
        sd.read(&mut r2, BlockIdx(10)).expect("multi-block read");
        assert_eq!(r2[0].contents, card.borrow().stored(10));
        assert_eq!(r2[1].contents, card.borrow().stored(11));
        assert!(card.borrow().violations.is_empty());

        // the application wants a fresh start
        sd.mark_card_uninit();
        let mut r = [Block::new()];
        let res = sd.read(&mut r, BlockIdx(10));

        let v = card.borrow().violations.clone();
        assert!(
            v.is_empty(),
            "{:?}: read after mark_card_uninit returned {:?}; {} bytes of command frames sent while the card signals busy; first: {:#?}",
            kind,
            res,
            v.len(),
            &v[..v.len().min(7)]
        );
        assert!(res.is_ok(), "{:?}: read after mark_card_uninit: {:?}", kind, res);
        assert_eq!(r[0].contents, card.borrow().stored(10));
        assert_eq!(sd.get_card_type(), Some(expect_type(kind)));
    }
}
