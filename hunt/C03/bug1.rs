//! C03 bug 1: "." / ".." / "" are accepted as the name of a NEW file or directory.
//!
//! `ShortFileName::create_from_str` maps "." and "" to the dot entry name
//! (".          ") and ".." to the dot-dot entry name ("..         ") so that
//! `open_dir(dir, ".")` / `open_dir(dir, "..")` can navigate.  But
//! `make_dir_in_dir` and `open_file_in_dir(.., ReadWriteCreate*)` use the very same
//! conversion and only check "is there already an entry with these 11 bytes?".
//! The root directory has no dot entries, so in the root the check passes and the
//! library writes
//!   * a sub-directory entry named "." (or "..") into the ROOT directory, or
//!   * a regular FILE named "." / ".." (attr 0x00, its own data chain).
//!
//! What should have happened: the three calls below must fail (e.g. with
//! `Error::FilenameError(..)`/`Unsupported`) and leave the root directory untouched.
//! Dot entries are only legal as the first two slots of a sub-directory, where
//! "." must be a directory pointing at the directory itself and ".." one pointing
//! at the parent.  fsck.fat reports the result as `Root contains directory ".".
//! Dropping it.` resp. `/.  Is a non-directory.`
//!
//! Clause of C03 violated: "After every API call returns ... the on-disk volume
//! ... is structurally sound: ... sub-directories have correct dot and dot-dot
//! entries" (title: "The volume stays a well-formed FAT file system after every
//! operation") - after the call the root holds dot / dot-dot entries that are
//! not the dot entries of any directory (wrong place, wrong target, or not even
//! a directory).
// ---------------------------------------------------------------------------
// Minimal in-memory disk, mkfs and raw-image helpers (no dependency on tests/utils)
// ---------------------------------------------------------------------------
use embedded_sdmmc::{
    Block, BlockCount, BlockDevice, BlockIdx, Mode, TimeSource, Timestamp, VolumeIdx,
    VolumeManager,
};
use std::cell::RefCell;
use std::rc::Rc;

#[derive(Clone)]
struct Disk(Rc<RefCell<Vec<u8>>>);

impl BlockDevice for Disk {
    type Error = ();
    fn read(&self, blocks: &mut [Block], start: BlockIdx) -> Result<(), ()> {
        let d = self.0.borrow();
        for (i, b) in blocks.iter_mut().enumerate() {
            let o = (start.0 as usize + i) * 512;
            if o + 512 > d.len() {
                return Err(());
            }
            b.contents.copy_from_slice(&d[o..o + 512]);
        }
        Ok(())
    }
    fn write(&self, blocks: &[Block], start: BlockIdx) -> Result<(), ()> {
        let mut d = self.0.borrow_mut();
        for (i, b) in blocks.iter().enumerate() {
            let o = (start.0 as usize + i) * 512;
            if o + 512 > d.len() {
                return Err(());
            }
            d[o..o + 512].copy_from_slice(&b.contents);
        }
        Ok(())
    }
    fn num_blocks(&self) -> Result<BlockCount, ()> {
        Ok(BlockCount((self.0.borrow().len() / 512) as u32))
    }
}

struct Clock;
impl TimeSource for Clock {
    fn get_timestamp(&self) -> Timestamp {
        Timestamp {
            year_since_1970: 40,
            zero_indexed_month: 1,
            zero_indexed_day: 1,
            hours: 1,
            minutes: 2,
            seconds: 4,
        }
    }
}

fn w16(b: &mut [u8], o: usize, v: u16) {
    b[o..o + 2].copy_from_slice(&v.to_le_bytes());
}
fn w32(b: &mut [u8], o: usize, v: u32) {
    b[o..o + 4].copy_from_slice(&v.to_le_bytes());
}
fn r16(b: &[u8], o: usize) -> u16 {
    u16::from_le_bytes([b[o], b[o + 1]])
}
fn r32(b: &[u8], o: usize) -> u32 {
    u32::from_le_bytes([b[o], b[o + 1], b[o + 2], b[o + 3]])
}

/// Where things are in the image made by `mkfs` (all in 512-byte blocks, absolute).
#[derive(Clone, Copy, Debug)]
struct Layout {
    fat32: bool,
    fat_start: usize,
    /// FAT16: first block of the fixed root directory. FAT32: first block of the root cluster.
    root_start: usize,
    /// number of 32-byte slots of the root directory (FAT32: of its first cluster)
    root_slots: usize,
}

/// An empty, freshly formatted, MBR-partitioned volume: one sector per cluster,
/// two FATs, partition starting at block 1. `fat32 == false`: FAT16 with 4085
/// clusters and `root_entries` root slots; `fat32 == true`: FAT32 with 65525
/// clusters and the root directory in cluster 2.
fn mkfs(fat32: bool, root_entries: u16) -> (Vec<u8>, Layout) {
    let clusters: u32 = if fat32 { 65525 } else { 4085 };
    let reserved: u32 = if fat32 { 32 } else { 1 };
    let entries = clusters + 2;
    let fatsz = if fat32 { (entries * 4 + 511) / 512 } else { (entries * 2 + 511) / 512 };
    let rootblocks = if fat32 { 0 } else { (root_entries as u32 * 32 + 511) / 512 };
    let total = reserved + 2 * fatsz + rootblocks + clusters;
    let lba = 1u32;
    let mut img = vec![0u8; (lba + total) as usize * 512];
    // MBR
    img[446 + 4] = if fat32 { 0x0C } else { 0x0E };
    w32(&mut img, 446 + 8, lba);
    w32(&mut img, 446 + 12, total);
    w16(&mut img, 510, 0xAA55);
    // boot sector
    let base = lba as usize * 512;
    {
        let b = &mut img[base..base + 512];
        b[0..3].copy_from_slice(&[0xEB, 0x3C, 0x90]);
        b[3..11].copy_from_slice(b"MSWIN4.1");
        w16(b, 11, 512);
        b[13] = 1;
        w16(b, 14, reserved as u16);
        b[16] = 2;
        w16(b, 17, if fat32 { 0 } else { root_entries });
        if total < 0x10000 && !fat32 {
            w16(b, 19, total as u16);
        } else {
            w32(b, 32, total);
        }
        b[21] = 0xF8;
        if fat32 {
            w32(b, 36, fatsz);
            w32(b, 44, 2);
            w16(b, 48, 1);
            w16(b, 50, 6);
            b[66] = 0x29;
            b[71..82].copy_from_slice(b"NO NAME    ");
            b[82..90].copy_from_slice(b"FAT32   ");
        } else {
            w16(b, 22, fatsz as u16);
            b[38] = 0x29;
            b[43..54].copy_from_slice(b"NO NAME    ");
            b[54..62].copy_from_slice(b"FAT16   ");
        }
        w16(b, 510, 0xAA55);
    }
    if fat32 {
        let o = base + 512;
        w32(&mut img, o, 0x4161_5252);
        w32(&mut img, o + 484, 0x6141_7272);
        w32(&mut img, o + 488, 0xFFFF_FFFF);
        w32(&mut img, o + 492, 0xFFFF_FFFF);
        w32(&mut img, o + 508, 0xAA55_0000);
    }
    for f in 0..2usize {
        let fo = base + (reserved as usize + f * fatsz as usize) * 512;
        if fat32 {
            w32(&mut img, fo, 0x0FFF_FFF8);
            w32(&mut img, fo + 4, 0x0FFF_FFFF);
            w32(&mut img, fo + 8, 0x0FFF_FFFF); // root directory, one cluster
        } else {
            w16(&mut img, fo, 0xFFF8);
            w16(&mut img, fo + 2, 0xFFFF);
        }
    }
    let layout = Layout {
        fat32,
        fat_start: (lba + reserved) as usize,
        root_start: (lba + reserved + 2 * fatsz) as usize,
        root_slots: if fat32 { 16 } else { root_entries as usize },
    };
    (img, layout)
}

/// The 32 bytes of root directory slot `i` (may lie behind `root_slots`).
fn root_slot(img: &[u8], l: &Layout, i: usize) -> [u8; 32] {
    let o = l.root_start * 512 + i * 32;
    let mut s = [0u8; 32];
    s.copy_from_slice(&img[o..o + 32]);
    s
}

fn show(s: &[u8; 32]) -> String {
    format!(
        "name {:?} attr {:#04x} cluster {} size {}",
        String::from_utf8_lossy(&s[0..11]),
        s[11],
        ((r16(s, 20) as u32) << 16) | r16(s, 26) as u32,
        r32(s, 28)
    )
}

// ---------------------------------------------------------------------------

const DOT: &[u8; 11] = b".          ";
const DOTDOT: &[u8; 11] = b"..         ";

/// Every live (not free, not long-name) slot of the root directory that carries a dot name.
fn dot_entries_in_root(img: &[u8], l: &Layout) -> Vec<String> {
    let mut found = vec![];
    for i in 0..l.root_slots {
        let s = root_slot(img, l, i);
        if s[0] == 0 {
            break;
        }
        if s[0] == 0xE5 || s[11] & 0x0F == 0x0F {
            continue;
        }
        if &s[0..11] == DOT || &s[0..11] == DOTDOT {
            found.push(format!("root slot {i}: {}", show(&s)));
        }
    }
    found
}

fn scenario(fat32: bool) {
    let (img, l) = mkfs(fat32, 32);
    let img = Rc::new(RefCell::new(img));
    let vm = VolumeManager::new(Disk(img.clone()), Clock);
    let vol = vm.open_raw_volume(VolumeIdx(0)).unwrap();
    let root = vm.open_root_dir(vol).unwrap();
    assert!(dot_entries_in_root(&img.borrow(), &l).is_empty());

    // 1. a directory called "." in the root
    let r1 = vm.make_dir_in_dir(root, ".");
    println!("make_dir_in_dir(root, \".\") -> {r1:?}");
    // 2. a regular file called ".." in the root, with data
    let r2 = vm.open_file_in_dir(root, "..", Mode::ReadWriteCreate);
    println!("open_file_in_dir(root, \"..\", ReadWriteCreate) -> {r2:?}");
    if let Ok(f) = r2 {
        vm.write(f, b"not a directory").unwrap();
        vm.close_file(f).unwrap();
    }
    let after = dot_entries_in_root(&img.borrow(), &l);
    for e in &after {
        println!("  {e}");
    }
    assert!(
        after.is_empty(),
        "{}: the root directory now holds dot entries: {after:#?}",
        if fat32 { "FAT32" } else { "FAT16" }
    );
    assert!(r1.is_err(), "make_dir_in_dir(root, \".\") must be refused");
    assert!(r2.is_err(), "creating a file called \"..\" must be refused");
}

#[test]
fn fat16_dot_names_are_not_creatable() {
    scenario(false);
}

#[test]
fn fat32_dot_names_are_not_creatable() {
    scenario(true);
}

/// The empty string is converted to "." as well: `open_file_in_dir(root, "", ReadWriteCreate)`
/// creates a regular file whose name is the dot entry name.
#[test]
fn empty_name_creates_a_file_called_dot() {
    let (img, l) = mkfs(false, 32);
    let img = Rc::new(RefCell::new(img));
    let vm = VolumeManager::new(Disk(img.clone()), Clock);
    let vol = vm.open_raw_volume(VolumeIdx(0)).unwrap();
    let root = vm.open_root_dir(vol).unwrap();
    let r = vm.open_file_in_dir(root, "", Mode::ReadWriteCreateOrTruncate);
    println!("open_file_in_dir(root, \"\", ReadWriteCreateOrTruncate) -> {r:?}");
    if let Ok(f) = r {
        vm.close_file(f).unwrap();
    }
    let after = dot_entries_in_root(&img.borrow(), &l);
    assert!(after.is_empty(), "the root directory now holds: {after:#?}");
}
