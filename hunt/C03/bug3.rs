//! C03 bug 3: on FAT16 the root directory is treated as having a whole number of
//! 512-byte blocks of slots, not `BPB_RootEntCnt` slots.
//!
//! The fixed FAT16 root directory has exactly `BPB_RootEntCnt` 32-byte slots.  The
//! count need not be a multiple of 16: Microsoft's own formula
//! `RootDirSectors = ((BPB_RootEntCnt * 32) + (BPB_BytsPerSec - 1)) / BPB_BytsPerSec`
//! rounds UP precisely so that such a count still gets whole sectors (the spec only says
//! the count "should" fill whole sectors).  The library uses the same rounded-up sector
//! count (so the data area is where it should be) but then walks EVERY slot of those
//! sectors as root directory:
//!   src/fat/volume.rs  write_new_directory_entry (FAT16 arm, `dir_size =
//!   BlockCount::from_bytes(root_entries_count * 32)` then `for block_idx in
//!   first_dir_block_num.range(dir_size)` / `block.chunks_exact_mut(32)`), and the same
//!   in iterate_fat16, find_directory_entry, delete_directory_entry.
//! With `BPB_RootEntCnt = 24` (1.5 sectors -> 2 sectors = 32 slots) the library happily
//! creates 32 entries.  Entries 25..32 lie BEHIND the last slot of the root directory,
//! in the padding of the root region: no other FAT implementation (and no fsck) looks
//! there, so those eight files do not exist for anybody else and their cluster chains
//! are owned by nothing.
//!
//! What should have happened: the 25th create in a root with 24 slots returns
//! `Error::NotEnoughSpace` (that is the "FAT16 root directories filled to the last
//! slot" case of C03), and bytes behind slot 24 are never written.
//!
//! Clause of C03 violated: "After every API call returns (success or error), the
//! on-disk volume ... is structurally sound ... no entry follows the end-of-directory
//! marker" - here entries are written after the END OF THE DIRECTORY ITSELF, and
//! "every file ... chain": the chains of F24..F31 belong to no entry of any directory.
//! Quantifier: "on all geometries including ... FAT16 root directories filled to the
//! last slot".
// ---------------------------------------------------------------------------
// Minimal in-memory disk, mkfs and raw-image helpers (no dependency on tests/utils)
// ---------------------------------------------------------------------------
use embedded_sdmmc::{
    Block, BlockCount, BlockDevice, BlockIdx, Mode, TimeSource, Timestamp, VolumeIdx,
    VolumeManager,
};
use std::cell::RefCell;
use std::rc::Rc;

#[derive(Clone)]
struct Disk(Rc<RefCell<Vec<u8>>>);

impl BlockDevice for Disk {
    type Error = ();
    fn read(&self, blocks: &mut [Block], start: BlockIdx) -> Result<(), ()> {
        let d = self.0.borrow();
        for (i, b) in blocks.iter_mut().enumerate() {
            let o = (start.0 as usize + i) * 512;
            if o + 512 > d.len() {
                return Err(());
            }
            b.contents.copy_from_slice(&d[o..o + 512]);
        }
        Ok(())
    }
    fn write(&self, blocks: &[Block], start: BlockIdx) -> Result<(), ()> {
        let mut d = self.0.borrow_mut();
        for (i, b) in blocks.iter().enumerate() {
            let o = (start.0 as usize + i) * 512;
            if o + 512 > d.len() {
                return Err(());
            }
            d[o..o + 512].copy_from_slice(&b.contents);
        }
        Ok(())
    }
    fn num_blocks(&self) -> Result<BlockCount, ()> {
        Ok(BlockCount((self.0.borrow().len() / 512) as u32))
    }
}

struct Clock;
impl TimeSource for Clock {
    fn get_timestamp(&self) -> Timestamp {
        Timestamp {
            year_since_1970: 40,
            zero_indexed_month: 1,
            zero_indexed_day: 1,
            hours: 1,
            minutes: 2,
            seconds: 4,
        }
    }
}

fn w16(b: &mut [u8], o: usize, v: u16) {
    b[o..o + 2].copy_from_slice(&v.to_le_bytes());
}
fn w32(b: &mut [u8], o: usize, v: u32) {
    b[o..o + 4].copy_from_slice(&v.to_le_bytes());
}
fn r16(b: &[u8], o: usize) -> u16 {
    u16::from_le_bytes([b[o], b[o + 1]])
}
fn r32(b: &[u8], o: usize) -> u32 {
    u32::from_le_bytes([b[o], b[o + 1], b[o + 2], b[o + 3]])
}

/// Where things are in the image made by `mkfs` (all in 512-byte blocks, absolute).
#[derive(Clone, Copy, Debug)]
struct Layout {
    fat32: bool,
    fat_start: usize,
    /// FAT16: first block of the fixed root directory. FAT32: first block of the root cluster.
    root_start: usize,
    /// number of 32-byte slots of the root directory (FAT32: of its first cluster)
    root_slots: usize,
}

/// An empty, freshly formatted, MBR-partitioned volume: one sector per cluster,
/// two FATs, partition starting at block 1. `fat32 == false`: FAT16 with 4085
/// clusters and `root_entries` root slots; `fat32 == true`: FAT32 with 65525
/// clusters and the root directory in cluster 2.
fn mkfs(fat32: bool, root_entries: u16) -> (Vec<u8>, Layout) {
    let clusters: u32 = if fat32 { 65525 } else { 4085 };
    let reserved: u32 = if fat32 { 32 } else { 1 };
    let entries = clusters + 2;
    let fatsz = if fat32 { (entries * 4 + 511) / 512 } else { (entries * 2 + 511) / 512 };
    let rootblocks = if fat32 { 0 } else { (root_entries as u32 * 32 + 511) / 512 };
    let total = reserved + 2 * fatsz + rootblocks + clusters;
    let lba = 1u32;
    let mut img = vec![0u8; (lba + total) as usize * 512];
    // MBR
    img[446 + 4] = if fat32 { 0x0C } else { 0x0E };
    w32(&mut img, 446 + 8, lba);
    w32(&mut img, 446 + 12, total);
    w16(&mut img, 510, 0xAA55);
    // boot sector
    let base = lba as usize * 512;
    {
        let b = &mut img[base..base + 512];
        b[0..3].copy_from_slice(&[0xEB, 0x3C, 0x90]);
        b[3..11].copy_from_slice(b"MSWIN4.1");
        w16(b, 11, 512);
        b[13] = 1;
        w16(b, 14, reserved as u16);
        b[16] = 2;
        w16(b, 17, if fat32 { 0 } else { root_entries });
        if total < 0x10000 && !fat32 {
            w16(b, 19, total as u16);
        } else {
            w32(b, 32, total);
        }
        b[21] = 0xF8;
        if fat32 {
            w32(b, 36, fatsz);
            w32(b, 44, 2);
            w16(b, 48, 1);
            w16(b, 50, 6);
            b[66] = 0x29;
            b[71..82].copy_from_slice(b"NO NAME    ");
            b[82..90].copy_from_slice(b"FAT32   ");
        } else {
            w16(b, 22, fatsz as u16);
            b[38] = 0x29;
            b[43..54].copy_from_slice(b"NO NAME    ");
            b[54..62].copy_from_slice(b"FAT16   ");
        }
        w16(b, 510, 0xAA55);
    }
    if fat32 {
        let o = base + 512;
        w32(&mut img, o, 0x4161_5252);
        w32(&mut img, o + 484, 0x6141_7272);
        w32(&mut img, o + 488, 0xFFFF_FFFF);
        w32(&mut img, o + 492, 0xFFFF_FFFF);
        w32(&mut img, o + 508, 0xAA55_0000);
    }
    for f in 0..2usize {
        let fo = base + (reserved as usize + f * fatsz as usize) * 512;
        if fat32 {
            w32(&mut img, fo, 0x0FFF_FFF8);
            w32(&mut img, fo + 4, 0x0FFF_FFFF);
            w32(&mut img, fo + 8, 0x0FFF_FFFF); // root directory, one cluster
        } else {
            w16(&mut img, fo, 0xFFF8);
            w16(&mut img, fo + 2, 0xFFFF);
        }
    }
    let layout = Layout {
        fat32,
        fat_start: (lba + reserved) as usize,
        root_start: (lba + reserved + 2 * fatsz) as usize,
        root_slots: if fat32 { 16 } else { root_entries as usize },
    };
    (img, layout)
}

/// The 32 bytes of root directory slot `i` (may lie behind `root_slots`).
fn root_slot(img: &[u8], l: &Layout, i: usize) -> [u8; 32] {
    let o = l.root_start * 512 + i * 32;
    let mut s = [0u8; 32];
    s.copy_from_slice(&img[o..o + 32]);
    s
}

fn show(s: &[u8; 32]) -> String {
    format!(
        "name {:?} attr {:#04x} cluster {} size {}",
        String::from_utf8_lossy(&s[0..11]),
        s[11],
        ((r16(s, 20) as u32) << 16) | r16(s, 26) as u32,
        r32(s, 28)
    )
}

// ---------------------------------------------------------------------------

#[test]
fn fat16_root_with_24_slots_takes_24_entries() {
    const ROOT_ENTRIES: u16 = 24; // 768 bytes = 1.5 sectors
    let (img, l) = mkfs(false, ROOT_ENTRIES);
    let img = Rc::new(RefCell::new(img));
    let vm = VolumeManager::new(Disk(img.clone()), Clock);
    let vol = vm.open_raw_volume(VolumeIdx(0)).unwrap();
    let root = vm.open_root_dir(vol).unwrap();

    let mut created = 0;
    for i in 0..40 {
        let name = format!("F{i}");
        match vm.open_file_in_dir(root, name.as_str(), Mode::ReadWriteCreate) {
            Ok(f) => {
                vm.write(f, b"x").unwrap();
                vm.close_file(f).unwrap();
                created += 1;
            }
            Err(e) => {
                println!("create {name} -> Err({e:?})");
                break;
            }
        }
    }
    println!("root directory has {ROOT_ENTRIES} slots, the library created {created} files in it");
    let mut outside = vec![];
    for i in ROOT_ENTRIES as usize..32 {
        let s = root_slot(&img.borrow(), &l, i);
        if s.iter().any(|&b| b != 0) {
            outside.push(format!("slot {i} (behind the root directory): {}", show(&s)));
        }
    }
    for o in &outside {
        println!("  {o}");
    }
    assert!(
        outside.is_empty(),
        "entries were written behind the last root directory slot: {outside:#?}"
    );
    assert_eq!(created, ROOT_ENTRIES as usize);
}
